//! Compile-fail witnesses (type-level obligations of C08 / C12 / C20), run with
//! `cargo +nightly test --doc --offline` so the error codes are checked.  Every witness has a
//! compiling twin that differs only by the offending line, so a witness cannot pass merely
//! because a path is wrong.

/// C08.R8 — one producer: the public writer cannot be cloned (program order of writes).
/// ```compile_fail,E0599
/// fn f(w: http_serve::BodyWriter<bytes::Bytes, http_serve::BoxError>) {
///     let _w2 = w.clone();
/// }
/// ```
/// twin:
/// ```
/// fn f(w: http_serve::BodyWriter<bytes::Bytes, http_serve::BoxError>) {
///     let _w2 = w;
/// }
/// ```
pub struct WriterNotClone;

/// C12.R5 / C20 — bodies can only be made by this crate: `Body`'s field is private.
/// ```compile_fail,E0603
/// fn f() -> http_serve::Body {
///     http_serve::Body(unimplemented!())
/// }
/// ```
/// twin:
/// ```
/// fn f() -> http_serve::Body {
///     http_serve::Body::empty()
/// }
/// ```
pub struct BodyFieldPrivate;

/// C12.R5 / C20 — the stream enum behind `Body` is not nameable from outside.
/// ```compile_fail,E0603
/// use http_serve::body::BodyStream;
/// ```
/// twin:
/// ```
/// use http_serve::Body;
/// ```
pub struct BodyModulePrivate;

/// C08 / C10 — the chunk writer/reader pair is not reachable from outside (only `streaming_body` builds it).
/// ```compile_fail,E0603
/// use http_serve::chunker::Writer;
/// ```
/// twin:
/// ```
/// use http_serve::BodyWriter;
/// ```
pub struct ChunkerPrivate;
