"""Runner: python3 -m hsv.check <Cxx> [--tier quick|thorough] [--repo DIR] [--facts FILE]

Builds MIR facts from the repository's *current working tree*, runs the rules of
one property, prints one line per rule instance, writes /verif/evidence/<Cxx>.json
and exits 0 (held / only known findings) or 1 (VIOLATION line printed).
"""
import argparse
import hashlib
import importlib
import json
import os
import sys
import tempfile
import time
import traceback

from . import facts as F
from . import px as P
from . import models as M

HERE = os.path.dirname(os.path.dirname(os.path.abspath(__file__)))


class FailClosed(Exception):
    pass


class Ctx:
    def __init__(self, prop, tier, facts_by_cfg, repo):
        self.prop = prop
        self.tier = tier
        self.facts_by_cfg = facts_by_cfg
        self.facts = facts_by_cfg.get("dir") or next(iter(facts_by_cfg.values()))
        self.repo = repo
        self.records = []      # every obligation evaluated
        self.assumptions = []
        self.floors = []
        self.samples = []
        self.analysed = {"px_runs": 0, "paths": 0, "steps": 0, "functions": set()}
        self.models_used = set()
        self.opaque_callees = set()
        self._pxcache = {}
        self.info_lines = []

    # ---- PX with caching
    def px(self, name, inline=None, setup=None, extra_models=None, key=None, max_paths=20000, args=None,
           follow_yield=False, on_event=None, max_depth=4, loop_assume=None):
        if isinstance(inline, (set, frozenset, list, tuple)):
            names = frozenset(inline)
            inl = lambda c, d, names=names: (c.get("res_path") in names)
            ikey = tuple(sorted(names))
        elif inline is None:
            inl = lambda c, d: False
            ikey = ()
        else:
            inl = inline
            ikey = ("fn", key)
        ck = (name, ikey, key)
        if ck in self._pxcache and setup is None and on_event is None and loop_assume is None:
            return self._pxcache[ck]
        if name not in self.facts.bodies:
            raise FailClosed("anchor missing: no MIR body named %r" % name)
        px = P.PX(self.facts, models=M.install(extra_models), inline=inl, max_paths=max_paths,
                  follow_yield=follow_yield, on_event=on_event, max_depth=max_depth)
        px.loop_assume = loop_assume
        try:
            outs = px.run(name, args=args, setup=setup)
        except P.PathBudgetExceeded as e:
            raise FailClosed(str(e))
        pruned = sum(1 for o in outs if o.kind in ("infeasible", "unreachable"))
        outs = [o for o in outs if o.kind not in ("infeasible", "unreachable")]
        self.analysed["pruned_paths"] = self.analysed.get("pruned_paths", 0) + pruned
        self.analysed["px_runs"] += 1
        self.analysed["paths"] += len(outs)
        self.analysed["steps"] += px.steps
        self.analysed["functions"].add(name)
        for o in outs:
            for ev in o.events:
                if ev["k"] == "call":
                    nm = ev["callee"].get("res_path") or ev["callee"].get("path")
                    if ev.get("modelled"):
                        self.models_used.add(nm)
                    elif ev.get("opaque"):
                        self.opaque_callees.add(nm)
                    elif ev.get("inlined"):
                        self.analysed["functions"].add(nm)
        if setup is None and on_event is None and loop_assume is None:
            self._pxcache[ck] = outs
        return outs

    # ---- recording
    def ob(self, rule, instance, ok, key=None, what="", where=None, detail=None, nontrivial=True):
        """one evaluated obligation (rule instance)."""
        rec = {"rule": rule, "instance": instance, "ok": bool(ok), "key": key or instance, "what": what,
               "where": where, "detail": detail, "nontrivial": nontrivial}
        self.records.append(rec)
        return ok

    def violation(self, rule, key, what, where=None, detail=None):
        return self.ob(rule, key, False, key=key, what=what, where=where, detail=detail)

    def ok(self, rule, instance, detail=None, where=None, nontrivial=True):
        return self.ob(rule, instance, True, detail=detail, where=where, nontrivial=nontrivial)

    def floor(self, rule, found, minimum, confirmed=None, what=""):
        self.floors.append({"rule": rule, "found": found, "minimum": minimum, "confirmed": confirmed, "what": what})
        if found < minimum:
            self.violation(rule + ".floor", "%s.floor" % rule,
                           "rule matched %d site(s), fewer than the minimum %d (%s): the rule would be blind" % (found, minimum, what))
        elif confirmed is not None and found != confirmed:
            self.info("COUNT-CHANGED %s: %d sites (confirmed by hand: %d)" % (rule, found, confirmed))

    def assume(self, text):
        if text not in self.assumptions:
            self.assumptions.append(text)

    def sample(self, obj):
        if len(self.samples) < 12:
            self.samples.append(obj)

    def info(self, line):
        self.info_lines.append(line)

    # ---- anchors
    def body(self, name):
        b = self.facts.bodies.get(name)
        if b is None:
            raise FailClosed("anchor missing: no MIR body named %r" % name)
        return b


def load_known():
    p = os.path.join(HERE, "known_findings.json")
    if not os.path.exists(p):
        return {"findings": [], "fixed": []}
    with open(p) as f:
        return json.load(f)


def jsonable(x, depth=0):
    if depth > 8:
        return "…"
    if isinstance(x, (str, int, float, bool)) or x is None:
        return x
    if isinstance(x, dict):
        return {str(k): jsonable(v, depth + 1) for k, v in x.items()}
    if isinstance(x, (set, frozenset)):
        return sorted(str(i) for i in x)
    if isinstance(x, tuple) and x and isinstance(x[0], str) and x[0] in ("const", "call", "binop", "agg", "payload", "field", "ref", "unop", "loopvar", "deref", "found", "len", "pack"):
        return P.fmt_term(x)
    if isinstance(x, (list, tuple)):
        return [jsonable(i, depth + 1) for i in x]
    return str(x)


WITNESS_PROPS = {"C08", "C12", "C20", "C10"}


def thorough_extras(prop, repo):
    """thorough tier only: (a) both feature configurations were analysed by the caller; (b) the checker is tested both
    ways on scratch copies of the repository (mutants must be flagged, benign rewrites must stay silent);
    (c) compile-fail witnesses for the type-level obligations.  None of this runs http-serve code."""
    import subprocess
    out = {}
    st = os.path.join(HERE, "bin", "selftest")
    tmpj = tempfile.mktemp(prefix="hsv-selftest-", suffix=".json")
    env = dict(os.environ, HSV_REPO=repo)
    r = subprocess.run([sys.executable, st, "--only", prop, "--kind", "all", "--jobs", "8", "--json", tmpj],
                       cwd=HERE, capture_output=True, text=True, env=env)
    try:
        with open(tmpj) as f:
            res = json.load(f)
        os.remove(tmpj)
        flagged = [x for x in res["results"] if x["status"] in ("FLAGGED", "FLAGGED-OTHER-RULE")]
        missed = [x["label"] for x in res["results"] if x["status"] == "MISSED"]
        silent = [x for x in res["results"] if x["status"] == "SILENT"]
        false_alarm = [x["label"] for x in res["results"] if x["status"] == "FALSE-ALARM"]
        other = [x["label"] + ":" + x["status"] for x in res["results"] if x["status"] in ("PATCH-FAILED", "BUILD-FAILED")]
        out["selftest"] = {"mutants_flagged": len(flagged), "mutants_total": len(flagged) + len(missed), "missed": missed,
                           "benign_silent": len(silent), "benign_total": len(silent) + len(false_alarm), "false_alarms": false_alarm,
                           "not_applicable_to_this_tree": other,
                           "documented_limitations": [x["label"] for x in res["results"] if x["status"] == "KNOWN-LIMITATION"],
                           "flagged_examples": [{"patch": x["patch"], "by": [v for vv in x["flagged"].values() for v in vv["violations"]][:1]} for x in flagged[:5]]}
        for m in missed:
            print("SELFTEST-MISSED %s" % m)
        for m in false_alarm:
            print("SELFTEST-FALSE-ALARM %s" % m)
    except Exception as e:
        out["selftest"] = {"error": str(e), "stdout": r.stdout[-500:]}
    if prop in WITNESS_PROPS:
        wdir = os.path.join(HERE, "witness")
        tdir = tempfile.mkdtemp(prefix="hsv-witness-target-")
        try:
            import shutil
            shutil.copy(os.path.join(repo, "Cargo.lock"), os.path.join(wdir, "Cargo.lock"))
            env2 = dict(os.environ, CARGO_NET_OFFLINE="true", CARGO_TARGET_DIR=tdir)
            r = subprocess.run(["cargo", "+nightly", "test", "--doc", "--offline"], cwd=wdir, capture_output=True, text=True, env=env2)
            lines = [l for l in r.stdout.splitlines() if l.startswith("test ")]
            okk = r.returncode == 0
            out["witnesses"] = {"ok": okk, "tests": lines}
            if not okk:
                print("WITNESS-FAILED %s" % [l for l in lines if not l.endswith("ok")])
                out["witnesses"]["stderr"] = r.stderr[-800:]
        finally:
            import shutil
            shutil.rmtree(tdir, ignore_errors=True)
    return out


def main(argv=None):
    ap = argparse.ArgumentParser()
    ap.add_argument("prop")
    ap.add_argument("--tier", default=os.environ.get("VERIF_TIER", "quick"))
    ap.add_argument("--repo", default=os.environ.get("HSV_REPO", "/repo"))
    ap.add_argument("--facts", default=None, help="use an existing fact file (development only)")
    ap.add_argument("--evidence-dir", default=os.path.join(HERE, "evidence"))
    ap.add_argument("--quiet", action="store_true")
    a = ap.parse_args(argv)
    prop = a.prop
    tier = a.tier if a.tier in ("quick", "thorough") else "quick"
    seed = int(os.environ.get("VERIF_SEED", "0") or 0)
    t0 = time.time()
    os.makedirs(a.evidence_dir, exist_ok=True)
    ev_path = os.path.join(a.evidence_dir, "%s.json" % prop)
    viol_dir = os.path.join(a.evidence_dir, "violations")
    os.makedirs(viol_dir, exist_ok=True)

    records = []
    ctxs = []
    fatal = None
    try:
        mod = importlib.import_module("hsv.rules.%s" % prop)
        configs = list(getattr(mod, "CONFIGS_QUICK", ["dir"]))
        if tier == "thorough":
            configs = list(getattr(mod, "CONFIGS_THOROUGH", ["dir", "default"]))
        for cfg in configs:
            if a.facts:
                with open(a.facts) as f:
                    fx = F.Facts(json.load(f), cfg)
            else:
                tmp = tempfile.mkdtemp(prefix="hsv-facts-")
                try:
                    fx = F.build_facts(a.repo, cfg, os.path.join(tmp, "facts.json"))
                finally:
                    try:
                        os.remove(os.path.join(tmp, "facts.json"))
                    except OSError:
                        pass
                    try:
                        os.rmdir(tmp)
                    except OSError:
                        pass
            cov = fx.coverage()
            floor_b = {"dir": 120, "default": 100}[cfg]
            if cov["bodies"] < floor_b:
                raise FailClosed("extraction floor: only %d bodies in config %s (floor %d)" % (cov["bodies"], cfg, floor_b))
            ctx = Ctx(prop, tier, {cfg: fx}, a.repo)
            ctx.cfg = cfg
            ctx.cov = cov
            ctxs.append(ctx)
            try:
                mod.run(ctx)
            except FailClosed as e:
                ctx.violation("%s.failclosed" % prop, "%s.failclosed" % prop, "fail closed: %s" % e)
            if tier == "thorough" and hasattr(mod, "run_thorough") and cfg == configs[0]:
                try:
                    mod.run_thorough(ctx)
                except FailClosed as e:
                    ctx.violation("%s.failclosed" % prop, "%s.failclosed.thorough" % prop, "fail closed: %s" % e)
    except FailClosed as e:
        fatal = "fail closed: %s" % e
    except Exception as e:
        fatal = "checker error: %s: %s" % (type(e).__name__, e)
        traceback.print_exc()

    extras = {}
    if tier == "thorough" and not fatal:
        try:
            extras = thorough_extras(prop, a.repo)
        except Exception as e:  # the extras never decide the property; report and go on
            extras = {"error": "%s: %s" % (type(e).__name__, e)}
    known = load_known()
    kf = {(k["property"], k["key"]): k for k in known.get("findings", [])}
    nviol = 0
    nknown = 0
    lines = []
    seen_keys = set()
    all_records = []
    for ctx in ctxs:
        for r in ctx.records:
            r = dict(r)
            r["config"] = ctx.cfg
            all_records.append(r)
    vio_records = []
    for r in all_records:
        if r["ok"]:
            continue
        k = (prop, r["key"])
        if k in seen_keys:
            continue
        seen_keys.add(k)
        if k in kf:
            nknown += 1
            lines.append("KNOWN-FINDING: property=%s %s [%s]" % (prop, kf[k]["what"], r["key"]))
        else:
            nviol += 1
            vio_records.append(r)
    if fatal:
        nviol += 1
        vio_records.append({"rule": "%s.fatal" % prop, "key": "%s.fatal" % prop, "what": fatal, "where": None,
                            "detail": None, "instance": "fatal", "config": "-"})

    for r in vio_records:
        h = hashlib.sha1(r["key"].encode()).hexdigest()[:10]
        vp = os.path.join(viol_dir, "%s-%s.json" % (prop, h))
        with open(vp, "w") as f:
            json.dump(jsonable(r), f, indent=1)
        lines.append("VIOLATION-DETAIL rule=%s key=%s where=%s :: %s" % (r["rule"], r["key"], r.get("where"), r["what"]))
        lines.append("VIOLATION property=%s replay=%s" % (prop, vp))

    # ---- evidence
    nontriv = set()
    for r in all_records:
        if r["nontrivial"]:
            nontriv.add((r["rule"], r["instance"]))
    obligations = len(all_records)
    discharged = sum(1 for r in all_records if r["ok"])
    samples = []
    for ctx in ctxs:
        samples.extend(ctx.samples)
    if not samples:
        for r in all_records[:6]:
            samples.append({"rule": r["rule"], "instance": r["instance"], "ok": r["ok"], "detail": r.get("detail")})
    rules_seen = sorted(set(r["rule"] for r in all_records))
    cov0 = ctxs[0] if ctxs else None
    analysed = {}
    assumptions = []
    floors = []
    for ctx in ctxs:
        an = dict(ctx.analysed)
        an["functions"] = sorted(an["functions"])
        an["n_functions"] = len(an["functions"])
        an.update({"facts": ctx.cov})
        analysed[ctx.cfg] = an
        for s in ctx.assumptions:
            if s not in assumptions:
                assumptions.append(s)
        floors.extend(dict(fl, config=ctx.cfg) for fl in ctx.floors)
        for m in sorted(ctx.models_used):
            s = "model: %s — %s" % (m, M.MODEL_REASONS.get(m, "rule-local model"))
            if s not in assumptions:
                assumptions.append(s)
        oc = sorted(x for x in ctx.opaque_callees if x)
        if oc:
            s = "uninterpreted callees assumed total (their results are fresh symbols): " + ", ".join(oc[:80])
            if s not in assumptions:
                assumptions.append(s)
    mod_doc = ""
    try:
        mod_doc = (mod.__doc__ or "").strip()
    except Exception:
        pass
    evidence = {
        "property_id": prop,
        "tier": tier,
        "seed": seed,
        "level": "other",
        "coverage": {
            "explanation": (mod_doc or "static analysis over MIR facts") +
            "  [Deciding step: rules over the rustc MIR of /repo's working tree (hsfacts driver); nothing is executed.]",
            "evaluations": max(obligations, 0),
            "distinct_nontrivial": len(nontriv),
            "rule": "one evaluation = one rule instance (rule x site/path/row) decided on the current MIR; "
                    "non-trivial = the instance matched at least one site and its obligation needed a guard, term or table row to decide",
            "obligations": obligations,
            "discharged": discharged,
            "known_findings": nknown,
            "rules": rules_seen,
            "samples": jsonable(samples) or ["(none)"],
            "analysed": jsonable(analysed),
            "floors": floors,
            "info": [l for ctx in ctxs for l in ctx.info_lines][:50],
            "exhaustive": False,
            "thorough_extras": extras,
        },
        "assumptions": assumptions or ["rustc nightly MIR at -Zmir-opt-level=0 is the semantics of the source"],
        "wall_s": round(time.time() - t0, 2),
        "violations": nviol,
    }
    with open(ev_path, "w") as f:
        json.dump(evidence, f, indent=1)

    if not a.quiet:
        for r in all_records:
            tag = "OK" if r["ok"] else "FAIL"
            print("%-4s %-12s %s%s" % (tag, r["rule"], r["instance"], ("  @ %s" % r["where"]) if r.get("where") else ""))
        for ctx in ctxs:
            for l in ctx.info_lines:
                print("INFO", l)
    for l in lines:
        print(l)
    print("%s tier=%s obligations=%d discharged=%d violations=%d known=%d wall=%.1fs" % (
        prop, tier, obligations, discharged, nviol, nknown, time.time() - t0))
    return 1 if nviol else 0


if __name__ == "__main__":
    sys.exit(main())
