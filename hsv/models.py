"""Abstract models of std / dependency callees, keyed by resolved def-path.

Each model maps the abstract arguments to one or more outcomes (forking where the
callee's result depends on a case split: Some/None, overflow/no overflow, a<=b).
A callee without a model stays an uninterpreted `call` term (px.py), its `&mut`
arguments havocked, and is *assumed total* (listed in the evidence).
Every entry carries a one-line reason (MODEL_REASONS) that is printed in evidence.
"""
from .px import (const, is_const, is_agg, agg, agg_get, mk_binop, add_terms, sub_terms, TY, TRUE, FALSE, UNIT)

MODELS = {}
MODEL_REASONS = {}


def model(*names, reason=""):
    def deco(f):
        for n in names:
            MODELS[n] = f
            MODEL_REASONS[n] = reason or f.__doc__ or ""
        return f
    return deco


def val(v, **kw):
    d = {"value": v}
    d.update(kw)
    return d


def deref_val(px, st, t, snap=None, depth=3):
    """value denoted by a (possibly nested) reference term"""
    for _ in range(depth):
        if isinstance(t, tuple) and t and t[0] == "ref":
            t = px._read(st, t[1], t[2])
        elif isinstance(t, tuple) and t and t[0] == "refconst":
            t = t[1]
        else:
            break
    return t


def seq_of(px, st, t):
    """canonical term of the sequence (Vec/slice/str) a reference denotes"""
    v = deref_val(px, st, t)
    if isinstance(v, tuple) and v and v[0] == "slice_of":
        return v[1]
    return v


def len_term(seq):
    if isinstance(seq, tuple):
        if seq[0] in ("str", "bytes"):
            return const(len(seq[1]))
        if seq[0] == "slice":
            base, s, e = seq[1], seq[2], seq[3]
            end = e if e is not None else len_term(base)
            return sub_terms(end, s)
        if seq[0] == "agg" and seq[1] == "array":
            return const(len(seq[4]))
        if seq[0] == "default":
            return const(0)
        if seq[0] == "newbuf":
            return const(0)
        if seq[0] == "reserved":
            return len_term(seq[1])
        if seq[0] == "setlen":
            return seq[2]
        if seq[0] == "appended":
            piece = seq[2]
            if piece[0] == "slice":
                return add_terms(len_term(seq[1]), len_term(piece[1]))
    t = ("len", seq)
    TY.setdefault(t, (64, False))
    return t


# ------------------------------------------------------------------ transparent accessors

@model("std::ops::Deref::deref", "std::ops::DerefMut::deref_mut", "std::convert::AsRef::as_ref",
       "std::convert::AsMut::as_mut", "std::borrow::Borrow::borrow",
       reason="smart-pointer deref is the identity on the pointee; Vec/SmallVec/String deref to their element sequence")
def m_deref(px, st, fr, ev):
    c = ev["callee"]
    a = ev["args"][0]
    v = deref_val(px, st, a, depth=1)
    res = c.get("res_full") or c.get("full") or ""
    mut = "deref_mut" in c["path"] or "as_mut" in c["path"]
    if "Vec<" in res.split(" as ")[0] or "SmallVec<" in res.split(" as ")[0] or "String" in res.split(" as ")[0] \
            or "BytesMut" in res.split(" as ")[0] or "Bytes" in res.split(" as ")[0]:
        return val(("slice_of", v))
    if isinstance(v, tuple) and v and v[0] == "ref":
        # Deref on &T / Pin<&mut T>: the inner reference itself
        return val(v)
    return val(("ref", ("H", ("pointee", v)), (), mut))


@model("std::pin::Pin::<Ptr>::new_unchecked", "std::pin::Pin::<Ptr>::new", "std::pin::Pin::<Ptr>::into_inner",
       "std::pin::Pin::<&'a mut T>::get_unchecked_mut", "std::pin::Pin::<&'a mut T>::get_mut",
       "std::pin::Pin::<&'a T>::get_ref", "std::pin::Pin::<Ptr>::into_inner_unchecked",
       "std::hint::must_use", "std::convert::identity",
       "sync_wrapper::SyncWrapper::<T>::new", "std::future::IntoFuture::into_future",
       reason="Pin/SyncWrapper wrappers are transparent for value flow")
def m_ident(px, st, fr, ev):
    return val(ev["args"][0])


@model("std::pin::Pin::<Ptr>::as_mut", "std::pin::Pin::<Ptr>::as_ref",
       reason="Pin::as_mut reborrows the pinned pointer")
def m_pin_as_mut(px, st, fr, ev):
    a = ev["args"][0]
    v = deref_val(px, st, a, depth=1)
    return val(v)


@model("sync_wrapper::SyncWrapper::<T>::get_mut", reason="SyncWrapper::get_mut borrows the wrapped value")
def m_sw_get_mut(px, st, fr, ev):
    a = ev["args"][0]
    if a[0] == "ref":
        return val(a)
    return val(("ref", ("H", a), (), True))


@model("std::boxed::Box::<T>::new", "std::sync::Arc::<T>::new", "std::boxed::Box::<T>::pin", "std::sync::Mutex::<T>::new",
       reason="allocation: a fresh pointer whose pointee is the argument")
def m_box_new(px, st, fr, ev):
    name = ev["callee"]["path"].split("::")[-2] if "::" in ev["callee"]["path"] else "box"
    p = ("alloc", ev["callee"]["path"], ev["uid"])

    def do(s):
        s.env[("H", ("pointee", p))] = ev["args"][0]
    return val(p, do=do)


@model("std::clone::Clone::clone", reason="clone is value-preserving (same abstract value; Arc clone aliases the pointee)")
def m_clone(px, st, fr, ev):
    v = deref_val(px, st, ev["args"][0], depth=1)
    return val(v)


@model("std::mem::drop", reason="drop consumes its argument")
def m_drop(px, st, fr, ev):
    return val(UNIT)


def default_of(ty):
    s = ty.get("s", "")
    if ty.get("k") == "int":
        return const(0)
    if ty.get("k") == "bool":
        return const(0)
    return ("default", s)


def local_default(px, ty):
    """value of a crate-local `impl Default for T` whose body is straight-line (evaluated from its MIR), else None"""
    adt = ty.get("adt") or (ty.get("s", "").split("<")[0])
    cache = px.facts.__dict__.setdefault("_local_defaults", {})
    if adt in cache:
        return cache[adt]
    v = None
    for f in px.facts.fns.values():
        if f.get("impl_trait") == "std::default::Default" and (f.get("impl_self") or "").split("<")[0] == adt and f["path"] in px.facts.bodies:
            from .px import PX as _PX
            sub = _PX(px.facts, models=px.models, inline=lambda c, d: True)
            try:
                outs = [o for o in sub.run(f["path"]) if o.kind == "return"]
            except Exception:
                outs = []
            if len(outs) == 1:
                v = outs[0].value
    cache[adt] = v
    return v


@model("std::mem::take", reason="mem::take returns the old value and leaves Default::default()")
def m_take(px, st, fr, ev):
    a = ev["args"][0]
    if a[0] != "ref":
        return None
    old = px._read(st, a[1], a[2])
    dflt = local_default(px, ev["dest"]["ty"])
    if dflt is None:
        dflt = default_of(ev["dest"]["ty"])

    def do(s):
        px._write(s, a[1], a[2], dflt)
        px.emit(s, {"k": "write", "fn": fr.info.name, "bb": fr.bb, "root": a[1], "path": a[2], "value": dflt, "via": "mem::take"})
    return val(old, do=do)


@model("std::mem::replace", reason="mem::replace returns the old value and stores the new one")
def m_replace(px, st, fr, ev):
    a = ev["args"][0]
    if a[0] != "ref":
        return None
    old = px._read(st, a[1], a[2])
    new = ev["args"][1]

    def do(s):
        px._write(s, a[1], a[2], new)
        px.emit(s, {"k": "write", "fn": fr.info.name, "bb": fr.bb, "root": a[1], "path": a[2], "value": new, "via": "mem::replace"})
    return val(old, do=do)


# ------------------------------------------------------------------ Option / Result

def some(v):
    return agg("adt", "std::option::Option", "Some", (("0", v),))


NONE = agg("adt", "std::option::Option", "None", ())


def ok(v):
    return agg("adt", "std::result::Result", "Ok", (("0", v),))


def err(v):
    return agg("adt", "std::result::Result", "Err", (("0", v),))


def payload(t, variant, field="0"):
    if is_agg(t) and t[3] == variant:
        r = agg_get(t, field)
        if r is not None:
            return r
    return ("payload", t, variant, field)


def split2(t, va, vb):
    """two outcomes constraining t's variant"""
    return [
        {"label": va, "assume": (lambda c: c.set_variant(t, va))},
        {"label": vb, "assume": (lambda c: c.set_variant(t, vb))},
    ]


@model("std::option::Option::<T>::unwrap", "std::option::Option::<T>::expect",
       reason="unwrap: continuing paths have Some; the None edge is a census (panic) site")
def m_opt_unwrap(px, st, fr, ev):
    t = ev["args"][0]
    ev["panic_if"] = ("variant", t, "None")
    return val(payload(t, "Some"), assume=lambda c: c.set_variant(t, "Some"))


@model("std::result::Result::<T, E>::unwrap", "std::result::Result::<T, E>::expect",
       reason="unwrap: continuing paths have Ok; the Err edge is a census (panic) site")
def m_res_unwrap(px, st, fr, ev):
    t = ev["args"][0]
    ev["panic_if"] = ("variant", t, "Err")
    return val(payload(t, "Ok"), assume=lambda c: c.set_variant(t, "Ok"))


@model("std::option::Option::<T>::is_some", reason="discriminant test")
def m_is_some(px, st, fr, ev):
    t = deref_val(px, st, ev["args"][0], depth=1)
    a, b = split2(t, "Some", "None")
    a["value"], b["value"] = TRUE, FALSE
    return [a, b]


@model("std::option::Option::<T>::is_none", reason="discriminant test")
def m_is_none(px, st, fr, ev):
    t = deref_val(px, st, ev["args"][0], depth=1)
    a, b = split2(t, "Some", "None")
    a["value"], b["value"] = FALSE, TRUE
    return [a, b]


@model("std::result::Result::<T, E>::is_err", reason="discriminant test")
def m_is_err(px, st, fr, ev):
    t = deref_val(px, st, ev["args"][0], depth=1)
    a, b = split2(t, "Ok", "Err")
    a["value"], b["value"] = FALSE, TRUE
    return [a, b]


@model("std::result::Result::<T, E>::is_ok", reason="discriminant test")
def m_is_ok(px, st, fr, ev):
    t = deref_val(px, st, ev["args"][0], depth=1)
    a, b = split2(t, "Ok", "Err")
    a["value"], b["value"] = TRUE, FALSE
    return [a, b]


@model("std::option::Option::<T>::unwrap_or", reason="Some(x) -> x, None -> default")
def m_unwrap_or(px, st, fr, ev):
    t, d = ev["args"][0], ev["args"][1]
    a, b = split2(t, "Some", "None")
    a["value"], b["value"] = payload(t, "Some"), d
    return [a, b]


@model("std::option::Option::<T>::or", reason="Some(x) -> Some(x), None -> other")
def m_or(px, st, fr, ev):
    t, d = ev["args"][0], ev["args"][1]
    a, b = split2(t, "Some", "None")
    a["value"], b["value"] = some(payload(t, "Some")), d
    return [a, b]


@model("std::option::Option::<T>::ok_or", reason="Some(x) -> Ok(x), None -> Err(e)")
def m_ok_or(px, st, fr, ev):
    t, e = ev["args"][0], ev["args"][1]
    a, b = split2(t, "Some", "None")
    a["value"], b["value"] = ok(payload(t, "Some")), err(e)
    return [a, b]


@model("std::result::Result::<T, E>::ok", reason="Ok(x) -> Some(x), Err -> None")
def m_res_ok(px, st, fr, ev):
    t = ev["args"][0]
    a, b = split2(t, "Ok", "Err")
    a["value"], b["value"] = some(payload(t, "Ok")), NONE
    return [a, b]


@model("std::option::Option::<T>::take", reason="Option::take returns the old value and leaves None")
def m_opt_take(px, st, fr, ev):
    a = ev["args"][0]
    if a[0] != "ref":
        return None
    old = px._read(st, a[1], a[2])

    def do(s):
        px._write(s, a[1], a[2], NONE)
        px.emit(s, {"k": "write", "fn": fr.info.name, "bb": fr.bb, "root": a[1], "path": a[2], "value": NONE, "via": "Option::take"})
    return val(old, do=do)


@model("std::option::Option::<T>::insert", reason="Option::insert(v): stores Some(v) and returns a reference to the payload")
def m_opt_insert(px, st, fr, ev):
    a = ev["args"][0]
    if a[0] != "ref":
        return None
    new = some(ev["args"][1])

    def do(s):
        px._write(s, a[1], a[2], new)
        px.emit(s, {"k": "write", "fn": fr.info.name, "bb": fr.bb, "root": a[1], "path": a[2], "value": new, "via": "Option::insert"})
    return val(("ref", a[1], a[2] + (("as", "Some"), ("f", "0")), True), do=do)


@model("std::option::Option::<T>::as_mut", "std::option::Option::<T>::as_ref",
       reason="as_mut/as_ref: Some(&mut x) / None following the referent's variant")
def m_opt_as_mut(px, st, fr, ev):
    a = ev["args"][0]
    if a[0] != "ref":
        return None
    cur = px._read(st, a[1], a[2])
    inner = ("ref", a[1], a[2] + (("as", "Some"), ("f", "0")), ev["callee"]["path"].endswith("as_mut"))     # as_ref lends a shared reference
    x, y = split2(cur, "Some", "None")
    x["value"], y["value"] = some(inner), NONE
    return [x, y]


@model("std::char::methods::<impl char>::len_utf8", "core::char::methods::<impl char>::len_utf8",
       reason="len_utf8 of a constant char: 1 below 0x80, 2 below 0x800, 3 below 0x10000, else 4")
def m_len_utf8(px, st, fr, ev):
    c = deref_val(px, st, ev["args"][0], depth=1)
    if is_const(c) and isinstance(c[1], int):
        return val(const(1 if c[1] < 0x80 else 2 if c[1] < 0x800 else 3 if c[1] < 0x10000 else 4))
    return None


@model("std::char::methods::<impl char>::to_digit", "core::char::methods::<impl char>::to_digit",
       reason="to_digit(10): Some(c - '0') iff c is an ASCII digit, else None")
def m_to_digit(px, st, fr, ev):
    c = deref_val(px, st, ev["args"][0], depth=1)
    radix = ev["args"][1]
    if not (is_const(radix) and radix[1] == 10):
        return None
    if is_const(c) and isinstance(c[1], int):
        return val(some(const(c[1] - 48)) if 48 <= c[1] <= 57 else NONE)
    isd = ("call", "core::num::<impl u8>::is_ascii_digit", (("&", c),), None)
    px.mark_bool(isd)
    d = sub_terms(c, const(48))
    TY.setdefault(d, (32, False))
    return [
        {"label": "digit", "value": some(d), "assume": (lambda k: k.set_known(isd, 1))},
        {"label": "not-a-digit", "value": NONE, "assume": (lambda k: k.set_known(isd, 0))},
    ]


@model("std::char::convert::<impl std::convert::From<u8> for char>::from", "core::char::convert::<impl std::convert::From<u8> for char>::from",
       reason="char::from(u8): the same scalar value")
def m_char_from_u8(px, st, fr, ev):
    return val(ev["args"][0])


@model(*["<%s as std::default::Default>::default" % t for t in ("usize", "u64", "u32", "u16", "u8", "isize", "i64", "i32", "bool")],
       reason="Default::default() of a primitive integer is 0, of bool is false")
def m_prim_default(px, st, fr, ev):
    return val(const(0))


@model("<std::option::Option<T> as std::default::Default>::default", reason="Option::default() is None")
def m_option_default(px, st, fr, ev):
    return val(NONE)


@model("std::result::Result::<T, E>::as_ref", "std::result::Result::<T, E>::as_mut",
       reason="as_ref/as_mut: Ok(&x) / Err(&e) following the referent's variant")
def m_res_as_ref(px, st, fr, ev):
    a = ev["args"][0]
    if a[0] != "ref":
        return None
    cur = px._read(st, a[1], a[2])
    mut = ev["callee"]["path"].endswith("as_mut")
    x, y = split2(cur, "Ok", "Err")
    x["value"] = ok(("ref", a[1], a[2] + (("as", "Ok"), ("f", "0")), mut))
    y["value"] = err(("ref", a[1], a[2] + (("as", "Err"), ("f", "0")), mut))
    return [x, y]


def closure_body(t):
    if is_agg(t) and t[1] in ("closure", "coroutine"):
        return t[2]
    if isinstance(t, tuple) and t and t[0] == "fn":
        return t[1]  # a fn item passed as a callable
    return None


def call_args(f, args):
    """argument list for expanding callable f: closures receive their environment first, fn items do not"""
    if isinstance(f, tuple) and f and f[0] == "fn":
        return list(args)
    return [f] + list(args)


def _wrap(f):
    return f


@model("std::option::Option::<T>::map", reason="None -> None; Some(x) -> Some(f(x)) with f's own MIR expanded")
def m_opt_map(px, st, fr, ev):
    t, f = ev["args"][0], ev["args"][1]
    return _two_way(px, t, "Some", "None", ("call", f, [payload(t, "Some")], some), ("value", NONE), ev=ev)


@model("std::option::Option::<T>::and_then", reason="None -> None; Some(x) -> f(x) with f's own MIR expanded")
def m_opt_and_then(px, st, fr, ev):
    t, f = ev["args"][0], ev["args"][1]
    return _two_way(px, t, "Some", "None", ("call", f, [payload(t, "Some")], None), ("value", NONE), ev=ev)


@model("std::result::Result::<T, E>::map_err", reason="Ok(x) -> Ok(x); Err(e) -> Err(f(e))")
def m_map_err(px, st, fr, ev):
    t, f = ev["args"][0], ev["args"][1]
    body = closure_body(f)
    a, b = split2(t, "Ok", "Err")
    a["value"] = ok(payload(t, "Ok"))
    if body is not None and body in px.facts.bodies:
        b.update({"inline": body, "args": call_args(f, [payload(t, "Err")]), "wrap": err})
    elif isinstance(f, tuple) and f and f[0] == "fn" and f[1] in ("std::mem::drop", "core::mem::drop"):
        b["value"] = err(UNIT)      # `.map_err(drop)`: the error is discarded
    else:
        b["value"] = err(("mapped_err", f, payload(t, "Err")))
    return [a, b]


@model("std::result::Result::<T, E>::map", reason="Ok(x) -> Ok(f(x)); Err(e) -> Err(e)")
def m_res_map(px, st, fr, ev):
    t, f = ev["args"][0], ev["args"][1]
    body = closure_body(f)
    a, b = split2(t, "Ok", "Err")
    if body is not None and body in px.facts.bodies:
        a.update({"inline": body, "args": call_args(f, [payload(t, "Ok")]), "wrap": ok})
    else:
        frag = _inl(px, f, [payload(t, "Ok")], ok, ev)      # a foreign fn item (`.map(Into::into)`): the call a direct call would be
        if frag is not None:
            a.update(frag)
        else:
            a["value"] = ok(("mapped", f, payload(t, "Ok")))
    b["value"] = err(payload(t, "Err"))
    return [a, b]


@model("core::bool::<impl bool>::then", reason="true -> Some(f()); false -> None")
def m_bool_then(px, st, fr, ev):
    t, f = ev["args"][0], ev["args"][1]
    body = closure_body(f)
    if is_const(t):
        if t[1]:
            if body is not None and body in px.facts.bodies:
                return [{"inline": body, "args": call_args(f, []), "wrap": some, "label": "true"}]
            return val(some(("call_closure", f)))
        return val(NONE)
    a = {"label": "true", "assume": (lambda c: c.set_known(t, 1))}
    b = {"label": "false", "assume": (lambda c: c.set_known(t, 0)), "value": NONE}
    if body is not None and body in px.facts.bodies:
        a.update({"inline": body, "args": call_args(f, []), "wrap": some})
    else:
        a["value"] = some(("call_closure", f))
    return [a, b]


def _inl(px, f, args, wrap=None, ev=None):
    """outcome fragment applying callable f to args: its MIR body is expanded when it is crate-local; a foreign fn item
    becomes the same uninterpreted call term a direct call would produce (None when f is not a known callable)"""
    body = closure_body(f)
    kept_unit = isinstance(f, tuple) and f and f[0] == "fn" and body in px.facts.bodies and ev is not None and \
        not px.inline({"res_path": f[1], "path": f[1], "res_local": True}, 1)
    if body is not None and body in px.facts.bodies and not kept_unit:
        d = {"inline": body, "args": call_args(f, args)}
        if wrap is not None:
            d["wrap"] = wrap
        return d
    if isinstance(f, tuple) and f and f[0] == "fn" and ev is not None:
        # a foreign fn item - or a crate-local one the analysis keeps as a unit of its own (`.map(parse_qvalue)`)
        ctor = {"Ok": ok, "Err": err, "Some": some}.get(f[1].split("::")[-1]) if f[1] in CTOR_FNS else None
        r = ctor(args[0]) if ctor is not None and len(args) == 1 else ("call", f[1], tuple(args), ev["uid"])
        return {"value": wrap(r) if wrap is not None else r}
    return None


def _ident(v):
    return v


def _two_way(px, t, good, bad, on_good, on_bad, ev=None):
    """generic combinator: on_good / on_bad are ("value", term) or ("call", f, args, wrap)"""
    a, b = split2(t, good, bad)
    for o, spec in ((a, on_good), (b, on_bad)):
        if spec[0] == "value":
            o["value"] = spec[1]
        else:
            frag = _inl(px, spec[1], spec[2], spec[3], ev)
            if frag is None:
                return None
            o.update(frag)
    return [a, b]


@model("std::option::Option::<T>::zip", reason="zip: Some((a, b)) iff both are Some")
def m_opt_zip(px, st, fr, ev):
    x, y = ev["args"]
    tup = agg("tuple", None, None, (("0", payload(x, "Some")), ("1", payload(y, "Some"))))
    return [
        {"label": "Some,Some", "value": some(tup), "assume": (lambda c: c.set_variant(x, "Some") and c.set_variant(y, "Some"))},
        {"label": "Some,None", "value": NONE, "assume": (lambda c: c.set_variant(x, "Some") and c.set_variant(y, "None"))},
        {"label": "None", "value": NONE, "assume": (lambda c: c.set_variant(x, "None"))},
    ]


@model("std::option::Option::<T>::map_or", reason="None -> default; Some(x) -> f(x)")
def m_opt_map_or(px, st, fr, ev):
    t, d, f = ev["args"]
    return _two_way(px, t, "Some", "None", ("call", f, [payload(t, "Some")], None), ("value", d), ev=ev)


@model("std::result::Result::<T, E>::map_or", reason="Err -> default; Ok(x) -> f(x)")
def m_res_map_or(px, st, fr, ev):
    t, d, f = ev["args"]
    return _two_way(px, t, "Ok", "Err", ("call", f, [payload(t, "Ok")], None), ("value", d), ev=ev)


@model("std::option::Option::<T>::map_or_else", reason="None -> d(); Some(x) -> f(x)")
def m_opt_map_or_else(px, st, fr, ev):
    t, d, f = ev["args"]
    return _two_way(px, t, "Some", "None", ("call", f, [payload(t, "Some")], None), ("call", d, [], None), ev=ev)


@model("std::result::Result::<T, E>::map_or_else", reason="Err(e) -> d(e); Ok(x) -> f(x)")
def m_res_map_or_else(px, st, fr, ev):
    t, d, f = ev["args"]
    return _two_way(px, t, "Ok", "Err", ("call", f, [payload(t, "Ok")], None), ("call", d, [payload(t, "Err")], None), ev=ev)


@model("std::option::Option::<T>::unwrap_or_else", reason="Some(x) -> x; None -> f()")
def m_opt_unwrap_or_else(px, st, fr, ev):
    t, f = ev["args"]
    return _two_way(px, t, "Some", "None", ("value", payload(t, "Some")), ("call", f, [], None), ev=ev)


@model("std::result::Result::<T, E>::unwrap_or_else", reason="Ok(x) -> x; Err(e) -> f(e)")
def m_res_unwrap_or_else(px, st, fr, ev):
    t, f = ev["args"]
    return _two_way(px, t, "Ok", "Err", ("value", payload(t, "Ok")), ("call", f, [payload(t, "Err")], None), ev=ev)


@model("std::result::Result::<T, E>::unwrap_or", reason="Ok(x) -> x; Err -> default")
def m_res_unwrap_or(px, st, fr, ev):
    t, d = ev["args"]
    return _two_way(px, t, "Ok", "Err", ("value", payload(t, "Ok")), ("value", d), ev=ev)


@model("std::option::Option::<T>::unwrap_or_default", reason="Some(x) -> x; None -> Default::default()")
def m_opt_unwrap_or_default(px, st, fr, ev):
    t = ev["args"][0]
    return _two_way(px, t, "Some", "None", ("value", payload(t, "Some")), ("value", default_of(ev["dest"]["ty"])), ev=ev)


@model("std::option::Option::<T>::is_some_and", reason="None -> false; Some(x) -> f(x)")
def m_opt_is_some_and(px, st, fr, ev):
    t, f = ev["args"]
    return _two_way(px, t, "Some", "None", ("call", f, [payload(t, "Some")], None), ("value", FALSE), ev=ev)


CTOR_FNS = {"std::prelude::v1::Ok", "std::result::Result::Ok", "core::result::Result::Ok",
            "std::prelude::v1::Err", "std::result::Result::Err", "core::result::Result::Err",
            "std::prelude::v1::Some", "std::option::Option::Some", "core::option::Option::Some"}


def _ctor_model(mk):
    def m(px, st, fr, ev):
        if len(ev["args"]) != 1:
            return None
        return val(mk(ev["args"][0]))
    return m


for _names, _mk in ((("std::prelude::v1::Ok", "std::result::Result::Ok", "core::result::Result::Ok"), lambda v: ok(v)),
                    (("std::prelude::v1::Err", "std::result::Result::Err", "core::result::Result::Err"), lambda v: err(v)),
                    (("std::prelude::v1::Some", "std::option::Option::Some", "core::option::Option::Some"), lambda v: some(v))):
    model(*_names, reason="a tuple-variant constructor used as a function (`.map(Ok)`): builds that variant")(_ctor_model(_mk))


@model("std::result::Result::<T, E>::inspect_err", reason="inspect_err(f): calls f(&e) on Err; returns the receiver unchanged")
def m_res_inspect_err(px, st, fr, ev):
    t, f = ev["args"]
    return _two_way(px, t, "Ok", "Err", ("value", t), ("call", f, [("refconst", payload(t, "Err"))], (lambda _r: t)), ev=ev)


@model("std::result::Result::<T, E>::inspect", reason="inspect(f): calls f(&x) on Ok; returns the receiver unchanged")
def m_res_inspect(px, st, fr, ev):
    t, f = ev["args"]
    return _two_way(px, t, "Ok", "Err", ("call", f, [("refconst", payload(t, "Ok"))], (lambda _r: t)), ("value", t), ev=ev)


@model("std::option::Option::<T>::inspect", reason="inspect(f): calls f(&x) on Some; returns the receiver unchanged")
def m_opt_inspect(px, st, fr, ev):
    t, f = ev["args"]
    return _two_way(px, t, "Some", "None", ("call", f, [("refconst", payload(t, "Some"))], (lambda _r: t)), ("value", t), ev=ev)


@model("std::option::Option::<T>::filter", reason="None -> None; Some(x) -> Some(x) if pred(&x) else None")
def m_opt_filter(px, st, fr, ev):
    t, f = ev["args"]
    x = payload(t, "Some")

    def keep(b):
        if is_const(b):
            return t if b[1] else NONE      # kept: the receiver itself (it is Some on this branch)
        return ("optif", b, x, t)
    # (a symbolic answer of the predicate makes a conditional option `optif`; PX splits the path on its condition where the
    # predicate returns, so what flows on is the kept value or None)
    return _two_way(px, t, "Some", "None", ("call", f, [("refconst", x)], keep), ("value", NONE), ev=ev)


@model("std::option::Option::<T>::is_none_or", reason="None -> true; Some(x) -> f(x)")
def m_opt_is_none_or(px, st, fr, ev):
    t, f = ev["args"]
    return _two_way(px, t, "Some", "None", ("call", f, [payload(t, "Some")], None), ("value", TRUE), ev=ev)


@model("std::result::Result::<T, E>::is_ok_and", reason="Err -> false; Ok(x) -> f(x)")
def m_res_is_ok_and(px, st, fr, ev):
    t, f = ev["args"]
    return _two_way(px, t, "Ok", "Err", ("call", f, [payload(t, "Ok")], None), ("value", FALSE), ev=ev)


@model("std::result::Result::<T, E>::is_err_and", reason="Ok -> false; Err(e) -> f(e)")
def m_res_is_err_and(px, st, fr, ev):
    t, f = ev["args"]
    return _two_way(px, t, "Ok", "Err", ("value", FALSE), ("call", f, [payload(t, "Err")], None), ev=ev)


@model("std::option::Option::<T>::ok_or_else", reason="Some(x) -> Ok(x); None -> Err(f())")
def m_opt_ok_or_else(px, st, fr, ev):
    t, f = ev["args"]
    return _two_way(px, t, "Some", "None", ("value", ok(payload(t, "Some"))), ("call", f, [], err), ev=ev)


@model("std::option::Option::<T>::or_else", reason="Some(x) -> Some(x); None -> f()")
def m_opt_or_else(px, st, fr, ev):
    t, f = ev["args"]
    return _two_way(px, t, "Some", "None", ("value", some(payload(t, "Some"))), ("call", f, [], None), ev=ev)


@model("std::result::Result::<T, E>::and_then", reason="Ok(x) -> f(x); Err(e) -> Err(e)")
def m_res_and_then(px, st, fr, ev):
    t, f = ev["args"]
    return _two_way(px, t, "Ok", "Err", ("call", f, [payload(t, "Ok")], None), ("value", err(payload(t, "Err"))), ev=ev)


@model("std::result::Result::<T, E>::or_else", reason="Ok(x) -> Ok(x); Err(e) -> f(e)")
def m_res_or_else(px, st, fr, ev):
    t, f = ev["args"]
    return _two_way(px, t, "Ok", "Err", ("value", ok(payload(t, "Ok"))), ("call", f, [payload(t, "Err")], None), ev=ev)


@model("std::result::Result::<T, E>::err", reason="Ok -> None; Err(e) -> Some(e)")
def m_res_err(px, st, fr, ev):
    t = ev["args"][0]
    return _two_way(px, t, "Ok", "Err", ("value", NONE), ("value", some(payload(t, "Err"))), ev=ev)


@model("std::option::Option::<T>::and", reason="None -> None; Some -> other")
def m_opt_and(px, st, fr, ev):
    t, o = ev["args"]
    return _two_way(px, t, "Some", "None", ("value", o), ("value", NONE), ev=ev)


@model("std::option::Option::<&T>::copied", "std::option::Option::<&T>::cloned", "std::option::Option::<&mut T>::copied",
       "std::option::Option::<&mut T>::cloned", reason="Some(&x) -> Some(x); None -> None")
def m_opt_copied(px, st, fr, ev):
    t = ev["args"][0]
    inner = deref_val(px, st, payload(t, "Some"), depth=1)
    return _two_way(px, t, "Some", "None", ("value", some(inner)), ("value", NONE), ev=ev)


@model("core::bool::<impl bool>::then_some", reason="true -> Some(v); false -> None")
def m_bool_then_some(px, st, fr, ev):
    t, v = ev["args"]
    if is_const(t):
        return val(some(v) if t[1] else NONE)
    return [
        {"label": "true", "value": some(v), "assume": (lambda c: c.set_known(t, 1))},
        {"label": "false", "value": NONE, "assume": (lambda c: c.set_known(t, 0))},
    ]


@model("std::ops::FnOnce::call_once", "std::ops::FnMut::call_mut", "std::ops::Fn::call",
       reason="calling a closure / fn item value: its own MIR is expanded on the given arguments")
def m_call_closure(px, st, fr, ev):
    f = deref_val(px, st, ev["args"][0], depth=2)
    tup = ev["args"][1] if len(ev["args"]) > 1 else None
    if is_agg(tup) and tup[1] == "tuple":
        args = [v for _, v in tup[4]]
    elif tup is None or tup == UNIT:
        args = []
    else:
        return None
    if isinstance(f, tuple) and f and f[0] == "fn" and f[1] in px.facts.bodies and \
            not px.inline({"res_path": f[1], "path": f[1], "res_local": True}, len(st.frames)):
        # a crate-local fn item that the analysis keeps as a unit of its own (e.g. a comparator handed to a generic helper as
        # `impl Fn`): the same uninterpreted call a direct call of it would be - event and result term alike
        cargs, snap = [], []
        for a in args:
            if isinstance(a, tuple) and a and a[0] == "ref":
                sn = px._read(st, a[1], a[2])
                snap.append(sn)
                cargs.append(("&", sn))
            elif isinstance(a, tuple) and a and a[0] == "refconst":
                snap.append(a[1])
                cargs.append(("&", a[1]))
            else:
                snap.append(None)
                cargs.append(a)
        ev["callee"] = dict(ev["callee"], res_path=f[1], path=f[1], res_local=True, res_full=f[2] or f[1], full=f[2] or f[1], via="Fn::call")
        ev["names"] = set(ev["names"]) | {f[1]}
        ev["args"] = list(args)
        ev["snap"] = snap
        ev["argops"] = [{} for _ in args]
        r = ("call", f[1], tuple(cargs), ev["uid"])
        if ev["dest"]["ty"].get("k") == "bool":
            px.mark_bool(r)
        return val(r)
    frag = _inl(px, f, args, None, ev)
    if frag is None:
        return None
    return [frag]


def _havoc_captures(px, s, f, fn, header, sig):
    """a summarised iteration may run its closure any number of times: every place the closure captured by `&mut` is
    loop-carried - havocked at the (virtual) loop head, entry value recorded, exactly like the places a real loop writes"""
    if not (is_agg(f) and f[1] == "closure"):
        return
    lev = s.extra.setdefault("loop_entry_values", {})
    for _name, v in f[4]:
        if isinstance(v, tuple) and v and v[0] == "ref" and len(v) > 3 and v[3]:
            root, path = v[1], v[2]
            old = px._read(s, root, path)
            key = px._place_key(root, path)
            nv = ("loopvar", fn, header, key, 0) + ((sig,) if sig else ())
            lev[(fn, header, key)] = old
            if sig:
                lev[(fn, header, key, sig)] = old
            px._write(s, root, path, nv)


@model("std::iter::Iterator::fold", reason="fold(init, f): summarised like a loop - the accumulator after any number of items is a "
       "fresh loop variable; one application of f to it (and a fresh item) is analysed as the loop body")
def m_fold(px, st, fr, ev):
    if len(ev["args"]) != 3:
        return None
    it, init, f = ev["args"]
    body = closure_body(f)
    if body is None or body not in px.facts.bodies:
        return None
    info = fr.info
    header = ("fold", fr.bb)
    sig = px.chain_sig(st)
    key = ("F", 0, ())
    acc = ("loopvar", info.name, header, key, 0) + ((sig,) if sig else ())
    ty = ev["dest"]["ty"]
    if ty.get("k") == "bool":
        px.mark_bool(acc)
    if ty.get("k") == "int":
        TY[acc] = (ty["bits"], ty["signed"])
    item = ("fold_item", info.name, fr.bb, sig)

    def do(s):
        lev = s.extra.setdefault("loop_entry_values", {})
        lev[(info.name, header, key)] = init
        if sig:
            lev[(info.name, header, key, sig)] = init
        # the iterator is consumed by the fold
        if isinstance(it, tuple) and it and it[0] == "ref" and it[3]:
            px._write(s, it[1], it[2], ("havoc", ("call", "std::iter::Iterator::fold", (("&", px._read(s, it[1], it[2])),), ev["uid"]), 0))
        _havoc_captures(px, s, f, info.name, header, sig)
        px.emit(s, {"k": "loop_enter", "fn": info.name, "bb": header, "sig": sig})
    return [
        {"label": "fold-exit", "value": acc, "do": do},
        {"label": "fold-step", "inline": body, "args": call_args(f, [acc, item]), "end_as": (info.name, header), "do": do},
    ]


def m_try_fold(px, st, fr, ev):
    """Iterator::try_fold(init, f): summarised like fold; a step whose result is the residual (None / Err / Break) ends the
    whole try_fold with that residual, a step with a continue value is one turn.  NOT installed by default (it multiplies the
    paths of the caller): rules that read a try_fold's transition pass it as an extra model."""
    if len(ev["args"]) != 3:
        return None
    it, init, f = ev["args"]
    body = closure_body(f)
    if body is None or body not in px.facts.bodies:
        return None
    rty = ev["dest"]["ty"].get("s", "")
    if rty.startswith("std::option::Option<"):
        good, bad, mk = "Some", "None", some
    elif rty.startswith("std::result::Result<"):
        good, bad, mk = "Ok", "Err", ok
    elif rty.startswith("std::ops::ControlFlow<"):
        good, bad, mk = "Continue", "Break", (lambda v: agg("adt", "std::ops::ControlFlow", "Continue", (("0", v),)))
    else:
        return None
    info = fr.info
    header = ("fold", fr.bb)
    sig = px.chain_sig(st)
    key = ("F", 0, ())
    acc = ("loopvar", info.name, header, key, 0) + ((sig,) if sig else ())
    TY.setdefault(acc, (64, False))
    item = ("fold_item", info.name, fr.bb, sig)
    itv = px._read(st, it[1], it[2]) if isinstance(it, tuple) and it and it[0] == "ref" else it

    def do(s):
        lev = s.extra.setdefault("loop_entry_values", {})
        lev[(info.name, header, key)] = init
        lev[(info.name, header, ("I", 0, ()))] = itv
        if sig:
            lev[(info.name, header, key, sig)] = init
        if isinstance(it, tuple) and it and it[0] == "ref" and it[3]:
            px._write(s, it[1], it[2], ("havoc", ("call", "std::iter::Iterator::try_fold", (("&", itv),), ev["uid"]), 0))
        _havoc_captures(px, s, f, info.name, header, sig)
        px.emit(s, {"k": "loop_enter", "fn": info.name, "bb": header, "sig": sig})
    return [
        {"label": "fold-exit", "value": mk(acc), "do": do},
        {"label": "fold-step", "inline": body, "args": call_args(f, [acc, item]), "end_as": (info.name, header),
         "end_try": (good, bad), "do": do},
    ]


def m_try_for_each(px, st, fr, ev):
    """Iterator::try_for_each(f): try_fold without an accumulator - the state the turns share is what the closure captured by
    `&mut` (havocked at the virtual loop head)"""
    if len(ev["args"]) != 2:
        return None
    it, f = ev["args"]
    body = closure_body(f)
    if body is None or body not in px.facts.bodies:
        return None
    rty = ev["dest"]["ty"].get("s", "")
    if rty.startswith("std::option::Option<"):
        good, bad, mk = "Some", "None", some
    elif rty.startswith("std::result::Result<"):
        good, bad, mk = "Ok", "Err", ok
    elif rty.startswith("std::ops::ControlFlow<"):
        good, bad, mk = "Continue", "Break", (lambda v: agg("adt", "std::ops::ControlFlow", "Continue", (("0", v),)))
    else:
        return None
    info = fr.info
    header = ("fold", fr.bb)
    sig = px.chain_sig(st)
    item = ("fold_item", info.name, fr.bb, sig)
    itv = px._read(st, it[1], it[2]) if isinstance(it, tuple) and it and it[0] == "ref" else it

    def do(s):
        lev = s.extra.setdefault("loop_entry_values", {})
        lev[(info.name, header, ("I", 0, ()))] = itv
        if isinstance(it, tuple) and it and it[0] == "ref" and it[3]:
            px._write(s, it[1], it[2], ("havoc", ("call", "std::iter::Iterator::try_for_each", (("&", itv),), ev["uid"]), 0))
        _havoc_captures(px, s, f, info.name, header, sig)
        px.emit(s, {"k": "loop_enter", "fn": info.name, "bb": header, "sig": sig})
    return [
        {"label": "fold-exit", "value": mk(UNIT), "do": do},
        {"label": "fold-step", "inline": body, "args": call_args(f, [item]), "end_as": (info.name, header),
         "end_try": (good, bad), "do": do},
    ]


TRY_FOLD = {"std::iter::Iterator::try_fold": m_try_fold, "std::iter::Iterator::try_for_each": m_try_for_each}


def _any_all(px, st, fr, ev, neutral):
    """`it.any(f)` / `it.all(f)` over a crate-local iterator, summarised by its *value*: that of
    `fold(false, |a, x| a || f(x))` resp. `fold(true, |a, x| a && f(x))` (f pure).  How far the iterator is consumed differs
    (any / all stop at the first hit) - the iterator is havocked either way.  NOT installed by default: the rules that read
    `any` / `all` as opaque predicates (digit guards, the path validator) would lose them."""
    if len(ev["args"]) != 2:
        return None
    it, f = ev["args"]
    body = closure_body(f)
    recv = ev["argops"][0].get("place", {}).get("ty", {})
    rty = (recv.get("inner_s") or recv.get("s") or "").lstrip("&").replace("mut ", "").split("<")[0]
    a = px.facts.adts.get(rty)
    if body is None or body not in px.facts.bodies or not (a and a.get("local")):
        return None
    info = fr.info
    header = ("fold", fr.bb)
    sig = px.chain_sig(st)
    key = ("F", 0, ())
    acc = ("loopvar", info.name, header, key, 0) + ((sig,) if sig else ())
    px.mark_bool(acc)
    item = ("fold_item", info.name, fr.bb, sig)
    init = const(neutral)

    def do(s):
        lev = s.extra.setdefault("loop_entry_values", {})
        lev[(info.name, header, key)] = init
        if sig:
            lev[(info.name, header, key, sig)] = init
        if isinstance(it, tuple) and it and it[0] == "ref" and it[3]:
            px._write(s, it[1], it[2], ("havoc", ("call", ev["callee"]["path"], (("&", px._read(s, it[1], it[2])),), ev["uid"]), 0))
        _havoc_captures(px, s, f, info.name, header, sig)
        px.emit(s, {"k": "loop_enter", "fn": info.name, "bb": header, "sig": sig})
    return [
        {"label": "fold-exit", "value": acc, "do": do},
        # a turn with the answer already decided: the accumulator keeps it, f is not consulted
        {"label": "fold-step", "backedge": (info.name, header), "value": const(1 - neutral), "do": do,
         "assume": (lambda c: c.set_known(acc, 1 - neutral))},
        # a turn while undecided: the accumulator becomes f(item)
        {"label": "fold-step", "inline": body, "args": call_args(f, [item]), "end_as": (info.name, header), "do": do,
         "assume": (lambda c: c.set_known(acc, neutral))},
    ]


def m_any_local(px, st, fr, ev):
    return _any_all(px, st, fr, ev, 0)


def m_all_local(px, st, fr, ev):
    return _any_all(px, st, fr, ev, 1)


ANY_ALL = {"std::iter::Iterator::any": m_any_local, "std::iter::Iterator::all": m_all_local}


@model("core::num::<impl u64>::checked_mul", "core::num::<impl usize>::checked_mul", "core::num::<impl u32>::checked_mul",
       reason="checked_mul: None iff the exact product exceeds MAX, else Some(a*b)")
def m_checked_mul(px, st, fr, ev):
    a, b = ev["args"]
    mx = uint_max(ev["callee"]["path"])
    s = mk_binop("Mul", a, b)
    if is_const(s):
        return val(some(s) if s[1] <= mx else NONE)
    ovf = ("ovf", "Mul", a, b)
    TY.setdefault(s, (64, False))
    return [
        {"label": "no-overflow", "value": some(s),
         "assume": (lambda c: c.set_known(ovf, 0) and (c.rel.append(("Le", s, const(mx))) or True))},
        {"label": "overflow", "value": NONE, "assume": (lambda c: c.set_known(ovf, 1))},
    ]


@model("std::convert::Into::into", reason="x.into() with a crate-local `impl From<X> for T`: that impl's own MIR is expanded (std's blanket impl calls it)")
def m_into(px, st, fr, ev):
    dty = ev["dest"]["ty"]
    adt = dty.get("adt") or (dty.get("s") or "").split("<")[0]
    a = px.facts.adts.get(adt)
    if not a or not a.get("local") or len(ev["args"]) != 1:
        return None
    aty = (ev["argops"][0].get("ty") or ev["argops"][0].get("place", {}).get("ty") or {}).get("s", "")
    cands = []
    for f in px.facts.fns.values():
        if (f.get("impl_trait") or "").endswith("convert::From") and (f.get("impl_self") or "").split("<")[0] == adt and f["path"].endswith("::from") \
                and f["path"] in px.facts.bodies:
            pty = px.facts.bodies[f["path"]]["locals"][1]["s"]
            if pty.split("<")[0] == aty.split("<")[0]:
                cands.append(f["path"])
    if len(cands) != 1:
        return None
    return [{"inline": cands[0], "args": [ev["args"][0]]}]


def _m_widen(px, st, fr, ev):
    return val(ev["args"][0])


def _m_tryfrom_lossless(px, st, fr, ev):
    return val(ok(ev["args"][0]))


for _s, _d in (("u64", "usize"), ("usize", "u64"), ("u32", "usize"), ("u32", "u64"), ("u16", "usize"), ("u8", "usize")):
    model("std::convert::num::<impl std::convert::TryFrom<%s> for %s>::try_from" % (_s, _d),
          "core::convert::num::<impl std::convert::TryFrom<%s> for %s>::try_from" % (_s, _d),
          "std::convert::num::ptr_try_from_impls::<impl std::convert::TryFrom<%s> for %s>::try_from" % (_s, _d),
          reason="TryFrom between unsigned types that cannot lose bits on the analysed (64-bit) target: always Ok(value)")(_m_tryfrom_lossless)


for _src, _dsts in (("u8", ("u16", "u32", "u64", "usize", "u128")), ("u16", ("u32", "u64", "usize", "u128")), ("u32", ("u64", "u128")),
                    ("u64", ("u128",)), ("bool", ("u8", "u16", "u32", "u64", "usize"))):
    for _d in _dsts:
        model("std::convert::num::<impl std::convert::From<%s> for %s>::from" % (_src, _d),
              reason="From between unsigned integer types that cannot lose bits: the value itself")(_m_widen)


@model("std::ops::Try::branch", reason="`?`: Ok/Some -> Continue(payload); Err/None -> Break(residual)")
def m_try_branch(px, st, fr, ev):
    t = ev["args"][0]
    res = ev["callee"].get("res_full") or ""
    if res.startswith("<std::option::Option<"):
        good, bad = "Some", "None"
    else:
        good, bad = "Ok", "Err"
    a, b = split2(t, good, bad)
    a["value"] = agg("adt", "std::ops::ControlFlow", "Continue", (("0", payload(t, good)),))
    if bad == "Err":
        resid = err(payload(t, "Err"))
    else:
        resid = NONE
    b["value"] = agg("adt", "std::ops::ControlFlow", "Break", (("0", resid),))
    return [a, b]


@model("std::ops::FromResidual::from_residual", reason="`?`: the residual becomes the function's own Err/None")
def m_from_residual(px, st, fr, ev):
    t = ev["args"][0]
    dty = ev["dest"]["ty"].get("s", "")
    if is_agg(t) and t[3] == "Err" and dty.startswith("std::task::Poll<"):
        # `?` on a Result inside a poll function: Poll<Result<..>> / Poll<Option<Result<..>>> carry the error as Ready(Err) /
        # Ready(Some(Err)) (std's FromResidual impls for Poll); the error goes through From::from (the identity when the
        # error type is unchanged)
        e = agg_get(t, "0")
        aty = (ev["argops"][0].get("ty") or ev["argops"][0].get("place", {}).get("ty") or {}).get("s", "")
        pre = "std::result::Result<std::convert::Infallible, "
        same = aty.startswith(pre) and any(dty.endswith(", " + aty[len(pre):-1] + ">" * k) for k in (2, 3))
        ee = err(e if same else ("from", e))
        rdy = lambda v: agg("adt", "std::task::Poll", "Ready", (("0", v),))
        if dty.startswith("std::task::Poll<std::option::Option<std::result::Result<"):
            return val(rdy(some(ee)))
        if dty.startswith("std::task::Poll<std::result::Result<"):
            return val(rdy(ee))
    if is_agg(t) and t[3] == "Err":
        e = agg_get(t, "0")
        return val(err(("from", e)))
    if is_agg(t) and t[3] == "None":
        return val(NONE)
    return val(("from_residual", t))


@model("std::task::Poll::<T>::map", reason="Pending -> Pending; Ready(x) -> Ready(f(x))")
def m_poll_map(px, st, fr, ev):
    t, f = ev["args"][0], ev["args"][1]
    body = closure_body(f)
    a = {"label": "Ready", "assume": (lambda c: c.set_variant(t, "Ready"))}
    b = {"label": "Pending", "assume": (lambda c: c.set_variant(t, "Pending")),
         "value": agg("adt", "std::task::Poll", "Pending", ())}
    rdy = lambda v: agg("adt", "std::task::Poll", "Ready", (("0", v),))
    if body is not None and body in px.facts.bodies:
        a.update({"inline": body, "args": call_args(f, [payload(t, "Ready")]), "wrap": rdy})
    else:
        a["value"] = rdy(("mapped", f, payload(t, "Ready")))
    return [a, b]


@model("std::task::Poll::<std::option::Option<std::result::Result<T, E>>>::map_ok",
       "std::task::Poll::<std::option::Option<std::result::Result<T, E>>>::map_err",
       reason="Pending, Ready(None) and the other Result variant unchanged; Ready(Some(Ok(x))) -> Ready(Some(Ok(f(x)))) (map_err: the Err side)")
def m_poll_opt_res_map(px, st, fr, ev):
    t, f = ev["args"][0], ev["args"][1]
    which = "Ok" if (ev["callee"].get("path") or "").endswith("map_ok") else "Err"
    p1 = payload(t, "Ready")
    p2 = payload(p1, "Some")
    rdy = lambda v: agg("adt", "std::task::Poll", "Ready", (("0", v),))
    outs = [{"label": "Pending", "assume": (lambda c: c.set_variant(t, "Pending")), "value": agg("adt", "std::task::Poll", "Pending", ())},
            {"label": "Ready(None)", "assume": (lambda c: c.set_variant(t, "Ready") and c.set_variant(p1, "None")), "value": rdy(NONE)}]
    for v, ctor in (("Ok", ok), ("Err", err)):
        o = {"label": "Ready(Some(%s))" % v,
             "assume": (lambda c, v=v: c.set_variant(t, "Ready") and c.set_variant(p1, "Some") and c.set_variant(p2, v))}
        if v == which:
            frag = _inl(px, f, [payload(p2, v)], (lambda x, ctor=ctor: rdy(some(ctor(x)))), ev)
            if frag is None:
                return None
            o.update(frag)
        else:
            o["value"] = rdy(some(ctor(payload(p2, v))))
        outs.append(o)
    return outs


@model("std::ptr::mut_ptr::<impl *mut T>::cast", "std::ptr::const_ptr::<impl *const T>::cast",
       "std::ptr::mut_ptr::<impl *mut T>::cast_const", "std::ptr::const_ptr::<impl *const T>::cast_mut",
       reason="pointer casts change the pointee type only: the same address (what `as *mut U` is in MIR)")
def m_ptr_cast(px, st, fr, ev):
    return val(ev["args"][0])


# ------------------------------------------------------------------ integers

def bits_of(ev):
    ty = ev["dest"]["ty"]
    return 64


def uint_max(path):
    for nm, b in (("u64", 64), ("usize", 64), ("u32", 32), ("u16", 16), ("u8", 8)):
        if "impl %s>" % nm in path or "impl %s " % nm in path:
            return (1 << b) - 1
    return (1 << 64) - 1


@model("core::num::<impl u64>::checked_add", "core::num::<impl usize>::checked_add", "core::num::<impl u32>::checked_add",
       reason="checked_add: None iff the exact sum exceeds MAX, else Some(a+b)")
def m_checked_add(px, st, fr, ev):
    a, b = ev["args"]
    mx = uint_max(ev["callee"]["path"])
    s = add_terms(a, b)
    if is_const(s):
        return val(some(s) if s[1] <= mx else NONE)
    ovf = ("ovf", "Add", a, b)
    return [
        {"label": "no-overflow", "value": some(s),
         "assume": (lambda c: c.set_known(ovf, 0) and (c.rel.append(("Le", s, const(mx))) or True)
                    and (c.rel.append(("NoOvfAdd", a, b)) or True))},
        {"label": "overflow", "value": NONE,
         "assume": (lambda c: c.set_known(ovf, 1) and (c.rel.append(("OvfAdd", a, b)) or True))},
    ]


@model("core::num::<impl u64>::checked_sub", "core::num::<impl usize>::checked_sub",
       reason="checked_sub: None iff b > a, else Some(a-b)")
def m_checked_sub(px, st, fr, ev):
    a, b = ev["args"]
    lt = mk_binop("Lt", a, b)
    if is_const(lt):
        return val(NONE if lt[1] else some(sub_terms(a, b)))
    return [
        {"label": "fits", "value": some(sub_terms(a, b)), "assume": (lambda c: c.set_known(lt, 0))},
        {"label": "underflow", "value": NONE, "assume": (lambda c: c.set_known(lt, 1))},
    ]


@model("core::num::<impl u64>::saturating_add", "core::num::<impl usize>::saturating_add",
       reason="saturating_add: MAX iff the exact sum exceeds MAX, else a+b")
def m_sat_add(px, st, fr, ev):
    a, b = ev["args"]
    mx = uint_max(ev["callee"]["path"])
    s = add_terms(a, b)
    if is_const(s):
        return val(s if s[1] <= mx else const(mx))
    ovf = ("ovf", "Add", a, b)
    return [
        {"label": "no-overflow", "value": s,
         "assume": (lambda c: c.set_known(ovf, 0) and (c.rel.append(("Le", s, const(mx))) or True)
                    and (c.rel.append(("NoOvfAdd", a, b)) or True))},
        {"label": "saturated", "value": const(mx),
         "assume": (lambda c: c.set_known(ovf, 1) and (c.rel.append(("OvfAdd", a, b)) or True))},
    ]


@model("core::num::<impl u64>::saturating_sub", "core::num::<impl usize>::saturating_sub",
       reason="saturating_sub: 0 iff b >= a, else a-b")
def m_sat_sub(px, st, fr, ev):
    a, b = ev["args"]
    lt = mk_binop("Lt", a, b)
    if is_const(lt):
        return val(const(0) if lt[1] else sub_terms(a, b))
    return [
        {"label": "fits", "value": sub_terms(a, b), "assume": (lambda c: c.set_known(lt, 0))},
        {"label": "saturated", "value": const(0), "assume": (lambda c: c.set_known(lt, 1))},
    ]


@model("std::cmp::min", "std::cmp::Ord::min", reason="min(a,b): a if a<=b else b (case split)")
def m_min(px, st, fr, ev):
    a, b = ev["args"]
    if TY.get(a) is None and TY.get(b) is None and not (is_const(a) or is_const(b)):
        return val(("min", a, b))
    le = mk_binop("Le", a, b)
    if is_const(le):
        return val(a if le[1] else b)
    return [
        {"label": "a<=b", "value": a, "assume": (lambda c: c.set_known(le, 1))},
        {"label": "a>b", "value": b, "assume": (lambda c: c.set_known(le, 0))},
    ]


@model("std::cmp::max", "std::cmp::Ord::max", reason="max(a,b): b if a<=b else a (case split)")
def m_max(px, st, fr, ev):
    a, b = ev["args"]
    if TY.get(a) is None and TY.get(b) is None and not (is_const(a) or is_const(b)):
        return val(("max", a, b))
    le = mk_binop("Le", a, b)
    if is_const(le):
        return val(b if le[1] else a)
    return [
        {"label": "a<=b", "value": b, "assume": (lambda c: c.set_known(le, 1))},
        {"label": "a>b", "value": a, "assume": (lambda c: c.set_known(le, 0))},
    ]


# ------------------------------------------------------------------ sequences

@model("std::vec::Vec::<T, A>::len", "core::slice::<impl [T]>::len", "core::str::<impl str>::len",
       "smallvec::SmallVec::<A>::len", "std::string::String::len", "std::collections::VecDeque::<T, A>::len",
       reason="len(x) is a pure function of the sequence value")
def m_len(px, st, fr, ev):
    s = seq_of(px, st, ev["args"][0])
    return val(len_term(s))


@model("std::vec::Vec::<T, A>::is_empty", "core::slice::<impl [T]>::is_empty", "core::str::<impl str>::is_empty",
       "smallvec::SmallVec::<A>::is_empty", "std::collections::VecDeque::<T, A>::is_empty",
       reason="is_empty(x) == (len(x) == 0)")
def m_is_empty(px, st, fr, ev):
    s = seq_of(px, st, ev["args"][0])
    if isinstance(s, tuple) and s and s[0] == "havoc" and isinstance(s[1], tuple) and s[1] and s[1][0] == "call" and \
            s[1][1].split("::")[-1] in ("pop_front", "pop_back", "pop") and st.cons.variant_of(s[1]) == "None":
        return val(const(1))        # a pop that returned None leaves the (empty) collection as it was
    ln = len_term(s)
    return val(st.cons.lookup(zero_length_cond(ln)))


@model("core::str::<impl str>::as_bytes", "http::HeaderName::as_str",
       reason="same bytes, different static type")
def m_as_bytes(px, st, fr, ev):
    return val(ev["args"][0])


@model("std::vec::Vec::<T, A>::capacity", reason="capacity(v) is a pure function of the Vec value")
def m_capacity(px, st, fr, ev):
    s = seq_of(px, st, ev["args"][0])
    t = ("cap", s)
    TY.setdefault(t, (64, False))
    return val(t)


def zero_length_cond(ln):
    """`ln == 0` for a length term; the length of a sub-slice s[a..b] is b - a (nested: b - a - c) with a <= b because the
    slice exists, so it is empty iff b == a (+ c)"""
    subs = []
    top = ln
    while isinstance(top, tuple) and top and top[0] == "binop" and top[1] == "Sub":
        subs.append(top[3])
        top = top[2]
    if not subs:
        return mk_binop("Eq", ln, const(0))
    rhs = subs[-1]
    for x in reversed(subs[:-1]):
        rhs = add_terms(rhs, x)
    return mk_binop("Eq", top, rhs)


def eq_term(px, st, a, b):
    x = seq_of(px, st, a)
    y = seq_of(px, st, b)
    t = ("eq", x, y)
    px.mark_bool(t)
    return t


def deep_deref(px, st, t, depth=0):
    """replace references nested inside an aggregate by the values they denote"""
    if not isinstance(t, tuple) or depth > 4 or not t:
        return t
    if t[0] == "ref":
        return deep_deref(px, st, px._read(st, t[1], t[2]), depth + 1)
    if t[0] == "refconst":
        return deep_deref(px, st, t[1], depth + 1)
    if t[0] == "agg":
        return ("agg", t[1], t[2], t[3], tuple((n, deep_deref(px, st, v, depth + 1)) for n, v in t[4]))
    return t


@model("std::cmp::PartialEq::eq", reason="== as an uninterpreted symmetric predicate over the compared values")
def m_eq(px, st, fr, ev):
    a, b = ev["args"]
    if ev["callee"].get("res_local") and ev["callee"].get("res_path") in px.facts.bodies and \
            px.inline(ev["callee"], len(st.frames)):
        return None     # a crate-local (e.g. derived) impl: its own MIR is expanded instead
    x = deep_deref(px, st, seq_of(px, st, a))
    y = deep_deref(px, st, seq_of(px, st, b))
    if TY.get(x) is not None or TY.get(y) is not None or (is_const(x) and is_const(y)):
        return val(st.cons.lookup(mk_binop("Eq", x, y)))
    if x[0] in ("str", "bytes") and y[0] in ("str", "bytes"):
        return val(const(int(x[1] == y[1])))
    if is_agg(x) and is_agg(y) and x[2] == y[2] == "std::option::Option":
        # Option<T>: PartialEq is structural (std)
        if x[3] != y[3]:
            return val(const(0))
        if x[3] == "None":
            return val(const(1))
        px_, py_ = agg_get(x, "0"), agg_get(y, "0")
        if TY.get(px_) is not None or TY.get(py_) is not None or is_const(px_) or is_const(py_):
            return val(st.cons.lookup(mk_binop("Eq", px_, py_)))
    for u, lit in ((x, y), (y, x)):
        if isinstance(lit, tuple) and lit[0] in ("str", "bytes") and lit[1] == "" and isinstance(u, tuple):
            # s == "" is s.is_empty()
            return val(st.cons.lookup(zero_length_cond(len_term(u))))
    t = _eq_canon(x, y)
    px.mark_bool(t)
    return val(st.cons.lookup(t))


def _eq_canon(x, y):
    """`==` through references compares the pointees: against a named constant, `*r == C` and `r == C` (with r a reference,
    via `impl PartialEq<T> for &T`) are the same test - one term for both"""
    for _ in range(3):
        if isinstance(y, tuple) and y and y[0] == "named" and isinstance(x, tuple) and x and x[0] == "deref":
            x = x[1]
        elif isinstance(x, tuple) and x and x[0] == "named" and isinstance(y, tuple) and y and y[0] == "deref":
            y = y[1]
        else:
            break
    return ("eq", x, y)


@model("std::cmp::PartialEq::ne", reason="!= is the negation of ==")
def m_ne(px, st, fr, ev):
    r = m_eq(px, st, fr, ev)        # the same folding / canonical term as ==
    if r is None:
        return None
    v = r["value"]
    if is_const(v):
        return val(const(1 - v[1]))
    if isinstance(v, tuple) and v and v[0] == "binop" and v[1] in ("Eq", "Ne"):
        return val(st.cons.lookup(mk_binop("Ne" if v[1] == "Eq" else "Eq", v[2], v[3])))
    if isinstance(v, tuple) and v and v[0] == "unop" and v[1] == "Not":
        return val(v[2])
    return val(("unop", "Not", v))


@model("std::cmp::PartialOrd::le", "std::cmp::PartialOrd::lt", "std::cmp::PartialOrd::gt", "std::cmp::PartialOrd::ge",
       reason="ordering comparison as a comparison term over the compared values")
def m_cmp(px, st, fr, ev):
    a, b = ev["args"]
    x = deref_val(px, st, a)
    y = deref_val(px, st, b)
    op = {"le": "Le", "lt": "Lt", "gt": "Gt", "ge": "Ge"}[ev["callee"]["path"].split("::")[-1]]
    t = ("binop", op, x, y)
    return val(st.cons.lookup(t))


def install(extra=None):
    m = dict(MODELS)
    if extra:
        m.update(extra)
    return m


@model("core::str::<impl str>::parse", reason="s.parse::<uN>() is <uN as FromStr>::from_str(s): rewritten to that call")
def m_str_parse(px, st, fr, ev):
    import re
    m = re.match(r"std::result::Result<(u8|u16|u32|u64|usize), ", ev["dest"]["ty"].get("s", ""))
    if not m:
        return None
    name = "core::num::<impl std::str::FromStr for %s>::from_str" % m.group(1)
    ev["names"] = set(ev["names"]) | {"std::str::FromStr::from_str", name}
    ev["callee"] = dict(ev["callee"], res_path=name, path="std::str::FromStr::from_str", via="str::parse")
    a, sn = ev["args"][0], ev["snap"][0]
    ca = ("&", sn) if a[0] == "ref" and sn is not None else (("&", a[1]) if a[0] == "refconst" else a)
    return val(("call", name, (ca,), ev["uid"]))


@model("std::ops::Range::<Idx>::is_empty", reason="Range::is_empty: !(start < end)")
def m_range_is_empty(px, st, fr, ev):
    r = deref_val(px, st, ev["args"][0], depth=1)
    s = agg_get(r, "start") if is_agg(r) else ("field", r, "start")
    e = agg_get(r, "end") if is_agg(r) else ("field", r, "end")
    lt = st.cons.lookup(mk_binop("Lt", s, e))
    if is_const(lt):
        return val(const(1 - lt[1]))
    return [
        {"label": "start<end", "value": FALSE, "assume": (lambda c: c.set_known(lt, 1))},
        {"label": "start>=end", "value": TRUE, "assume": (lambda c: c.set_known(lt, 0))},
    ]


@model("std::ops::RangeInclusive::<Idx>::contains", "std::ops::Range::<Idx>::contains",
       reason="range.contains(&x): start <= x and x <= end (resp. x < end)")
def m_range_contains(px, st, fr, ev):
    r = deref_val(px, st, ev["args"][0], depth=2)
    x = deref_val(px, st, ev["args"][1], depth=2)
    incl = "RangeInclusive" in ev["callee"]["path"]
    if is_agg(r):
        s, e = agg_get(r, "start"), agg_get(r, "end")
    elif isinstance(r, tuple) and r and r[0] == "call" and r[1].endswith("RangeInclusive::<Idx>::new"):
        s, e = r[2][0], r[2][1]
    else:
        return None
    if s is None or e is None:
        return None
    lo = st.cons.lookup(mk_binop("Le", s, x))
    hi = st.cons.lookup(mk_binop("Le" if incl else "Lt", x, e))
    outs = []
    for lv in ((1, 0) if not is_const(lo) else (lo[1],)):
        for hv in ((1, 0) if not is_const(hi) else (hi[1],)):
            def assume(c, lv=lv, hv=hv):
                ok1 = is_const(lo) or c.set_known(lo, lv)
                return ok1 and (is_const(hi) or c.set_known(hi, hv))
            outs.append({"label": "lo=%d,hi=%d" % (lv, hv), "value": const(int(lv and hv)), "assume": assume})
    return outs


@model("std::ops::RangeInclusive::<Idx>::new", reason="a..=b as a value")
def m_range_incl_new(px, st, fr, ev):
    return val(agg("adt", "std::ops::RangeInclusive", None, (("start", ev["args"][0]), ("end", ev["args"][1]))))


@model("core::str::<impl str>::split_once", reason="split_once(ch): Some((s[..h], s[h+1..])) with h the first match; None if absent")
def m_split_once(px, st, fr, ev):
    seq = seq_of(px, st, ev["args"][0])
    needle = ev["args"][1]
    f = ("found", seq, needle, ev["uid"], "str::split_once")
    ev["found"] = f
    h = payload(f, "Some")
    TY.setdefault(h, (64, False))
    a = ("slice_of", ("slice", seq, const(0), h))
    b = ("slice_of", ("slice", seq, add_terms(h, const(1)), None))
    tup = agg("tuple", None, None, (("0", a), ("1", b)))
    return [
        {"label": "found", "value": some(tup), "assume": (lambda c: c.set_variant(f, "Some"))},
        {"label": "absent", "value": NONE, "assume": (lambda c: c.set_variant(f, "None"))},
    ]


_ASCII_PREDS = {
    "is_ascii_digit": lambda c: 48 <= c <= 57,
    "is_ascii_hexdigit": lambda c: 48 <= c <= 57 or 65 <= c <= 70 or 97 <= c <= 102,
    "is_ascii_alphabetic": lambda c: 65 <= c <= 90 or 97 <= c <= 122,
    "is_ascii_alphanumeric": lambda c: 48 <= c <= 57 or 65 <= c <= 90 or 97 <= c <= 122,
    "is_ascii_uppercase": lambda c: 65 <= c <= 90,
    "is_ascii_lowercase": lambda c: 97 <= c <= 122,
    "is_ascii_whitespace": lambda c: c in (9, 10, 12, 13, 32),
    "is_ascii_graphic": lambda c: 33 <= c <= 126,
    "is_ascii_punctuation": lambda c: 33 <= c <= 47 or 58 <= c <= 64 or 91 <= c <= 96 or 123 <= c <= 126,
    "is_ascii_control": lambda c: c <= 31 or c == 127,
    "is_ascii": lambda c: c <= 127,
}


def _ascii_pred(px, st, fr, ev):
    """u8 / char classification predicates: folded on a constant argument, otherwise an uninterpreted call"""
    nm = ev["callee"]["path"].split("::")[-1]
    a = deref_val(px, st, ev["args"][0], depth=2)
    if is_const(a) and isinstance(a[1], int) and nm in _ASCII_PREDS:
        return val(const(int(_ASCII_PREDS[nm](a[1]))))
    return None


for _ty in ("u8", "char"):
    for _nm in _ASCII_PREDS:
        model("core::num::<impl %s>::%s" % (_ty, _nm) if _ty == "u8" else "core::char::methods::<impl char>::%s" % _nm,
              reason="ASCII classification predicate (std documentation); folded on constants")(_ascii_pred)


@model("core::slice::<impl [T]>::split", reason="split(pred): an iterator over the maximal runs between elements matching pred (uninterpreted, carries its source and predicate)")
def m_slice_split(px, st, fr, ev):
    seq = seq_of(px, st, ev["args"][0])
    return val(("split", seq, ev["args"][1]))


@model("core::slice::<impl [T]>::contains", reason="contains(&x): an uninterpreted two-valued predicate of (sequence, element)")
def m_slice_contains(px, st, fr, ev):
    seq = seq_of(px, st, ev["args"][0])
    x = deref_val(px, st, ev["args"][1], depth=2)
    t = ("contains", seq, x)
    px.mark_bool(t)
    return val(st.cons.lookup(t))


@model("core::str::<impl str>::contains", reason="contains(ASCII char): the string's bytes contain that byte (UTF-8: bytes below 128 occur only as themselves)")
def m_str_contains(px, st, fr, ev):
    x = ev["args"][1]
    if not (is_const(x) and isinstance(x[1], int) and 0 <= x[1] < 128):
        return None
    seq = seq_of(px, st, ev["args"][0])
    t = ("contains", seq, x)
    px.mark_bool(t)
    return val(st.cons.lookup(t))


# ------------------------------------------------------------------ searching / slicing

@model("core::str::<impl str>::find", reason="find(ch): Some(h) with h < len(s), s[h] is the first match; None if absent")
def m_find(px, st, fr, ev):
    seq = seq_of(px, st, ev["args"][0])
    needle = ev["args"][1]
    return val(("found", seq, needle, ev["uid"], "str::find"))


@model("memchr::memchr", reason="memchr(b, hay): Some(h) with h < len(hay) at the first occurrence of b; None if absent")
def m_memchr(px, st, fr, ev):
    seq = seq_of(px, st, ev["args"][1])
    return val(("found", seq, ev["args"][0], ev["uid"], "memchr"))


@model("std::iter::Iterator::position", reason="position(pred): Some(h) with h < remaining length; None if no element matches")
def m_position(px, st, fr, ev):
    it = deref_val(px, st, ev["args"][0], depth=1)
    seq = it
    if isinstance(it, tuple) and it[0] == "iter":
        seq = it[1]
    elif isinstance(it, tuple) and it and it[0] == "call" and it[1] == "core::str::<impl str>::bytes" and len(it[2]) == 1:
        seq = it[2][0][1] if isinstance(it[2][0], tuple) and it[2][0] and it[2][0][0] == "&" else it[2][0]     # bytes() of a str: its bytes
    ev["closure"] = ev["args"][1]
    return val(("found", seq, ev["args"][1], ev["uid"], "position"))


@model("core::slice::<impl [T]>::strip_prefix", reason="strip_prefix(literal): Some(s[k..]) iff s starts with the k literal bytes, else None")
def m_slice_strip_prefix(px, st, fr, ev):
    seq = seq_of(px, st, ev["args"][0])
    lit = seq_of(px, st, ev["args"][1])
    if not (isinstance(lit, tuple) and lit and lit[0] in ("bytes", "str")):
        return None
    k = len(lit[1])
    sw = ("call", "core::slice::<impl [T]>::starts_with", (("&", seq), ("&", lit)), None)
    px.mark_bool(sw)

    def yes(c):
        if not c.set_known(sw, 1):
            return False
        for i, ch in enumerate(lit[1]):
            if not c.set_known(("proj", seq, ("cidx", i, False, 0)), ord(ch)):
                return False
        return True
    rest = ("slice", seq[1], add_terms(seq[2], const(k)), seq[3]) if isinstance(seq, tuple) and seq[0] == "slice" and len(seq) == 4 else ("slice", seq, const(k), None)
    return [
        {"label": "prefix", "value": some(("slice_of", rest)), "assume": yes},
        {"label": "no-prefix", "value": NONE, "assume": (lambda c: c.set_known(sw, 0))},
    ]


@model("std::iter::Iterator::count", reason="take_while(p).count() over a slice: the length n of the longest prefix whose elements all satisfy p (n <= len)")
def m_count(px, st, fr, ev):
    it = deref_val(px, st, ev["args"][0], depth=1)
    if not (isinstance(it, tuple) and it and it[0] == "call" and it[1].endswith("Iterator::take_while") and len(it[2]) == 2):
        return None
    src, pred = it[2]
    if isinstance(src, tuple) and src and src[0] == "&":
        src = src[1]
    if not (isinstance(src, tuple) and src and src[0] == "iter"):
        return None
    seq = src[1]
    n = ("prefix_len", seq, pred)
    TY.setdefault(n, (64, False))
    ln = len_term(seq)
    TY.setdefault(ln, (64, False))
    return val(n, assume=(lambda c: (c.rel.append(("Le", n, ln)) or True)))


@model("core::slice::<impl [T]>::iter", reason="iter() over the same sequence")
def m_iter(px, st, fr, ev):
    return val(("iter", seq_of(px, st, ev["args"][0])))


def range_bounds(idx, seq):
    """-> (start, end_or_None, kind) for Range*/RangeFull aggregates, else None"""
    if not is_agg(idx):
        return None
    adt = idx[2] or ""
    if adt.endswith("ops::Range"):
        return agg_get(idx, "start"), agg_get(idx, "end"), "range"
    if adt.endswith("ops::RangeFrom"):
        return agg_get(idx, "start"), None, "from"
    if adt.endswith("ops::RangeTo"):
        return const(0), agg_get(idx, "end"), "to"
    if adt.endswith("ops::RangeFull"):
        return const(0), None, "full"
    return None


@model("std::ops::Index::index", "std::ops::IndexMut::index_mut",
       reason="indexing: a range yields the sub-slice value, an integer yields a reference to that element; "
              "the bounds/char-boundary condition is emitted as a census obligation")
def m_index(px, st, fr, ev):
    seq = seq_of(px, st, ev["args"][0])
    idx = ev["args"][1]
    res = ev["callee"].get("res_full") or ""
    is_str = " for str>" in res or "for str>" in res
    rb = range_bounds(idx, seq)
    ev["index"] = {"seq": seq, "is_str": is_str}
    if rb is not None:
        s, e, kind = rb
        ev["index"].update({"start": s, "end": e, "range": kind})
        sl = ("slice", seq, s, e)
        if kind == "full":
            sl = seq
        elif isinstance(seq, tuple) and seq and seq[0] == "slice" and len(seq) == 4:
            # a sub-slice of a sub-slice is a sub-slice of the base: x[a..b][s..e] = x[a+s .. a+e] (or ..b)
            base, a0, b0 = seq[1], seq[2], seq[3]
            sl = ("slice", base, add_terms(a0, s), add_terms(a0, e) if e is not None else b0)
        return val(("slice_of", sl))
    ev["index"].update({"at": idx})
    mut = "index_mut" in ev["callee"]["path"]
    return val(("ref", ("H", ("elem", seq, idx)), (), mut))


@model("core::slice::<impl [T]>::get", reason="get(i): Some(&s[i]) iff i < len(s) (integer index)")
def m_slice_get(px, st, fr, ev):
    seq = seq_of(px, st, ev["args"][0])
    idx = ev["args"][1]
    if is_agg(idx) or not (is_const(idx) or TY.get(idx) is not None or (isinstance(idx, tuple) and idx[0] in ("binop", "loopvar", "field", "payload"))):
        return None
    if isinstance(seq, tuple) and seq and seq[0] == "slice" and len(seq) == 4:
        # element i of x[a..] is element a+i of x
        seq, idx = seq[1], add_terms(seq[2], idx)
    lt = st.cons.lookup(mk_binop("Lt", idx, len_term(seq)))
    r = ("ref", ("H", ("elem", seq, idx)), (), False)
    if is_const(lt):
        return val(some(r) if lt[1] else NONE)
    return [
        {"label": "in-bounds", "value": some(r), "assume": (lambda c: c.set_known(lt, 1))},
        {"label": "out-of-bounds", "value": NONE, "assume": (lambda c: c.set_known(lt, 0))},
    ]


@model("core::slice::<impl [T]>::split_at", reason="split_at(mid): (s[..mid], s[mid..]); panics if mid > len (census obligation)")
def m_split_at(px, st, fr, ev):
    seq = seq_of(px, st, ev["args"][0])
    mid = ev["args"][1]
    ev["index"] = {"seq": seq, "is_str": False, "start": const(0), "end": mid, "range": "split_at"}
    a = ("slice_of", ("slice", seq, const(0), mid))
    b = ("slice_of", ("slice", seq, mid, None))
    return val(agg("tuple", None, None, (("0", a), ("1", b))))


@model("core::slice::<impl [T]>::first", reason="first(): Some(&s[0]) iff len > 0")
def m_first(px, st, fr, ev):
    seq = seq_of(px, st, ev["args"][0])
    return val(("first", seq))


# ------------------------------------------------------------------ formatting

def decode_template(s):
    """new format_args! lowering: length-prefixed literal pieces, 0xC0 per plain placeholder, 0x00 terminator.
    -> list of ("lit", text) / ("arg", index) / ("opaque", byte)"""
    b = [ord(ch) for ch in s]
    out = []
    i = 0
    argi = 0
    while i < len(b):
        x = b[i]
        if x == 0:
            break
        if x < 0x80:
            out.append(("lit", "".join(chr(c) for c in b[i + 1:i + 1 + x])))
            i += 1 + x
        elif x == 0xC0:
            out.append(("arg", argi))
            argi += 1
            i += 1
        else:
            out.append(("opaque", x))
            argi += 1
            i += 1
    return out


@model("core::fmt::rt::Argument::<'_>::new_display", "core::fmt::rt::Argument::<'_>::new_lower_hex",
       "core::fmt::rt::Argument::<'_>::new_debug", "core::fmt::rt::Argument::<'_>::new_upper_hex",
       reason="format argument = (trait, static type, value)")
def m_fmtarg(px, st, fr, ev):
    tr = ev["callee"]["path"].split("::")[-1][4:]
    targs = ev["callee"].get("targs") or []
    ty = targs[0]["s"] if targs else "?"
    if ty.lstrip("&") in ("u8", "u16", "u32", "u64", "usize", "i8", "i16", "i32", "i64", "isize"):
        ty = ty.lstrip("&")     # Display / LowerHex of `&uN` is that of `uN`
    v = deref_val(px, st, ev["args"][0], depth=3)
    return val(("fmtarg", tr, ty, v))


@model("std::fmt::Arguments::<'a>::new", "std::fmt::Arguments::<'a>::new_const", "std::fmt::Arguments::<'a>::from_str",
       reason="format_args!: decoded template + argument list")
def m_fmtargs(px, st, fr, ev):
    tpl = deref_val(px, st, ev["args"][0])
    args = deref_val(px, st, ev["args"][1]) if len(ev["args"]) > 1 else agg("array", None, None, ())
    items = tuple(v for _, v in args[4]) if is_agg(args) else (("unknown_args", args),)
    return val(("fmtargs", tpl[1] if isinstance(tpl, tuple) and tpl[0] in ("bytes", "str") else tpl, items))


def append_to(px, st, ref, piece, fr=None, via="append"):
    old = px._read(st, ref[1], ref[2])
    new = ("appended", old, piece)

    def do(s):
        px._write(s, ref[1], ref[2], new)
        px.emit(s, {"k": "write", "fn": fr.info.name if fr else "?", "bb": fr.bb if fr else -1, "root": ref[1], "path": ref[2], "value": new, "via": via})
    return do


@model("std::fmt::Write::write_fmt", "std::io::Write::write_fmt",
       reason="write!(buf, ..) appends the formatted text to a growable buffer (BytesMut / Vec<u8>): modelled as append + Ok "
              "when the receiver is such a buffer, else uninterpreted")
def m_write_fmt(px, st, fr, ev):
    a = ev["args"][0]
    res = ev["callee"].get("res_full") or ""
    recv_ty = ev["argops"][0].get("place", {}).get("ty", {}).get("s", "")
    growable = "BytesMut" in res or "BytesMut" in recv_ty or "Vec<u8>" in recv_ty
    if a[0] != "ref" or not growable:
        return None
    target = a
    inner = px._read(st, a[1], a[2])
    if isinstance(inner, tuple) and inner and inner[0] == "ref":
        target = inner  # &mut &mut Vec<u8>
    return val(ok(UNIT), do=append_to(px, st, target, ("fmt", ev["args"][1]), fr, "write_fmt"))


@model("std::vec::Vec::<T, A>::extend_from_slice", reason="appends the slice to the Vec")
def m_extend_from_slice(px, st, fr, ev):
    a = ev["args"][0]
    if a[0] != "ref":
        return None
    piece = seq_of(px, st, ev["args"][1])
    return val(UNIT, do=append_to(px, st, a, ("slice", piece), fr, "extend_from_slice"))


@model("bytes::BytesMut::with_capacity", "std::vec::Vec::<T>::with_capacity", "std::vec::Vec::<T>::new",
       reason="a fresh empty buffer (capacity is a hint)")
def m_new_buf(px, st, fr, ev):
    capn = ev["args"][0] if ev["args"] else const(0)
    return val(("newbuf", ev["callee"]["path"].split("::")[-2].split("<")[0] if "::" in ev["callee"]["path"] else "buf", capn, ev["uid"]))


@model("bytes::BytesMut::freeze", reason="freeze keeps the bytes")
def m_freeze(px, st, fr, ev):
    return val(("frozen", ev["args"][0]))


@model("http::HeaderValue::from_maybe_shared_unchecked", reason="header value made of exactly the given bytes")
def m_hv_unchecked(px, st, fr, ev):
    return val(("hv", ev["args"][0]))


def _m_hv_from_int(px, st, fr, ev):
    """HeaderValue::from(uN): the decimal digits of the number - the same value `write!(buf, "{}", n)` into a buffer with room
    for every uN produces (http's impl formats with itoa into a BytesMut it sizes itself; it cannot fail)"""
    ity = ev["callee"].get("res_path", "").split("From<")[-1].split(">")[0]
    digits = {"u16": 5, "u32": 10, "u64": 20, "usize": 20}.get(ity)
    if digits is None:
        return None
    buf = ("appended", ("newbuf", "BytesMut", const(digits), ev["uid"]), ("fmt", ("fmtargs", "\xc0\x00", (("fmtarg", "display", ity, ev["args"][0]),))))
    return val(("hv", ("frozen", buf)))


for _ity in ("u16", "u32", "u64", "usize"):
    model("<http::HeaderValue as std::convert::From<%s>>::from" % _ity,
          reason="HeaderValue::from(integer): its decimal text")(_m_hv_from_int)


@model("http::HeaderValue::from_static", reason="header value made of the literal")
def m_hv_static(px, st, fr, ev):
    return val(("hv_static", ev["args"][0]))


# ------------------------------------------------------------------ http::Response / Builder

def mk_builder(status, headers, tainted=False):
    return ("builder", status, headers, tainted)


@model("http::Response::<()>::builder", "http::response::Builder::new", reason="empty response builder (default status 200)")
def m_builder(px, st, fr, ev):
    return val(mk_builder(None, ()))


@model("http::response::Builder::status", reason="sets the status")
def m_b_status(px, st, fr, ev):
    b = ev["args"][0]
    if not (isinstance(b, tuple) and b[0] == "builder"):
        return None
    ty = ev["argops"][1].get("place", {}).get("ty", {}).get("s") or ev["argops"][1].get("ty", {}).get("s", "")
    taint = b[3] or ("StatusCode" not in ty)
    return val(mk_builder(ev["args"][1], b[2], taint))


@model("http::response::Builder::header", reason="appends one header (name, value)")
def m_b_header(px, st, fr, ev):
    b = ev["args"][0]
    if not (isinstance(b, tuple) and b[0] == "builder"):
        return None
    tys = []
    for i in (1, 2):
        o = ev["argops"][i]
        tys.append(o.get("place", {}).get("ty", {}).get("s") or o.get("ty", {}).get("s", ""))
    v = ev["args"][2]
    if isinstance(v, tuple) and v and v[0] in ("ref", "refconst") and "HeaderValue" in tys[1]:
        v = deref_val(px, st, v, depth=2)       # `&HeaderValue` is converted by cloning: the header carries the referent's value
    from_httpdate = isinstance(v, tuple) and v and v[0] == "call" and v[1].endswith("httpdate::fmt_http_date")
    taint = b[3] or not ("HeaderName" in tys[0] and ("HeaderValue" in tys[1] or from_httpdate))
    return val(mk_builder(b[1], b[2] + ((ev["args"][1], v, ev["uid"]),), taint))


def mk_response(status, headers, body):
    return agg("adt", "http::Response", None, (("status", status if status is not None else ("default_status",)),
                                                 ("headers", ("hdrs", headers)), ("body", body)))


@model("http::response::Builder::body",
       reason="Builder::body is Ok when every status/header argument had an infallible type (StatusCode, HeaderName, HeaderValue, "
              "or the String produced by httpdate::fmt_http_date, which is visible ASCII); otherwise uninterpreted")
def m_b_body(px, st, fr, ev):
    b = ev["args"][0]
    if not (isinstance(b, tuple) and b[0] == "builder") or b[3]:
        return None
    return val(ok(mk_response(b[1], b[2], ev["args"][1])))


@model("http::Response::<T>::new", reason="response with default status and no headers")
def m_resp_new(px, st, fr, ev):
    return val(mk_response(None, (), ev["args"][0]))


@model("http::Response::<T>::headers_mut", reason="borrows the header map of the response")
def m_headers_mut(px, st, fr, ev):
    a = ev["args"][0]
    if a[0] != "ref":
        return None
    cur = px._read(st, a[1], a[2])
    if not (is_agg(cur) and cur[2] == "http::Response"):
        return None
    return val(("ref", a[1], a[2] + (("f", "headers"),), True))


@model("http::HeaderMap::new", reason="empty header map")
def m_hm_new(px, st, fr, ev):
    return val(("hdrs", ()))


@model("http::HeaderMap::<T>::append", "http::HeaderMap::<T>::insert", reason="adds (name, value) to the map")
def m_hm_append(px, st, fr, ev):
    a = ev["args"][0]
    if a[0] != "ref":
        return None
    cur = px._read(st, a[1], a[2])
    if not (isinstance(cur, tuple) and cur[0] == "hdrs"):
        return None
    new = ("hdrs", cur[1] + ((ev["args"][1], ev["args"][2], ev["uid"]),))

    def do(s):
        px._write(s, a[1], a[2], new)
    return val(("call", ev["callee"]["path"], (), ev["uid"]), do=do)


@model("http::HeaderMap::<T>::reserve", "http::HeaderMap::<T>::try_reserve", "http::HeaderMap::<T>::with_capacity",
       reason="capacity management: the map's contents are unchanged")
def m_hm_reserve(px, st, fr, ev):
    if ev["callee"]["path"].endswith("with_capacity"):
        return val(("hdrs", ()))
    return val(UNIT)


@model("Entity::add_headers", reason="the entity appends its own headers: recorded as one opaque ENTITY entry")
def m_add_headers(px, st, fr, ev):
    a = ev["args"][1]
    if a[0] != "ref":
        return None
    cur = px._read(st, a[1], a[2])
    if not (isinstance(cur, tuple) and cur[0] == "hdrs"):
        return None
    ent = deref_val(px, st, ev["args"][0], depth=1)
    new = ("hdrs", cur[1] + ((("ENTITY",), ent, ev["uid"]),))

    def do(s):
        px._write(s, a[1], a[2], new)
    return val(UNIT, do=do)


@model("std::vec::Vec::<T, A>::reserve_exact", "std::vec::Vec::<T, A>::reserve",
       reason="reserve: same contents, capacity >= len + additional")
def m_reserve(px, st, fr, ev):
    a = ev["args"][0]
    if a[0] != "ref":
        return None
    old = px._read(st, a[1], a[2])
    new = ("reserved", old, ev["args"][1])

    def do(s):
        px._write(s, a[1], a[2], new)
    return val(UNIT, do=do)


@model("tokio::task::block_in_place", reason="block_in_place(f) runs f on the current thread and returns its result")
def m_block_in_place(px, st, fr, ev):
    f = ev["args"][0]
    body = closure_body(f)
    if body is None or body not in px.facts.bodies:
        return None
    return [{"inline": body, "args": call_args(f, [])}]


@model("std::vec::Vec::<T, A>::as_mut_ptr", "std::vec::Vec::<T, A>::as_ptr", "core::slice::<impl [T]>::as_ptr", "core::slice::<impl [T]>::as_mut_ptr",
       reason="raw pointer to the buffer; the Vec value itself is unchanged by taking it")
def m_as_ptr(px, st, fr, ev):
    v = deref_val(px, st, ev["args"][0], depth=1)
    return val(("ptr_of", v))


@model("std::vec::Vec::<T, A>::set_len", reason="set_len(n): same allocation, length n (unsafe: n <= capacity is a census obligation)")
def m_set_len(px, st, fr, ev):
    a = ev["args"][0]
    if a[0] != "ref":
        return None
    old = px._read(st, a[1], a[2])
    new = ("setlen", old, ev["args"][1])
    ev["set_len"] = {"old": old, "n": ev["args"][1]}

    def do(s):
        px._write(s, a[1], a[2], new)
    return val(UNIT, do=do)


@model("std::vec::Vec::<T, A>::truncate", reason="truncate(n): drops the tail; when n is the length before the last append, that append is undone")
def m_truncate(px, st, fr, ev):
    a = ev["args"][0]
    if a[0] != "ref":
        return None
    old = px._read(st, a[1], a[2])
    n = ev["args"][1]
    new = ("truncated", old, n)
    cur = old
    while isinstance(cur, tuple) and cur[0] == "appended":
        if len_term(cur[1]) == n:
            new = cur[1]        # n is the length before this (and any later) append: they are undone
            break
        cur = cur[1]

    def do(s):
        px._write(s, a[1], a[2], new)
    return val(UNIT, do=do)


@model("std::vec::Vec::<T, A>::push", reason="push(x): appends one element")
def m_vec_push(px, st, fr, ev):
    a = ev["args"][0]
    full = ev["callee"].get("res_full") or ev["callee"].get("full") or ""
    recv = ev["argops"][0].get("place", {}).get("ty", {}).get("s", "")
    if a[0] != "ref" or "Vec<u8>" not in recv:
        return None
    return val(UNIT, do=append_to(px, st, a, ("byte", ev["args"][1]), fr, "push"))
