"""Panic-site census with discharge.

A *site* is a construct that can panic: an `Assert` terminator (overflow, bounds,
division), a range/index operation on str/slice/Vec, `split_at`, an
`unwrap`/`expect`, a call that never returns (`panic*`, `assert_failed`) or a
callee on the deny-list.  PX visits every site on every path that reaches it;
the site is *discharged* when, on each such path, the zone solver shows the
failure condition contradicts the path's relations (or a type-level rule
applies).  Keys carry no line numbers: (function, kind, operator/callee, ordinal).
"""
from . import px as P
from .px import is_const, const, is_agg, mk_binop, TY, fmt_term
from .zone import Zone
from .models import len_term
from . import facts as F

DENY = {
    # callee (resolved or declared path) -> reason it can panic
    "http::HeaderValue::from_static": "panics on bytes outside visible ASCII",
    "core::slice::<impl [T]>::copy_from_slice": "panics on length mismatch",
    "httpdate::fmt_http_date": "panics for times before the epoch or after year 9999",
    "std::time::SystemTime::duration_since": None,  # returns Result; the expect is the site
    "std::vec::Vec::<T, A>::set_len": "unsafe: new_len must be <= capacity and initialised",
    "std::ffi::CStr::from_bytes_with_nul_unchecked": "unsafe: needs exactly one NUL, at the end",
    "http::HeaderValue::from_maybe_shared_unchecked": "unsafe: bytes must be a valid header value",
    "std::ptr::copy_nonoverlapping": "unsafe: ranges must be valid and disjoint",
}

NEVER_RETURN = ("core::panicking::panic", "core::panicking::assert_failed", "core::panicking::panic_fmt",
                "std::rt::begin_panic", "core::panicking::unreachable_display", "core::panicking::panic_explicit",
                "core::option::expect_failed", "core::result::unwrap_failed", "std::process::abort")


def _prefix_cons(o, ev):
    cc = P.Cons()
    cc.rel = list(o.cons.rel[:ev.get("nrel", len(o.cons.rel))])
    return cc


def ascii_lit(t):
    if isinstance(t, tuple) and t and t[0] in ("str", "bytes"):
        return all(ord(ch) < 128 for ch in t[1])
    return False


def boundaries(o, ev, seq, ctx=None):
    """terms known to be char boundaries of str `seq` on this path (before ev)"""
    out = [const(0), len_term(seq)]
    idx = o.events.index(ev) if ev in o.events else len(o.events)
    for e in o.events[:idx]:
        if e["k"] != "call":
            continue
        r = e.get("result")
        if isinstance(r, tuple) and r and r[0] == "found" and r[1] == seq and r[4] == "position" and ctx is not None:
            # `s.bytes().position(|b| b == b'-')`: the byte found is one the predicate accepts; if all of those are ASCII, it is
            # a whole character of the str
            from .rules.common import pred_true_set
            ts_ = pred_true_set(ctx, r[2])
            if ts_ and all(isinstance(c_, int) and c_ < 128 for c_ in ts_):
                h = ("payload", r, "Some", "0")
                out.append(h)
                out.append(mk_binop("Add", h, const(1)))
        if isinstance(r, tuple) and r and r[0] == "found" and r[1] == seq and r[4] == "str::find":
            needle = r[2]
            if is_const(needle) and isinstance(needle[1], int) and needle[1] < 128:
                h = ("payload", r, "Some", "0")
                out.append(h)
                out.append(mk_binop("Add", h, const(1)))
        # starts_with(seq, "lit") known true
        if e["callee"].get("path", "").endswith("::starts_with") and isinstance(r, tuple):
            a0 = e["snap"][0] if e["args"][0][0] == "ref" else e["args"][0]
            if isinstance(a0, tuple) and a0 and a0[0] == "slice_of":
                a0 = a0[1]
            lit = e["args"][1]
            if a0 == seq and ascii_lit(lit) and o.cons.known.get(r) == 1:
                out.append(const(len(lit[1])))
    return out


class Site:
    def __init__(self, fn, kind, op, bb, span):
        self.fn, self.kind, self.op, self.bb, self.span = fn, kind, op, bb, span
        self.paths = 0
        self.failed = []   # (reason, detail)
        self.how = set()
        self.ordinal = None

    @property
    def key(self):
        return "%s|%s|%s|#%d" % (self.fn, self.kind, self.op, self.ordinal if self.ordinal is not None else -1)


def census(ctx, outs, typelevel=None):
    """-> dict key -> Site.  typelevel(ev, o) -> reason string or None, for type-level discharges."""
    sites = {}

    def site(fn, kind, op, bb, span):
        k = (fn, kind, op, bb)
        if k not in sites:
            sites[k] = Site(fn, kind, op, bb, span)
        return sites[k]

    for o in outs:
        for ev in o.events:
            k = ev["k"]
            if k == "assert":
                s = site(ev["fn"], "assert", ev["msg"], ev["bb"], ev["span"])
                s.paths += 1
                cond = ev["cond"]
                exp = 1 if ev["expected"] else 0
                if is_const(cond):
                    if cond[1] == exp:
                        s.how.add("constant")
                    else:
                        s.failed.append(("always fails", ""))
                    continue
                z = Zone(_prefix_cons(o, ev), extra_terms=tuple(ev["ops"]))
                done = False
                if cond[0] == "ovf":
                    op, a, b = cond[1], cond[2], cond[3]
                    if op == "Sub":
                        done = z.entails("Le", b, a)
                    elif op == "Add":
                        bits = TY.get(a, TY.get(b, (64, False)))[0]
                        mx = (1 << bits) - 1
                        if a[0] == "pack" and is_const(b) and is_const(a[2]):
                            # 2h + p + c <= MAX
                            uh = z.ub(P_lin_atom(a[1])) if not is_const(a[1]) else a[1][1]
                            from .zone import lin as _lin
                            if uh is not None and not is_const(a[1]):
                                uh = uh + _lin(a[1])[1]
                            done = uh is not None and 2 * uh + a[2][1] + b[1] <= mx
                        elif is_const(b):
                            done = z.entails("Le", a, const(mx - b[1]))
                        elif is_const(a):
                            done = z.entails("Le", b, const(mx - a[1]))
                        else:
                            ua = z.ub(P_lin_atom(a))
                            ub = z.ub(P_lin_atom(b))
                            done = ua is not None and ub is not None and ua + ub <= mx
                    elif op == "Mul":
                        ua = z.ub(P_lin_atom(a)) if not is_const(a) else a[1]
                        ub = z.ub(P_lin_atom(b)) if not is_const(b) else b[1]
                        bits = TY.get(a, TY.get(b, (64, False)))[0]
                        done = ua is not None and ub is not None and ua * ub <= (1 << bits) - 1
                if not done and cond[0] == "ovf" and cond[1] == "Add" and _sum_of_lengths(cond[2], cond[3], ctx):
                    done = True
                    ctx.assume("no byte sequence is longer than 2^61 bytes (the virtual address space of every 64-bit target is at most "
                               "2^57 bytes): a sum of up to four sequence lengths and a constant below 2^32 does not overflow usize")
                    s.how.add("sum of sequence lengths (address-space bound)")
                    continue
                if done:
                    s.how.add("zone")
                else:
                    tl = typelevel(ev, o) if typelevel else None
                    if tl:
                        s.how.add(tl)
                    else:
                        s.failed.append(("not provable: %s" % ev["msg"], "ops=%s" % ", ".join(fmt_term(x)[:120] for x in ev["ops"])))
            elif k == "call":
                c = ev["callee"]
                names = ev["names"]
                if "index" in ev:
                    ix = ev["index"]
                    seq = ix["seq"]
                    kind = "str-slice" if ix["is_str"] else ("index" if "at" in ix else "slice")
                    s = site(ev["fn"], kind, ix.get("range", "at"), ev["bb"], ev["span"])
                    s.paths += 1
                    ln = len_term(seq)
                    if "at" in ix:
                        z = Zone(_prefix_cons(o, ev), extra_terms=(ix["at"], ln))
                        if z.entails("Lt", ix["at"], ln):
                            s.how.add("zone")
                        else:
                            tl = typelevel(ev, o) if typelevel else None
                            if tl:
                                s.how.add(tl)
                            else:
                                s.failed.append(("index < len not provable", "idx=%s seq=%s" % (fmt_term(ix["at"])[:100], fmt_term(seq)[:100])))
                        continue
                    st, en = ix["start"], ix["end"]
                    en_t = en if en is not None else ln
                    z = Zone(_prefix_cons(o, ev), extra_terms=(st, en_t, ln))
                    okb = z.entails("Le", st, en_t) and z.entails("Le", en_t, ln)
                    why = []
                    if not okb:
                        why.append("start <= end <= len not provable")
                    if ix["is_str"]:
                        bs = boundaries(o, ev, seq, ctx)
                        for nm, t in (("start", st), ("end", en_t)):
                            if not any(z.entails("Eq", t, b) for b in bs):
                                why.append("%s is not a known char boundary" % nm)
                    if not why:
                        s.how.add("zone")
                    else:
                        tl = typelevel(ev, o) if typelevel else None
                        if tl:
                            s.how.add(tl)
                        else:
                            s.failed.append(("; ".join(why), "start=%s end=%s" % (fmt_term(st)[:100], fmt_term(en_t)[:100])))
                    continue
                if "panic_if" in ev:
                    _, t, bad = ev["panic_if"]
                    s = site(ev["fn"], "unwrap", P_short_callee(c), ev["bb"], ev["span"])
                    s.paths += 1
                    good = {"None": "Some", "Err": "Ok"}[bad]
                    # variant known before the unwrap on this path?
                    known = None
                    if is_agg(t):
                        known = t[3]
                    else:
                        # look at the constraint log prefix
                        for entry in o.cons.log[:ev.get("ncons_before", ev["ncons"])]:
                            if entry[0] == "variant" and entry[1] == t:
                                known = entry[2]
                    if known == good:
                        s.how.add("variant known")
                    else:
                        tl = typelevel(ev, o) if typelevel else None
                        if tl:
                            s.how.add(tl)
                        else:
                            s.failed.append(("%s may be %s" % (fmt_term(t)[:140], bad), ""))
                    continue
                nr = [n for n in NEVER_RETURN if n in names]
                if nr:
                    s = site(ev["fn"], "panic-call", nr[0], ev["bb"], ev["span"])
                    s.paths += 1
                    z = Zone(_prefix_cons(o, ev))
                    if not z.feasible():
                        s.how.add("path infeasible")
                    else:
                        tl = typelevel(ev, o) if typelevel else None
                        if tl:
                            s.how.add(tl)
                        else:
                            s.failed.append(("panic call reachable", ""))
                    continue
                dn = [n for n in DENY if n in names and DENY[n]]
                if dn:
                    s = site(ev["fn"], "deny-call", dn[0], ev["bb"], ev["span"])
                    s.paths += 1
                    tl = typelevel(ev, o) if typelevel else None
                    if tl:
                        s.how.add(tl)
                    else:
                        s.failed.append((DENY[dn[0]], "args=%s" % ", ".join(fmt_term(a)[:80] for a in ev["args"])))
    # ordinals: per (fn, kind, op) ordered by bb
    groups = {}
    for (fn, kind, op, bb), s in sites.items():
        groups.setdefault((fn, kind, op), []).append(s)
    for g in groups.values():
        g.sort(key=lambda s: s.bb)
        for i, s in enumerate(g):
            s.ordinal = i
    return {s.key: s for s in sites.values()}


def _sum_of_lengths(a, b, ctx=None):
    """a + b is a sum of at most four byte-count terms (64-bit) and constants below 2^32; a byte-count term is `len(..)` of a
    sequence, or `iter.map(f).sum::<usize>()` where f itself returns such a sum (the bytes of every listed object plus a
    small constant each)"""
    lens = consts = 0
    work = [a, b]
    while work:
        x = work.pop()
        if is_const(x) and isinstance(x[1], int) and 0 <= x[1] < (1 << 32):
            consts += x[1]
        elif isinstance(x, tuple) and x and x[0] == "binop" and x[1] == "Add":
            work += [x[2], x[3]]
        elif isinstance(x, tuple) and x and x[0] == "len" and TY.get(x, (64, False))[0] == 64:
            lens += 1
        elif ctx is not None and _is_mapped_length_sum(ctx, x):
            lens += 1
        else:
            return False
    return 1 <= lens <= 4 and consts < (1 << 32)


def _is_mapped_length_sum(ctx, x):
    if not (isinstance(x, tuple) and x and x[0] == "call" and x[1].endswith("Iterator::sum") and x[2]):
        return False
    inner = x[2][0]
    while isinstance(inner, tuple) and inner and inner[0] in ("&", "refconst"):
        inner = inner[1]
    if not (isinstance(inner, tuple) and inner and inner[0] == "call" and inner[1].endswith("Iterator::map") and len(inner[2]) == 2):
        return False
    clo = inner[2][1]
    body = clo[2] if is_agg(clo) and clo[1] == "closure" else None
    if not body or body not in ctx.facts.bodies:
        return False
    try:
        outs = [o for o in ctx.px(body, inline=lambda c, d: False) if o.kind == "return"]
    except Exception:
        return False
    return bool(outs) and all(_sum_of_lengths(o.value, const(0)) for o in outs)


def P_lin_atom(t):
    from .zone import lin
    x, _ = lin(t)
    return x


def P_short_callee(c):
    p = c.get("path", "?")
    return p


def static_sites(facts, fn_names):
    """MIR-level enumeration (independent of PX) of panic-capable constructs, used as a completeness
    cross-check: every static site in an analysed function must have been visited by PX or be
    unreachable in the CFG."""
    out = []
    for nme in fn_names:
        b = facts.bodies.get(nme)
        if not b:
            continue
        for i, blk in enumerate(b["blocks"]):
            if blk["cleanup"]:
                continue
            t = blk["term"]
            if not t:
                continue
            if t["k"] == "assert":
                out.append((nme, "assert", t["msg"], i))
            elif t["k"] == "call":
                c = t["callee"]
                if "path" not in c:
                    continue
                ns = F.callee_names(c)
                if ns & {"std::ops::Index::index", "std::ops::IndexMut::index_mut", "core::slice::<impl [T]>::split_at"}:
                    out.append((nme, "index", c["path"], i))
                elif any(n.endswith("::unwrap") or n.endswith("::expect") for n in ns):
                    out.append((nme, "unwrap", c["path"], i))
                elif ns & set(NEVER_RETURN):
                    out.append((nme, "panic-call", c["path"], i))
                elif any(DENY.get(n) for n in ns):
                    out.append((nme, "deny-call", c["path"], i))
    return out
