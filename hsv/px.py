"""PX: path-sensitive abstract interpreter over the MIR fact base.

Abstract values are hash-consed *terms* (value numbers); control flow is followed
with full trace partitioning on loop-free regions and loops are summarised by
havocking every place the loop may write (fresh `loopvar` terms) and cutting the
path at the back edge.  Nothing is executed: calls are either (a) replaced by a
hand-written abstract model (hsv/models.py), (b) expanded from the callee's own
MIR (crate-local callees selected by the rule, bounded depth), or (c) left as an
uninterpreted `call` term whose `&mut` arguments are havocked.

Outputs, per path: the branch *constraints* taken, the ordered *events* (calls,
drops, asserts, field writes) and the returned term.  Rules (hsv/rules/*.py)
compare these rows against oracle tables, or ask the zone solver (hsv/zone.py)
whether the path constraints entail a numeric obligation.
"""
import sys
from . import facts as F

sys.setrecursionlimit(10000)


class PathBudgetExceeded(Exception):
    pass


class Unsupported(Exception):
    pass


# ------------------------------------------------------------------ terms

def const(v):
    return ("const", v)


def is_const(t):
    return isinstance(t, tuple) and len(t) == 2 and t[0] == "const"


UNIT = ("const", "()")
TRUE = ("const", 1)
FALSE = ("const", 0)

TY = {}  # term -> (bits, signed)  (side table, intrinsic to the term)


def agg(kind, adt, variant, fields):
    """fields: tuple of (name, term)"""
    return ("agg", kind, adt, variant, tuple(fields))


def two_valued_enums(facts):
    """{adt path: (variant0, variant1)} for crate-local enums with exactly two field-less variants"""
    cache = getattr(facts, "_flag_enums", None)
    if cache is None:
        cache = {}
        for a in getattr(facts, "adts", {}).values():
            if a.get("local") and a.get("kind") == "enum" and len(a["variants"]) == 2 and all(not v["fields"] for v in a["variants"]):
                cache[a["path"]] = tuple(v["name"] for v in a["variants"])
        try:
            facts._flag_enums = cache
        except Exception:
            pass
    return cache


def option_like_enums(facts):
    """{adt path: {variant name: "Some" | "None"}} for crate-local enums that are isomorphic to Option: exactly two variants,
    one without fields and one with exactly one field; PX represents their values as Option values (so `Option<T>` <->
    `enum { Full(T), Empty }` is not a change of what is analysed).  Enums whose variant names clash with another local
    enum's are left alone (downcast projections carry the variant name only)."""
    cache = getattr(facts, "_optlike_enums", None)
    if cache is None:
        cache = {}
        names = {}
        for a in getattr(facts, "adts", {}).values():
            if a.get("local") and a.get("kind") == "enum":
                for v in a["variants"]:
                    names.setdefault(v["name"], set()).add(a["path"])
        for a in getattr(facts, "adts", {}).values():
            if not (a.get("local") and a.get("kind") == "enum" and len(a["variants"]) == 2):
                continue
            nf = sorted(len(v["fields"]) for v in a["variants"])
            if nf != [0, 1]:
                continue
            if any(len(names[v["name"]]) > 1 or v["name"] in ("Some", "None", "Ok", "Err", "Ready", "Pending") for v in a["variants"]):
                continue
            cache[a["path"]] = {v["name"]: ("Some" if v["fields"] else "None") for v in a["variants"]}
        try:
            facts._optlike_enums = cache
        except Exception:
            pass
    return cache


def is_agg(t):
    return isinstance(t, tuple) and t and t[0] == "agg"


def agg_get(t, name):
    for k, v in t[4]:
        if k == name:
            return v
    return None


def agg_set(t, name, val):
    out = []
    found = False
    for k, v in t[4]:
        if k == name:
            out.append((k, val))
            found = True
        else:
            out.append((k, v))
    if not found:
        out.append((name, val))
    return ("agg", t[1], t[2], t[3], tuple(out))


CMP_OPS = {"Eq", "Ne", "Lt", "Le", "Gt", "Ge"}


def fold_binop(op, a, b, bits=64, signed=False):
    if is_const(a) and is_const(b) and isinstance(a[1], int) and isinstance(b[1], int):
        x, y = a[1], b[1]
        if op == "Eq":
            return const(int(x == y))
        if op == "Ne":
            return const(int(x != y))
        if op == "Lt":
            return const(int(x < y))
        if op == "Le":
            return const(int(x <= y))
        if op == "Gt":
            return const(int(x > y))
        if op == "Ge":
            return const(int(x >= y))
        if op in ("Add", "AddUnchecked"):
            return const(x + y)
        if op in ("Sub", "SubUnchecked"):
            return const(x - y)
        if op in ("Mul",):
            return const(x * y)
        if op == "BitAnd":
            return const(x & y)
        if op == "BitOr":
            return const(x | y)
        if op == "BitXor":
            return const(x ^ y)
        if op in ("Shl", "ShlUnchecked"):
            return const(x << y)
        if op in ("Shr", "ShrUnchecked"):
            return const(x >> y)
    return None


# ---- the 2h+p "pack" form used by MultipartStream.state
def pack(h, p):
    return ("pack", h, p)


def add_terms(a, b):
    """a + b with light normalisation: (t + c1) + c2 -> t + (c1+c2)"""
    f = fold_binop("Add", a, b)
    if f is not None:
        return f
    if is_const(a) and not is_const(b):
        a, b = b, a
    if is_const(b) and b[1] == 0:
        return a
    if is_const(b) and a[0] == "binop" and a[1] == "Add" and is_const(a[3]):
        return add_terms(a[2], const(a[3][1] + b[1]))
    if is_const(b) and a[0] == "binop" and a[1] == "Sub" and is_const(a[3]):
        d = b[1] - a[3][1]
        if d == 0:
            return a[2]
        if d > 0:
            return ("binop", "Add", a[2], const(d))
        return ("binop", "Sub", a[2], const(-d))
    return ("binop", "Add", a, b)


def sub_terms(a, b):
    f = fold_binop("Sub", a, b)
    if f is not None:
        return f
    if is_const(b) and b[1] == 0:
        return a
    if a == b:
        return const(0)
    if isinstance(b, tuple) and b[0] == "binop" and b[1] == "Add" and is_const(b[3]) and not is_const(b[2]) and not is_const(a):
        # a - (y + c) = (a - y) - c: keeps `a - y` as one atom with a constant offset
        return sub_terms(sub_terms(a, b[2]), b[3])
    if is_const(b):
        if a[0] == "binop" and a[1] == "Add" and is_const(a[3]):
            d = a[3][1] - b[1]
            if d == 0:
                return a[2]
            if d > 0:
                return ("binop", "Add", a[2], const(d))
            return ("binop", "Sub", a[2], const(-d))
        if a[0] == "binop" and a[1] == "Sub" and is_const(a[3]):
            return ("binop", "Sub", a[2], const(a[3][1] + b[1]))
    return ("binop", "Sub", a, b)


BOOL_TERMS = set()      # terms known to be two-valued (0 / 1): bool places, flags, comparison results


def mk_binop(op, a, b):
    f = fold_binop(op, a, b)
    if f is not None:
        return f
    # one spelling per comparison: a > b is b < a, a >= b is b <= a
    if op == "Gt":
        op, a, b = "Lt", b, a
    elif op == "Ge":
        op, a, b = "Le", b, a
    if op in ("Eq", "Ne"):
        # a - b == 0 is a == b (also in wrapping arithmetic)
        for x, c in ((a, b), (b, a)):
            if c == const(0) and isinstance(x, tuple) and x[0] == "binop" and x[1] == "Sub":
                return mk_binop(op, x[2], x[3])
        # x == 1 / x != 0 is x, x == 0 / x != 1 is !x for a two-valued x
        for x, c in ((a, b), (b, a)):
            if is_const(c) and c[1] in (0, 1) and isinstance(c[1], int) and x in BOOL_TERMS:
                return x if (op == "Eq") == (c[1] == 1) else ("unop", "Not", x)
    if op in ("Add", "AddUnchecked"):
        if a[0] == "pack" and b == const(1):
            h, p = a[1], a[2]
            if p == const(0):
                return pack(h, const(1))
            if p == const(1):
                return pack(add_terms(h, const(1)), const(0))
        return add_terms(a, b)
    if op in ("Sub", "SubUnchecked"):
        return sub_terms(a, b)
    if op in ("Shl", "ShlUnchecked") and b == const(1):
        return pack(a, const(0))
    if op in ("Shr", "ShrUnchecked") and b == const(1) and a[0] == "pack":
        return a[1]
    if op == "BitOr" and b == const(1) and a[0] == "pack" and a[2] == const(0):
        return pack(a[1], const(1))
    if op == "BitAnd" and b == const(1) and a[0] == "pack":
        return a[2]
    if op == "Rem" and b == const(2) and a[0] == "pack":
        return a[2]
    if op == "Div" and b == const(2) and a[0] == "pack":
        return a[1]
    if op in ("Mul", "MulUnchecked") and (b == const(2) or a == const(2)):
        return pack(a if b == const(2) else b, const(0))
    if op in ("Eq", "Ne") and a[0] == "pack" and b[0] == "pack":
        # (h1,p1) == (h2,p2)  with constant parities
        if is_const(a[2]) and is_const(b[2]):
            if a[2] != b[2]:
                return const(int(op == "Ne"))
            return mk_binop(op, a[1], b[1])
    if op in CMP_OPS and a == b:
        return const(int(op in ("Eq", "Le", "Ge")))
    return ("binop", op, a, b)


# ------------------------------------------------------------------ CFG helpers

def chain_sig_of(frames):
    """((caller fn, return block), ...) for a stack of frames (see PX.chain_sig)"""
    return tuple((frames[i - 1].info.name, frames[i].ret_target) for i in range(1, len(frames)))


class BodyInfo:
    """per-body CFG facts: successors (non-cleanup), natural loops and their write sets"""

    def __init__(self, body):
        self.body = body
        self.name = body["name"]
        blocks = body["blocks"]
        n = len(blocks)
        self.succ = [[] for _ in range(n)]
        for i, blk in enumerate(blocks):
            if blk["cleanup"]:
                continue
            self.succ[i] = [s for s in term_succs(blk["term"]) if not blocks[s]["cleanup"]]
        # reachable from entry
        self.reach = set()
        st = [0]
        while st:
            b = st.pop()
            if b in self.reach:
                continue
            self.reach.add(b)
            st.extend(self.succ[b])
        self.dom = self._dominators()
        # back edges u->h where h dominates u
        self.loops = {}  # header -> set(blocks)
        for u in self.reach:
            for h in self.succ[u]:
                if h in self.dom[u]:
                    blkset = self.loops.setdefault(h, {h})
                    # natural loop: nodes that reach u without passing h
                    stack = [u]
                    while stack:
                        x = stack.pop()
                        if x in blkset:
                            continue
                        blkset.add(x)
                        stack.extend(self.pred(x))
        self.loop_writes = {h: self._writes(bs) for h, bs in self.loops.items()}
        self.loop_append_only = {h: self._append_only(bs) for h, bs in self.loops.items()}

    def pred(self, x):
        if not hasattr(self, "_pred"):
            p = {}
            for u in self.reach:
                for v in self.succ[u]:
                    p.setdefault(v, []).append(u)
            self._pred = p
        return self._pred.get(x, [])

    def _dominators(self):
        nodes = sorted(self.reach)
        dom = {b: set(nodes) for b in nodes}
        dom[0] = {0}
        changed = True
        preds = {}
        for u in nodes:
            for v in self.succ[u]:
                preds.setdefault(v, []).append(u)
        while changed:
            changed = False
            for b in nodes:
                if b == 0:
                    continue
                ps = [dom[p] for p in preds.get(b, [])]
                new = set.intersection(*ps) if ps else set()
                new = new | {b}
                if new != dom[b]:
                    dom[b] = new
                    changed = True
        return dom

    def dominates(self, a, b):
        return a in self.dom.get(b, set())

    APPENDERS = ("extend_from_slice", "push", "push_str", "write_fmt", "write_all", "reserve", "extend", "put_slice", "put_u8")

    def _append_only(self, blkset):
        """byte-buffer places (Vec<u8>, String, BytesMut) that the loop touches only through `&mut place` handed as the receiver
        of an appending method: after any number of iterations such a buffer is its entry value followed by appended bytes.
        -> set of place keys (local, projection as a tuple)"""
        def pkey(pl):
            return (pl["local"], tuple((e.get("k"), e.get("name"), e.get("i")) for e in pl["proj"]))
        refs_ok, refs_bad = set(), set()
        temps = {}       # temp local -> key of the buffer place it mutably borrows (directly or by reborrowing such a temp)
        blocks = [self.body["blocks"][b] for b in sorted(blkset)]
        for _ in range(2):
            for blk in blocks:
                for st in blk["stmts"]:
                    if st["k"] != "assign" or st["place"]["proj"]:
                        continue
                    rv = st["rv"]
                    if rv["k"] in ("ref", "rawptr") and rv["mut"]:
                        src = rv["place"]
                        ty = (src.get("ty", {}) or {}).get("s", "")
                        if ty.startswith("std::vec::Vec<u8") or ty in ("std::string::String", "bytes::BytesMut"):
                            if len(src["proj"]) == 1 and src["proj"][0].get("k") == "deref" and src["local"] in temps:
                                temps[st["place"]["local"]] = temps[src["local"]]       # reborrow of a tracked temp
                            elif not any(e.get("k") == "deref" for e in src["proj"]):
                                temps[st["place"]["local"]] = pkey(src)
        used_ok = set()
        for blk in blocks:
            for st in blk["stmts"]:
                if st["k"] == "assign":
                    rv = st["rv"]
                    if rv["k"] in ("ref", "rawptr") and rv["mut"]:
                        src = rv["place"]
                        if src["local"] in temps and len(src["proj"]) == 1 and src["proj"][0].get("k") == "deref":
                            continue       # the reborrow itself
                        if st["place"]["local"] in temps and not st["place"]["proj"]:
                            continue       # the borrow itself
                        refs_bad.add(pkey(src))
                    elif not (st["place"]["local"] in temps and not st["place"]["proj"]):
                        refs_bad.add(pkey(st["place"]))      # a plain assignment to a place is not an append
                        for op in (rv.get("ops") or []) + [rv.get("op")] + [rv.get("a")] + [rv.get("b")]:
                            pl = op.get("place") if isinstance(op, dict) else None
                            if pl and pl["local"] in temps and not pl["proj"]:
                                refs_bad.add(temps[pl["local"]])      # the reference is stored somewhere
            t = blk["term"]
            if t and t["k"] == "call":
                for i, a in enumerate(t["args"]):
                    pl = a.get("place")
                    if pl and not pl["proj"] and pl["local"] in temps:
                        name = (t["callee"].get("path") or "").split("::")[-1]
                        if i == 0 and name in self.APPENDERS:
                            refs_ok.add(temps[pl["local"]])
                        else:
                            refs_bad.add(temps[pl["local"]])
        return refs_ok - refs_bad

    def _writes(self, blkset):
        """places possibly written inside the loop (as place dicts)"""
        out = []
        for b in blkset:
            blk = self.body["blocks"][b]
            for st in blk["stmts"]:
                if st["k"] == "assign":
                    out.append(st["place"])
                    rv = st["rv"]
                    if rv["k"] in ("ref", "rawptr") and rv["mut"]:
                        out.append(rv["place"])
                elif st["k"] == "setdiscr":
                    out.append(st["place"])
            t = blk["term"]
            if t and t["k"] == "call":
                out.append(t["dest"])
            if t and t["k"] == "yield":
                out.append(t["resume_arg"])
        return out


def term_succs(t):
    if not t:
        return []
    k = t["k"]
    if k == "goto":
        return [t["target"]]
    if k == "switch":
        return [b for _, b in t["targets"]] + [t["otherwise"]]
    if k in ("drop", "assert"):
        return [t["target"]]
    if k == "call":
        return [t["target"]] if t["target"] is not None else []
    if k == "yield":
        return [t["resume"]]
    return []


# ------------------------------------------------------------------ constraints

def _canon_len(seq):
    """the canonical length term of a sequence value (same form as models.len_term for sub-slices)"""
    while isinstance(seq, tuple) and seq and seq[0] in ("slice_of",):
        seq = seq[1]
    if isinstance(seq, tuple) and seq and seq[0] == "slice" and len(seq) == 4:
        end = seq[3] if seq[3] is not None else _canon_len(seq[1])
        return sub_terms(end, seq[2])
    if isinstance(seq, tuple) and seq and seq[0] in ("str", "bytes"):
        return const(len(seq[1]))
    t = ("len", seq)
    TY.setdefault(t, (64, False))
    return t


PURE_PREDICATES = {"starts_with", "ends_with", "is_empty", "contains", "eq_ignore_ascii_case", "is_char_boundary", "is_ascii",
                   "is_ascii_digit", "is_ascii_hexdigit", "is_ascii_alphabetic", "is_ascii_alphanumeric", "is_ascii_uppercase",
                   "is_ascii_lowercase", "is_ascii_whitespace", "is_ascii_graphic", "is_ascii_punctuation", "is_ascii_control"}


ASCII_RANGES = {"is_ascii_digit": (48, 57), "is_ascii_uppercase": (65, 90), "is_ascii_lowercase": (97, 122),
                "is_ascii": (0, 127), "is_ascii_graphic": (33, 126)}


class Cons:
    """branch constraints of one path"""

    def __init__(self):
        self.known = {}      # term -> int value
        self.variant = {}    # term -> variant name
        self.notvariant = {}  # term -> frozenset(names)
        self.notin = {}      # term -> frozenset(ints)
        self.rel = []        # (op, a, b) with op in Lt/Le/Eq/Ne : numeric facts
        self.log = []        # human-readable ordered list of decisions

    def copy(self):
        c = Cons.__new__(Cons)
        c.known = dict(self.known)
        c.variant = dict(self.variant)
        c.notvariant = dict(self.notvariant)
        c.notin = dict(self.notin)
        c.rel = list(self.rel)
        c.log = list(self.log)
        return c

    def set_known(self, t, v, why=None):
        """returns False if contradictory"""
        if is_const(t):
            return t[1] == v
        # strip Not
        while t[0] == "unop" and t[1] == "Not":
            t = t[2]
            v = 1 - v
        if t in self.known:
            return self.known[t] == v
        if t in self.notin and v in self.notin[t]:
            return False
        self.known[t] = v
        self.log.append(("eq", t, v))
        if v == 1 and t[0] == "call" and (t[1].endswith("::starts_with") or t[1].endswith("::ends_with")) and len(t[2]) == 2:
            # a sequence that starts with a literal is at least as long as the literal
            seq, lit = t[2][0], t[2][1]
            if isinstance(seq, tuple) and seq[0] == "&":
                seq = seq[1]
            if isinstance(lit, tuple) and lit[0] == "&":
                lit = lit[1]
            if isinstance(lit, tuple) and lit[0] in ("bytes", "str"):
                ln = _canon_len(seq)
                TY.setdefault(ln, (64, False))
                self.rel.append(("Le", const(len(lit[1])), ln))
                if t[1].endswith("::starts_with"):
                    # two literal prefixes of the same sequence must be compatible (one a prefix of the other)
                    for t2, v2 in self.known.items():
                        if v2 == 1 and t2 is not t and isinstance(t2, tuple) and t2[0] == "call" and t2[1].endswith("::starts_with") and len(t2[2]) == 2:
                            s2, l2 = t2[2][0], t2[2][1]
                            if isinstance(s2, tuple) and s2[0] == "&":
                                s2 = s2[1]
                            if isinstance(l2, tuple) and l2[0] == "&":
                                l2 = l2[1]
                            if s2 == seq and isinstance(l2, tuple) and l2[0] in ("bytes", "str"):
                                a, b = lit[1], l2[1]
                                if not (a.startswith(b) or b.startswith(a)):
                                    return False
        if v == 1 and t[0] == "call" and len(t[2]) == 1 and t[1].split("::")[-1] in ASCII_RANGES and "<impl u8>" in t[1]:
            # a byte classification that names one contiguous range: the byte lies in it
            x = t[2][0]
            if isinstance(x, tuple) and x and x[0] == "&":
                x = x[1]
            lo, hi = ASCII_RANGES[t[1].split("::")[-1]]
            TY.setdefault(x, (8, False))
            self.rel.append(("Le", const(lo), x))
            self.rel.append(("Le", x, const(hi)))
        if t[0] == "binop" and t[1] in CMP_OPS:
            op, a, b = t[1], t[2], t[3]
            if v == 0:
                op = {"Eq": "Ne", "Ne": "Eq", "Lt": "Ge", "Le": "Gt", "Gt": "Le", "Ge": "Lt"}[op]
            if op == "Gt":
                op, a, b = "Lt", b, a
            elif op == "Ge":
                op, a, b = "Le", b, a
            self.rel.append((op, a, b))
            if op == "Eq" and is_const(b) and isinstance(b[1], int):
                if not self.set_known(a, b[1]):
                    return False
            if op == "Ne" and is_const(b) and isinstance(b[1], int):
                if not self.set_notin(a, [b[1]]):
                    return False
        elif isinstance(v, int):
            self.rel.append(("Eq", t, const(v)))
        return True

    def set_notin(self, t, vals):
        if is_const(t):
            return t[1] not in vals
        if t in self.known:
            return self.known[t] not in vals
        s = set(self.notin.get(t, ())) | set(vals)
        self.notin[t] = frozenset(s)
        self.log.append(("notin", t, tuple(sorted(vals, key=str))))
        for v in vals:
            if isinstance(v, int):
                self.rel.append(("Ne", t, const(v)))
        return True

    @staticmethod
    def _upd_variant(t):
        """an enum value updated in place through a downcast (`upd(x, as(V), ..)`) is of variant V"""
        while isinstance(t, tuple) and t and t[0] == "upd" and len(t) == 4:
            if isinstance(t[2], tuple) and t[2] and t[2][0] == "as":
                return t[2][1]
            t = t[1]
        return None

    def set_variant(self, t, name):
        if is_agg(t):
            return t[3] == name
        uv = self._upd_variant(t)
        if uv is not None:
            return uv == name
        if isinstance(t, tuple) and t and t[0] == "optif" and name in ("Some", "None"):
            return self.set_known(t[1], 1 if name == "Some" else 0)
        if t in self.variant:
            return self.variant[t] == name
        if name in self.notvariant.get(t, ()):
            return False
        self.variant[t] = name
        self.log.append(("variant", t, name))
        return True

    def set_notvariant(self, t, names):
        if is_agg(t):
            return t[3] not in names
        uv = self._upd_variant(t)
        if uv is not None:
            return uv not in names
        if t in self.variant:
            return self.variant[t] not in names
        s = set(self.notvariant.get(t, ())) | set(names)
        self.notvariant[t] = frozenset(s)
        self.log.append(("notvariant", t, tuple(sorted(names))))
        return True

    def lookup(self, t):
        """fold a term to a constant if the path already decided it"""
        if is_const(t):
            return t
        u, flip = t, 0
        while u[0] == "unop" and u[1] == "Not":
            u = u[2]
            flip ^= 1
        if u in self.known:
            v = self.known[u]
            return const(v ^ flip if flip else v)
        return t

    def variant_of(self, t):
        if is_agg(t):
            return t[3]
        uv = self._upd_variant(t)
        if uv is not None:
            return uv
        if isinstance(t, tuple) and t and t[0] == "optif":
            c = self.lookup(t[1])
            return ("Some" if c[1] else "None") if is_const(c) else None
        return self.variant.get(t)


# ------------------------------------------------------------------ interpreter state

class Frame:
    __slots__ = ("info", "fid", "bb", "ret_dest", "ret_target", "open_loops", "visits", "wrap", "depth", "end_as", "end_try")

    def __init__(self, info, fid, depth):
        self.info = info
        self.fid = fid
        self.bb = 0
        self.ret_dest = None
        self.ret_target = None
        self.open_loops = frozenset()
        self.visits = {}
        self.wrap = None
        self.end_as = None
        self.end_try = None
        self.depth = depth

    def copy(self):
        f = Frame(self.info, self.fid, self.depth)
        f.bb = self.bb
        f.ret_dest = self.ret_dest
        f.ret_target = self.ret_target
        f.open_loops = self.open_loops
        f.visits = dict(self.visits)
        f.wrap = self.wrap
        f.end_as = self.end_as
        f.end_try = self.end_try
        return f


class State:
    def __init__(self):
        self.frames = []
        self.env = {}     # ("L", fid, local) / ("H", ptrterm) -> term
        self.cons = Cons()
        self.events = []
        self.trace = []   # (fn name, bb, choice)
        self.nfid = 0
        self.extra = {}   # rule scratch

    def copy(self):
        s = State.__new__(State)
        s.frames = [f.copy() for f in self.frames]
        s.env = dict(self.env)
        s.cons = self.cons.copy()
        s.events = list(self.events)
        s.trace = list(self.trace)
        s.nfid = self.nfid
        s.extra = dict(self.extra)
        return s


class Outcome:
    """end of one path"""

    def __init__(self, kind, state, value=None, where=None):
        self.kind = kind      # return | backedge | diverge | yield | unreachable
        self.state = state
        self.value = value
        self.where = where
        self.cons = state.cons
        self.events = state.events
        self.trace = state.trace


class PX:
    def __init__(self, facts, models=None, inline=None, max_paths=20000, max_depth=4,
                 on_event=None, coroutine_entry_only=True, follow_yield=False):
        self.facts = facts
        self.models = models or {}
        self.inline = inline or (lambda callee, depth: False)
        self.max_paths = max_paths
        self.max_depth = max_depth
        self.on_event = on_event
        self.infos = {}
        self.outcomes = []
        self.coroutine_entry_only = coroutine_entry_only
        self.follow_yield = follow_yield
        self.steps = 0
        self.forks = 0
        self.unsupported = []
        # crate-local enums with exactly two field-less variants are two-valued flags: their values are represented as the
        # integers 0 / 1 (declaration order), like bool, so that `bool` <-> `enum { A, B }` is not a change of what is analysed
        self.flag_enums = two_valued_enums(facts)
        self.optlike = option_like_enums(facts)
        self.optlike_names = {}
        for adt_, m_ in self.optlike.items():
            self.optlike_names.update(m_)

    def info(self, name):
        if name not in self.infos:
            b = self.facts.bodies.get(name)
            if b is None:
                return None
            self.infos[name] = BodyInfo(b)
        return self.infos[name]

    # ---------------------------------------------------------------- running
    def run(self, name, args=None, setup=None):
        """explore all paths of body `name`.  args: list of terms for _1.._n (default: ("param", i)).
        setup(state, px): may pre-populate heap objects / constraints."""
        info = self.info(name)
        if info is None:
            raise KeyError(name)
        st = State()
        fr = Frame(info, 0, 0)
        st.nfid = 1
        st.frames.append(fr)
        n = info.body["arg_count"]
        for i in range(1, n + 1):
            t = args[i - 1] if args and i - 1 < len(args) and args[i - 1] is not None else ("param", i)
            st.env[("L", 0, i)] = t
        if setup:
            setup(st, self)
        self.outcomes = []
        work = [st]
        while work:
            s = work.pop()
            self._run_path(s, work)
            if len(self.outcomes) + len(work) > self.max_paths:
                raise PathBudgetExceeded("%s: more than %d paths" % (name, self.max_paths))
        return self.outcomes

    def _end(self, kind, st, value=None, where=None):
        self.outcomes.append(Outcome(kind, st, value, where))

    def _run_path(self, st, work):
        while True:
            fr = st.frames[-1]
            info = fr.info
            bb = fr.bb
            blk = info.body["blocks"][bb]
            self.steps += 1
            # loop header handling
            if bb in info.loops:
                if bb in fr.open_loops:
                    self._end("backedge", st, where=(info.name, bb))
                    return
                fr.open_loops = fr.open_loops | {bb}
                self._havoc_loop(st, fr, bb)
            fr.visits[bb] = fr.visits.get(bb, 0) + 1
            for si, stmt in enumerate(blk["stmts"]):
                self._stmt(st, fr, stmt, bb, si)
            t = blk["term"]
            k = t["k"]
            if k == "goto":
                fr.bb = t["target"]
            elif k == "switch":
                nxt = self._switch(st, fr, t, work)
                if nxt is None:
                    return
                fr.bb = nxt
            elif k == "return":
                val = self.read_local(st, fr, 0)
                if fr.wrap is not None:
                    val = fr.wrap(val)
                    if isinstance(val, tuple) and val and val[0] == "optif":
                        # Some(x) if the condition holds, None otherwise: split the path on the condition
                        s2 = st.copy()
                        if s2.cons.set_known(val[1], 0):
                            s2.frames[-1].wrap = (lambda _v: agg("adt", "std::option::Option", "None", ()))
                            work.append(s2)
                        if not st.cons.set_known(val[1], 1):
                            self._end("infeasible", st)
                            return
                        val = val[3] if len(val) > 3 else agg("adt", "std::option::Option", "Some", (("0", val[2]),))
                if len(st.frames) == 1:
                    self._end("return", st, value=val)
                    return
                if fr.end_as is not None:
                    # the body of a summarised iteration (e.g. the closure of Iterator::fold): one turn ends here
                    if fr.end_try is None:
                        self._end("backedge", st, value=val, where=fr.end_as)
                        return
                    # try_fold: a "continue" result (Some / Ok / Continue) ends the turn with the new accumulator; a residual
                    # (None / Err / Break) is what the whole try_fold returns
                    good, bad = fr.end_try
                    var = st.cons.variant_of(val)
                    if var == good:
                        self._end("backedge", st, value=(agg_get(val, "0") if is_agg(val) else ("payload", val, good, "0")), where=fr.end_as)
                        return
                    if var is None:
                        s2 = st.copy()
                        if s2.cons.set_variant(val, good):
                            self._end("backedge", s2, value=("payload", val, good, "0"), where=fr.end_as)
                        if not st.cons.set_variant(val, bad):
                            self._end("infeasible", st)
                            return
                    elif var != bad:
                        raise Unsupported("try_fold step returned variant %s in %s" % (var, info.name))
                st.frames.pop()
                caller = st.frames[-1]
                self.emit(st, {"k": "inline_ret", "fn": info.name, "value": val})
                self.write_place(st, caller, fr.ret_dest, val)
                if fr.ret_target is None:
                    self._end("diverge", st)
                    return
                caller.bb = fr.ret_target
            elif k == "unreachable":
                self._end("unreachable", st, where=(info.name, bb))
                return
            elif k == "drop":
                v = self.read_place(st, fr, t["place"])
                self.emit(st, {"k": "drop", "fn": info.name, "bb": bb, "place": t["place"], "ty": t["place"]["ty"]["s"],
                               "value": v, "span": t["span"], "root": self.resolve_place(st, fr, t["place"])})
                fr.bb = t["target"]
            elif k == "assert":
                ok = self._assert(st, fr, t, bb)
                if not ok:
                    self._end("infeasible", st)
                    return
                fr.bb = t["target"]
            elif k == "call":
                r = self._call(st, fr, t, bb, work)
                if r == "end":
                    return
            elif k == "yield":
                val = self.eval_op(st, fr, t["value"])
                self.emit(st, {"k": "yield", "fn": info.name, "bb": bb, "value": val, "span": t["span"]})
                if self.follow_yield:
                    self.write_place(st, fr, t["resume_arg"], ("resume", info.name, bb))
                    fr.bb = t["resume"]
                else:
                    self._end("yield", st, value=val, where=(info.name, bb))
                    return
            elif k in ("resume", "terminate", "coroutine_drop"):
                self._end("diverge", st)
                return
            else:
                raise Unsupported("terminator %s in %s" % (k, info.name))

    # ---------------------------------------------------------------- events
    def emit(self, st, ev):
        ev["ncons"] = len(st.cons.log)
        ev["nrel"] = len(st.cons.rel)
        st.events.append(ev)
        if self.on_event:
            self.on_event(st, ev)

    # ---------------------------------------------------------------- places
    def resolve_place(self, st, fr, place):
        """-> (rootkey, path tuple)"""
        root = ("L", fr.fid, place["local"])
        path = ()
        for e in place["proj"]:
            k = e["k"]
            if k == "deref":
                v = self._read(st, root, path)
                if isinstance(v, tuple) and v and v[0] == "ref":
                    root, path = v[1], v[2]
                elif is_agg(v) and v[1] in ("closure", "coroutine"):
                    # a closure body expanded by a combinator model receives its environment by value where the MIR
                    # signature says `&mut {closure}`: dereferencing it is the identity
                    pass
                else:
                    root, path = ("H", v), ()
            elif k == "field":
                path = path + (("f", e["name"]),)
            elif k == "downcast":
                path = path + (("as", self.optlike_names.get(e["variant"], e["variant"])),)
            elif k == "index":
                idx = self.read_local(st, fr, e["local"])
                path = path + (("idx", idx),)
            elif k == "constindex":
                path = path + (("cidx", e["offset"], e["from_end"], (e["min_length"] if e["from_end"] else 0)),)
            elif k == "subslice":
                path = path + (("subslice", e["from"], e["to"], e["from_end"]),)
            else:
                path = path + ((k,),)
        return root, path

    def _root_value(self, st, root):
        if root in st.env:
            return st.env[root]
        if root[0] == "H":
            p = root[1]
            if isinstance(p, tuple) and p and p[0] == "slice_of":
                return p[1]
            if isinstance(p, tuple) and p and p[0] in ("bytes", "str"):
                return p
            if isinstance(p, tuple) and p and p[0] == "refconst":
                return p[1]
            if isinstance(p, tuple) and p and p[0] == "static":
                c = self.facts.consts.get(p[1]) if hasattr(self, "facts") else None
                if c and "int" in c:
                    return const(c["int"])
            return ("deref", p)
        return ("uninit", root)

    def _read(self, st, root, path):
        v = self._root_value(st, root)
        for e in path:
            v = self.project(st, v, e)
        return v

    def project(self, st, v, e):
        k = e[0]
        if k == "f":
            name = e[1]
            if is_agg(v):
                r = agg_get(v, name)
                if r is not None:
                    return r
                return ("field", v, name)
            if v[0] == "as":
                inner, var = v[1], v[2]
                if is_agg(inner):
                    if inner[3] == var:
                        r = agg_get(inner, name)
                        if r is not None:
                            return r
                    return ("payload", inner, var, name)
                if inner[0] == "optif" and var == "Some" and name == "0":
                    return inner[2]
                return ("payload", inner, var, name)
            if v[0] == "upd":
                if v[2] == e:
                    return v[3]
                return self.project(st, v[1], e)
            return ("field", v, name)
        if k == "as":
            if is_agg(v) and v[3] == e[1]:
                return v
            if v[0] == "upd":
                if v[2] == e:
                    return v[3]
                if v[2][0] != "as":
                    return self.project(st, v[1], e)
            return ("as", v, e[1])
        if v[0] == "upd":
            if v[2] == e:
                return v[3]
        if v[0] in ("bytes", "str") and k == "cidx":
            i = e[1] if not e[2] else len(v[1]) - e[1]
            if 0 <= i < len(v[1]):
                return const(ord(v[1][i]))
        if v[0] in ("bytes", "str") and k == "subslice":
            return (v[0], v[1][e[1]:(len(v[1]) - e[2]) if e[3] else e[2]])
        if k == "subslice" and e[3] and e[2] == 0:
            # `[a, b, rest @ ..]`: the rest after the first e[1] elements is the same value as indexing with `e[1]..`
            if v[0] == "slice" and len(v) == 4:
                return ("slice", v[1], add_terms(v[2], const(e[1])), v[3])
            return ("slice", v, const(e[1]), None)
        return ("proj", v, e)

    def _set_in(self, v, path, val):
        if not path:
            return val
        e = path[0]
        if e[0] == "f":
            if is_agg(v):
                cur = agg_get(v, e[1])
                if cur is None:
                    cur = ("field", v, e[1])
                return agg_set(v, e[1], self._set_in(cur, path[1:], val))
            cur = self.project(None, v, e)
            return ("upd", v, e, self._set_in(cur, path[1:], val))
        if e[0] == "as":
            # writing a field of a variant: keep as update on the downcast view
            cur = self.project(None, v, e)
            if is_agg(v) and v[3] == e[1]:
                return self._set_in(v, path[1:], val)
            return ("upd", v, e, self._set_in(cur, path[1:], val))
        cur = self.project(None, v, e)
        return ("upd", v, e, self._set_in(cur, path[1:], val))

    def _write(self, st, root, path, val):
        if not path:
            st.env[root] = val
        else:
            st.env[root] = self._set_in(self._root_value(st, root), path, val)

    def read_place(self, st, fr, place):
        root, path = self.resolve_place(st, fr, place)
        v = self._read(st, root, path)
        return v

    def write_place(self, st, fr, place, val):
        root, path = self.resolve_place(st, fr, place)
        ty = place["ty"]
        if ty.get("k") == "int" and not is_const(val):
            TY.setdefault(val, (ty["bits"], ty["signed"]))
        if root[0] == "H" or (path and root[0] == "L"):
            # a write through a pointer or into a field: rules may want to see it
            if root[0] == "H":
                self.emit(st, {"k": "write", "fn": fr.info.name, "bb": fr.bb, "root": root, "path": path,
                               "value": val, "place": place})
        self._write(st, root, path, val)

    def read_local(self, st, fr, local):
        return self._root_value(st, ("L", fr.fid, local))

    # ---------------------------------------------------------------- operands / rvalues
    def eval_op(self, st, fr, o):
        k = o["k"]
        if k in ("copy", "move"):
            v = self.read_place(st, fr, o["place"])
            ty = o["place"]["ty"]
            if ty.get("k") == "int" and not is_const(v):
                TY.setdefault(v, (ty["bits"], ty["signed"]))
            elif ty.get("k") == "bool" and not is_const(v):
                self.mark_bool(v)
            return st.cons.lookup(v)
        if k == "const":
            return self.eval_const(fr, o)
        return ("opaque_operand", k)

    def eval_const(self, fr, o):
        if "int" in o and o.get("ty", {}).get("k") == "adt":
            # a constant of a scalar newtype (`const START: State = State(0)`): the record around the scalar
            a = self.facts.adts.get(o["ty"].get("adt"))
            if a and a.get("local") and a["kind"] == "struct" and len(a["variants"][0]["fields"]) == 1:
                return agg("adt", a["path"], None, ((a["variants"][0]["fields"][0]["name"], const(o["int"])),))
        if "int" in o:
            return const(o["int"])
        if "int_s" in o:
            return const(int(o["int_s"]))
        if "bool" in o:
            return const(int(o["bool"]))
        if "char" in o:
            return const(o["char"])
        if "str" in o:
            return ("str", o["str"])
        if "bytes" in o:
            return ("bytes", o["bytes"])
        if "fn" in o:
            return ("fn", o["fn"], o.get("fn_full"))
        if "array_ints" in o:
            # a constant array of scalars (also when it is a named const): the array value
            return agg("array", None, None, tuple((str(i), const(x)) for i, x in enumerate(o["array_ints"])))
        if "named" in o:
            # a named constant the driver could not decode to a scalar / string / array, but whose initializer is a
            # straight-line constructor call with a single-valued model (`HeaderValue::from_static("gzip")`): that value
            b = self.facts.bodies.get(o["named"])
            if b is not None and b.get("kind") == "promoted":
                v = self.promoted_value(o["named"])
                if v is not None:
                    return v
            return ("named", o["named"])
        if "promoted" in o:
            pname = "%s::promoted[%d]" % (o["promoted_of"], o["promoted"])
            v = self.promoted_value(pname)
            if v is not None:
                return v
            return ("promoted", pname)
        if o.get("zst"):
            return ("zst", o["ty"]["s"])
        if "static" in o:
            return ("static", o["static"])
        return ("constval", o["ty"]["s"])

    def promoted_value(self, pname):
        """evaluate a promoted body (straight-line) to the term its _0 denotes"""
        b = self.facts.bodies.get(pname)
        if b is None:
            return None
        cache = self.__dict__.setdefault("_promo", {})
        if pname in cache:
            return cache[pname]
        st = State()
        info = BodyInfo(b)
        fr = Frame(info, 0, 0)
        st.frames.append(fr)
        try:
            bb = 0
            for _ in range(8):
                blk = b["blocks"][bb]
                for si, stmt in enumerate(blk["stmts"]):
                    self._stmt(st, fr, stmt, bb, si)
                t = blk["term"]
                if t["k"] == "return":
                    break
                if t["k"] == "goto":
                    bb = t["target"]
                    continue
                if t["k"] == "call" and t.get("target") is not None:
                    # a const-evaluable constructor call (e.g. `1..=9` is RangeInclusive::new(1, 9)): use its model when the
                    # model gives a single value
                    c = t["callee"]
                    model = self.models.get(c.get("res_path")) or self.models.get(c.get("path"))
                    args = [self.eval_op(st, fr, a) for a in t["args"]]
                    ev = {"k": "call", "fn": pname, "bb": bb, "callee": c, "names": set(), "args": args, "snap": [None] * len(args),
                          "span": t.get("span"), "uid": (pname, bb, 1, 0), "dest": t["dest"], "argops": t["args"]}
                    res = model(self, st, fr, ev) if model else None
                    if isinstance(res, dict) and "value" in res and "assume" not in res:
                        self.write_place(st, fr, t["dest"], res["value"])
                        bb = t["target"]
                        continue
                cache[pname] = None
                return None
            v = self.read_local(st, fr, 0)
            # a promoted is `&value`: represent as a ref to a pseudo-static holding the value
            # (references nested in the value point into the promoted's own frame: resolve them now)
            def resolve(t, d=0):
                if not isinstance(t, tuple) or not t or d > 6:
                    return t
                if t[0] == "ref":
                    return ("refconst", resolve(self._read(st, t[1], t[2]), d + 1))
                if t[0] == "agg":
                    return ("agg", t[1], t[2], t[3], tuple((n, resolve(x, d + 1)) for n, x in t[4]))
                return t
            v = resolve(v)
            cache[pname] = v
            return v
        except Exception:
            cache[pname] = None
            return None

    def _stmt(self, st, fr, stmt, bb, si):
        k = stmt["k"]
        if k == "assign":
            val = self.eval_rv(st, fr, stmt["rv"], bb, si, stmt)
            self.write_place(st, fr, stmt["place"], val)
        elif k == "setdiscr":
            cur = self.read_place(st, fr, stmt["place"])
            self.write_place(st, fr, stmt["place"], ("setdiscr", cur, self.optlike_names.get(stmt["variant"], stmt["variant"])))

    def eval_rv(self, st, fr, rv, bb, si, stmt=None):
        k = rv["k"]
        if k == "use":
            return self.eval_op(st, fr, rv["op"])
        if k in ("ref", "rawptr"):
            root, path = self.resolve_place(st, fr, rv["place"])
            return ("ref", root, path, bool(rv["mut"]))
        if k == "binop":
            a = self.eval_op(st, fr, rv["a"])
            b = self.eval_op(st, fr, rv["b"])
            op = rv["op"]
            if op.endswith("WithOverflow"):
                base = op[:-len("WithOverflow")]
                r = mk_binop(base, a, b)
                return agg("tuple", None, None, (("0", r), ("1", ("ovf", base, a, b))))
            if op == "Offset":
                return ("binop", op, a, b)
            r = mk_binop(op, a, b)
            return st.cons.lookup(r)
        if k == "unop":
            a = self.eval_op(st, fr, rv["a"])
            op = rv["op"]
            if op == "Not" and is_const(a) and a[1] in (0, 1):
                return const(1 - a[1])
            if op == "Not" and a[0] == "unop" and a[1] == "Not":
                return a[2]
            if op == "PtrMetadata":
                # length of a slice reference
                return self.len_of(st, a)
            return st.cons.lookup(("unop", op, a))
        if k == "cast":
            a = self.eval_op(st, fr, rv["op"])
            kind = rv["kind"]
            if kind.startswith("IntToInt"):
                src = rv["op"].get("place", {}).get("ty") or rv["op"].get("ty") or {}
                dst = rv["ty"]
                if src.get("k") == "int" and dst.get("k") == "int":
                    if dst["bits"] > src["bits"] and not src["signed"]:
                        return a  # lossless widening of an unsigned value
                    if dst["bits"] == src["bits"] and dst["signed"] == src["signed"]:
                        return a
                    if dst["bits"] >= src["bits"] and not src["signed"] and not dst["signed"]:
                        return a
                if src.get("k") == "int" and dst.get("k") == "int" and src["signed"] and not dst["signed"] and dst["bits"] >= src["bits"] \
                        and st.cons.known.get(("binop", "Lt", a, const(0))) == 0:
                    # a signed value the path knows to be non-negative keeps its value when reinterpreted as unsigned
                    if isinstance(a, tuple) and a[0] == "call" and a[1] in ("libc::pread", "libc::read") and len(a[2]) >= 3:
                        # POSIX: a non-negative result of read/pread is at most the requested count (path-local fact)
                        TY.setdefault(a, (64, False))
                        st.cons.rel.append(("Le", a, a[2][2]))
                    return a
                if is_const(a) and dst.get("k") == "int" and isinstance(a[1], int):
                    bits = dst["bits"]
                    v = a[1] & ((1 << bits) - 1)
                    if dst["signed"] and v >= (1 << (bits - 1)):
                        v -= 1 << bits
                    return const(v)
                return ("cast", a, dst.get("s"))
            if kind.startswith("PointerCoercion") or kind.startswith("PtrToPtr") or kind.startswith("Transmute"):
                # unsizing etc.: keep the value (a &[T;N] -> &[T] keeps pointing to the same thing)
                return a
            return ("cast", a, rv["ty"].get("s"))
        if k == "discr":
            v = self.read_place(st, fr, rv["place"])
            return self.discr_of(st, v, rv.get("adt"))
        if k == "aggregate":
            ops = [self.eval_op(st, fr, o) for o in rv["ops"]]
            a = rv["agg"]
            if a == "adt" and rv["adt"] in self.flag_enums:
                v = const(self.flag_enums[rv["adt"]].index(rv["variant"]))
                return v
            if a == "adt" and rv["adt"] in self.optlike:
                vn = self.optlike[rv["adt"]][rv["variant"]]
                return agg("adt", "std::option::Option", vn, (("0", ops[0]),) if vn == "Some" else ())
            if a == "adt":
                names = rv.get("fields") or [str(i) for i in range(len(ops))]
                if len(names) != len(ops):
                    names = [str(i) for i in range(len(ops))]
                # eta-reduction: S { f1: x.f1, .., fn: x.fn } (every field, in order, of one struct value x) is x itself
                if ops and all(isinstance(o, tuple) and o and o[0] == "field" and o[2] == n for n, o in zip(names, ops)) \
                        and len({o[1] for o in ops}) == 1 and len(self.facts.adts.get(rv["adt"], {}).get("variants", [])) == 1:
                    return ops[0][1]
                return agg("adt", rv["adt"], rv["variant"], tuple(zip(names, ops)))
            if a in ("closure", "coroutine"):
                names = rv.get("fields") or []
                if len(names) != len(ops):
                    names = [str(i) for i in range(len(ops))]
                return agg(a, rv["def"], None, tuple(zip(names, ops)))
            if a == "tuple":
                return agg("tuple", None, None, tuple((str(i), o) for i, o in enumerate(ops)))
            if a == "array":
                return agg("array", None, None, tuple((str(i), o) for i, o in enumerate(ops)))
            return ("aggregate", a, tuple(ops))
        if k == "repeat":
            return ("repeat", self.eval_op(st, fr, rv["op"]), rv.get("count"))
        return ("rv", k, rv.get("dbg"))

    def len_of(self, st, ref):
        """term for the length of the slice/str a reference denotes"""
        if ref[0] == "bytes" or ref[0] == "str":
            return const(len(ref[1]))
        if ref[0] == "refconst" and ref[1][0] in ("bytes", "str"):
            return const(len(ref[1][1]))
        # the same canonical length term the sequence models use (len of the sequence value the reference denotes)
        v = ref
        for _ in range(3):
            if isinstance(v, tuple) and v and v[0] == "ref":
                v = self._read(st, v[1], v[2])
            elif isinstance(v, tuple) and v and v[0] == "refconst":
                v = v[1]
            else:
                break
        if isinstance(v, tuple) and v and v[0] == "slice_of":
            v = v[1]
        if v is not ref and isinstance(v, tuple) and v:
            from .models import len_term
            return len_term(v)
        if isinstance(ref, tuple) and ref and ref[0] in ("field", "param", "payload", "loopvar", "call"):
            # an opaque reference value: the sequence is its pointee, as everywhere else
            from .models import len_term
            return len_term(("deref", ref))
        return ("len", ref)

    def discr_of(self, st, v, adt):
        if adt in self.flag_enums:
            if v[0] == "setdiscr":
                return const(self.flag_enums[adt].index(v[2]))
            if not is_const(v):
                self.mark_bool(v)
            return v        # a two-valued flag is its own discriminant
        if v[0] == "optif":
            # Some(x) if the condition holds, None otherwise (Option::filter / bool::then_some on a symbolic condition):
            # Option's discriminants are None = 0, Some = 1, i.e. the condition itself
            c = st.cons.lookup(v[1])
            if not is_const(c):
                self.mark_bool(c)
            return c
        if v[0] == "setdiscr":
            vn = v[2]
        else:
            vn = st.cons.variant_of(v)
        if vn is not None and adt and adt in self.facts.adts:
            alias = self.optlike.get(adt, {})
            for var in self.facts.adts[adt]["variants"]:
                if alias.get(var["name"], var["name"]) == vn and var["discr"] is not None:
                    return const(var["discr"])
        return ("discr", v, adt)

    # ---------------------------------------------------------------- branching
    def _switch(self, st, fr, t, work):
        d = self.eval_op(st, fr, t["discr"])
        d = st.cons.lookup(d)
        targets = t["targets"]
        if is_const(d):
            for v, b in targets:
                if int(v) == d[1]:
                    return b
            return t["otherwise"]
        info = fr.info
        choices = []  # (label, target, apply(cons)->bool)
        vals = [int(v) for v, _ in targets]
        if d[0] == "discr":
            v, adt = d[1], d[2]
            names = {}
            if adt and adt in self.facts.adts:
                alias = self.optlike.get(adt, {})
                for var in self.facts.adts[adt]["variants"]:
                    if var["discr"] is not None:
                        names[var["discr"]] = alias.get(var["name"], var["name"])
            if adt is None and self.coroutine_entry_only and info.body["kind"] in ("closure",) and \
                    fr.bb == 0 and t["discr"]["k"] in ("copy", "move"):
                # coroutine state dispatch: analyse the unresumed entry state only
                for vv, b in targets:
                    if int(vv) == 0:
                        st.trace.append((info.name, fr.bb, "coroutine-entry"))
                        return b
            allnames = set(names.values())
            listed = []
            for vv, b in targets:
                nm = names.get(int(vv), "#%s" % vv)
                listed.append(nm)
                choices.append((nm, b, (lambda c, v=v, nm=nm: c.set_variant(v, nm))))
            rest = allnames - set(listed)
            rest_live = rest - set(st.cons.notvariant.get(v, ()))     # variants the path has not excluded already
            if names and rest and len(rest_live) == 1:
                rest = rest_live
            if not names or rest:
                if len(rest) == 1:
                    only = next(iter(rest))
                    choices.append((only, t["otherwise"], (lambda c, v=v, only=only: c.set_variant(v, only))))
                else:
                    choices.append(("otherwise", t["otherwise"],
                                    (lambda c, v=v, listed=tuple(listed): c.set_notvariant(v, listed))))
        else:
            for vv, b in targets:
                choices.append((vv, b, (lambda c, d=d, vv=int(vv): c.set_known(d, vv))))
            isbool = (len(vals) == 1 and vals[0] in (0, 1) and self._is_boolish(d))
            if isbool:
                other = 1 - vals[0]
                choices.append((other, t["otherwise"], (lambda c, d=d, other=other: c.set_known(d, other))))
            else:
                choices.append(("otherwise", t["otherwise"], (lambda c, d=d, vals=tuple(vals): c.set_notin(d, vals))))
        feasible = []
        for label, b, ap in choices:
            if fr.info.body["blocks"][b]["cleanup"]:
                continue
            feasible.append((label, b, ap))
        first = None
        for i, (label, b, ap) in enumerate(feasible):
            s2 = st.copy() if i < len(feasible) - 1 else st
            ok = ap(s2.cons)
            if not ok:
                continue
            if self.zone_check and not self.zone_check(s2.cons):
                continue
            s2.trace.append((info.name, fr.bb, label))
            s2.frames[-1].bb = b
            if s2 is st:
                first = b
            else:
                self.forks += 1
                work.append(s2)
        if first is None:
            # the in-place state was infeasible; stop this path
            self._end("infeasible", st, where=(info.name, fr.bb))
            return None
        return first

    zone_check = None  # optional feasibility oracle (set by rules that want pruning)
    loop_assume = None  # optional callback(px, state, frame, header): assume a loop invariant on the havocked places

    def _is_boolish(self, d):
        if d in self.__dict__.get("_bool_terms", ()):
            return True
        if d[0] == "eq":
            return True
        if d[0] == "binop" and d[1] in CMP_OPS:
            return True
        if d[0] == "unop" and d[1] == "Not":
            return True
        if d[0] in ("ovf", "isvariant", "boolcall"):
            return True
        if d[0] == "call" and d[-1] == "bool":
            return True
        return TY.get(d) is None and d[0] in ("call", "loopvar", "field", "payload", "deref", "param", "havoc") and \
            self.__dict__.get("_bool_terms", set()).__contains__(d)

    def mark_bool(self, t):
        self.__dict__.setdefault("_bool_terms", set()).add(t)
        BOOL_TERMS.add(t)

    # ---------------------------------------------------------------- asserts
    def _assert(self, st, fr, t, bb):
        cond = self.eval_op(st, fr, t["cond"])
        ops = [self.eval_op(st, fr, o) for o in t["ops"]]
        ev = {"k": "assert", "fn": fr.info.name, "bb": bb, "msg": t["msg"], "cond": cond, "ops": ops,
              "expected": t["expected"], "span": t["span"], "cons": st.cons.copy()}
        self.emit(st, ev)
        exp = 1 if t["expected"] else 0
        if is_const(cond):
            return cond[1] == exp
        # continuing path: the check passed
        if cond[0] == "ovf":
            op, a, b = cond[1], cond[2], cond[3]
            if op == "Sub":
                st.cons.rel.append(("Le", b, a))
            elif op == "Add":
                bits = TY.get(a, TY.get(b, (64, False)))[0]
                st.cons.rel.append(("Le", ("binop", "Add", a, b) if not is_const(mk_binop("Add", a, b)) else mk_binop("Add", a, b),
                                    const((1 << bits) - 1)))
                st.cons.rel.append(("NoOvfAdd", a, b))
            st.cons.known[cond] = 0
            return True
        return st.cons.set_known(cond, exp)

    # ---------------------------------------------------------------- loops
    def _havoc_loop(self, st, fr, header):
        info = fr.info
        n = fr.visits.get(header, 0)
        seen = set()
        for place in info.loop_writes[header]:
            try:
                root, path = self.resolve_place(st, fr, place)
            except Exception:
                continue
            if root[0] == "L" and root[1] != fr.fid:
                pass
            key = (root, path)
            if key in seen:
                continue
            seen.add(key)
            # do not havoc pure temporaries that are dead at the header: harmless either way
            old = self._read(st, root, path)
            sig = self.chain_sig(st)
            nv = ("loopvar", info.name, header, self._place_key(root, path), n) + ((sig,) if sig else ())
            pk = (place["local"], tuple((e.get("k"), e.get("name"), e.get("i")) for e in place["proj"]))
            if pk in info.loop_append_only.get(header, ()) and isinstance(old, tuple) and old and old[0] in ("appended", "newbuf", "reserved"):
                # an append-only byte buffer: its entry contents followed by whatever the iterations appended
                lev0 = st.extra.setdefault("loop_entry_values", {})
                lev0[(info.name, header, self._place_key(root, path))] = old
                self._write(st, root, path, ("appended", old, ("slice", nv)))
                continue
            if place["ty"].get("k") == "int":
                TY[nv] = (place["ty"]["bits"], place["ty"]["signed"])
            if place["ty"].get("k") == "bool":
                self.mark_bool(nv)
            lev = st.extra.setdefault("loop_entry_values", {})
            lev[(info.name, header, self._place_key(root, path))] = old
            if sig:
                lev[(info.name, header, self._place_key(root, path), sig)] = old
            self._write(st, root, path, nv)
        self.emit(st, {"k": "loop_enter", "fn": info.name, "bb": header, "sig": self.chain_sig(st)})
        if self.loop_assume:
            self.loop_assume(self, st, fr, header)

    def chain_sig(self, st):
        """the static call chain of the current frame: ((caller fn, return block), ...) - empty in the root frame.  It tells
        apart the instances of a loop in a helper that is expanded at several call sites (frame ids are path-dependent)."""
        out = []
        for i in range(1, len(st.frames)):
            out.append((st.frames[i - 1].info.name, st.frames[i].ret_target))
        return tuple(out)

    def _place_key(self, root, path):
        if root[0] == "L":
            return ("L", root[2], path)
        return ("H", root[1], path)

    # ---------------------------------------------------------------- calls
    def _call(self, st, fr, t, bb, work):
        c = t["callee"]
        info = fr.info
        args = [self.eval_op(st, fr, a) for a in t["args"]]
        uid = (info.name, bb, fr.visits.get(bb, 1), fr.fid)
        if "indirect" in c:
            f = self.eval_op(st, fr, c["indirect"])
            for _ in range(3):
                if isinstance(f, tuple) and f and f[0] == "ref":
                    f = self._read(st, f[1], f[2])
                elif isinstance(f, tuple) and f and f[0] == "refconst":
                    f = f[1]
                else:
                    break
            if isinstance(f, tuple) and f and f[0] == "fn":
                # a call through a fn pointer whose value is a known fn item: the same as calling that item
                name = f[1]
                c = {"path": name, "res_path": name, "full": f[2] or name, "res_full": f[2] or name,
                     "res_local": name in self.facts.bodies, "via_fn_pointer": True}
                names = {name}
            else:
                name = "<indirect>"
                names = {name}
                c = {"path": name, "full": name, "indirect_term": f}
        else:
            name = c.get("res_path") or c["path"]
            names = F.callee_names(c)
        snap = []
        for a in args:
            if isinstance(a, tuple) and a and a[0] == "ref":
                snap.append(self._read(st, a[1], a[2]))
            elif isinstance(a, tuple) and a and a[0] == "refconst":
                snap.append(a[1])
            else:
                snap.append(None)
        ev = {"k": "call", "fn": info.name, "bb": bb, "callee": c, "names": names, "args": args, "snap": snap,
              "span": t["span"], "uid": uid, "dest": t["dest"], "argops": t["args"]}
        # 1. model
        model = None
        for nm in (c.get("res_path"), c.get("path")):
            if nm and nm in self.models:
                model = self.models[nm]
                break
        if model is not None:
            res = model(self, st, fr, ev)
            if res is not None:
                ev["modelled"] = True
                return self._apply_model(st, fr, t, ev, res, work)
        # 2. inline crate-local callee
        target = c.get("res_path") if c.get("res_local") else None
        if target and target in self.facts.bodies and len(st.frames) <= self.max_depth and \
                self.inline(c, len(st.frames)):
            ev["inlined"] = True
            self.emit(st, ev)
            self._push_frame(st, target, args, t["dest"], t["target"])
            return "cont"
        # 3. opaque
        cargs = []
        for a, sn in zip(args, snap):
            if isinstance(a, tuple) and a and a[0] == "ref" and sn is not None:
                cargs.append(("&", sn))
            elif isinstance(a, tuple) and a and a[0] == "refconst":
                cargs.append(("&", a[1]))
            else:
                cargs.append(a)
        # a pure predicate of immutable values (the arguments are value snapshots): the same question asked twice is one term
        pure = rt_bool = t["dest"]["ty"].get("k") == "bool"
        pure = rt_bool and name.split("::")[-1] in PURE_PREDICATES and (name.startswith("core::str::<impl str>::") or
                                                                       name.startswith("core::slice::<impl [T]>::") or "<impl u8>::" in name or "<impl char>::" in name)
        res = ("call", name, tuple(cargs), None if pure else uid)
        rt = t["dest"]["ty"]
        if rt.get("k") == "bool":
            self.mark_bool(res)
        if rt.get("k") == "int":
            TY[res] = (rt["bits"], rt["signed"])
        ev["result"] = res
        ev["opaque"] = True
        self.emit(st, ev)
        self._havoc_mut_args(st, fr, t, args, res)
        if t["target"] is None:
            self._end("diverge", st, where=(info.name, bb))
            return "end"
        self.write_place(st, fr, t["dest"], res)
        fr.bb = t["target"]
        return "cont"

    def _havoc_mut_args(self, st, fr, t, args, res):
        for i, (a, o) in enumerate(zip(args, t["args"])):
            if isinstance(a, tuple) and a and a[0] == "ref" and a[3]:
                ty = o.get("place", {}).get("ty", {})
                self._write(st, a[1], a[2], ("havoc", res, i))

    def _push_frame(self, st, target, args, dest, ret_target, wrap=None, end_as=None, end_try=None):
        info = self.info(target)
        caller = st.frames[-1]
        nf = Frame(info, st.nfid, caller.depth + 1)
        nf.end_as = end_as
        nf.end_try = end_try
        st.nfid += 1
        nf.ret_dest = dest
        nf.ret_target = ret_target
        nf.wrap = wrap
        n = info.body["arg_count"]
        for i in range(1, n + 1):
            st.env[("L", nf.fid, i)] = args[i - 1] if i - 1 < len(args) else ("missing_arg", i)
        st.frames.append(nf)

    def _apply_model(self, st, fr, t, ev, res, work):
        """res: list of outcomes; each outcome is a dict:
             {"value": term} | {"inline": body, "args": [...], "wrap": fn} | {"diverge": True}
             optional "assume": fn(cons)->bool, "label": str, "do": fn(state)"""
        if isinstance(res, dict):
            res = [res]
        live = []
        for i, o in enumerate(res):
            live.append(o)
        first = True
        result = "end"
        n = len(live)
        states = []
        for i, o in enumerate(live):
            s2 = st.copy() if i < n - 1 else st
            states.append((s2, o))
        # process copies first (push to work), the in-place one last
        for s2, o in states:
            f2 = s2.frames[-1]
            ncons_before = len(s2.cons.log)
            if "assume" in o and not o["assume"](s2.cons):
                continue
            if self.zone_check and "assume" in o and not self.zone_check(s2.cons):
                continue
            if o.get("label") is not None:
                s2.trace.append((f2.info.name, f2.bb, "model:%s" % o["label"]))
            e2 = dict(ev)
            e2["label"] = o.get("label")
            e2["ncons_before"] = ncons_before
            if "do" in o:
                o["do"](s2)
            if o.get("diverge"):
                e2["result"] = ("never",)
                self.emit(s2, e2)
                self._end("diverge", s2, where=(f2.info.name, f2.bb))
                continue
            if "backedge" in o:
                # one turn of a summarised iteration that needs no code of its own (the accumulator's new value is given)
                e2["result"] = o.get("value")
                self.emit(s2, e2)
                s2.frames.append(s2.frames[-1].copy())      # (rules read the loop's frame below the turn's frame, as for an expanded closure)
                self._end("backedge", s2, value=o.get("value"), where=o["backedge"])
                continue
            if "inline" in o:
                e2["inlined"] = True
                self.emit(s2, e2)
                self._push_frame(s2, o["inline"], o["args"], t["dest"], t["target"], o.get("wrap"), o.get("end_as"), o.get("end_try"))
            else:
                e2["result"] = o["value"]
                self.emit(s2, e2)
                if t["target"] is None:
                    self._end("diverge", s2)
                    continue
                self.write_place(s2, f2, t["dest"], o["value"])
                f2.bb = t["target"]
            if s2 is st:
                result = "cont"
            else:
                self.forks += 1
                work.append(s2)
        if result == "end" and not any(True for _ in ()):
            # every outcome of the model was infeasible on this path: record it (fail-closed rules can see it)
            self._end("infeasible", st, where=(fr.info.name, fr.bb))
        return result


def fmt_term(t, depth=0):
    """compact human-readable rendering of a term (for reports)"""
    if not isinstance(t, tuple):
        return repr(t)
    if depth > 6:
        return "…"
    k = t[0] if t else "?"
    d = depth + 1
    if k == "const":
        return str(t[1])
    if k == "param":
        return "arg%d" % t[1]
    if k in ("str", "bytes"):
        return repr(t[1])
    if k == "named":
        return t[1]
    if k == "binop":
        return "(%s %s %s)" % (fmt_term(t[2], d), t[1], fmt_term(t[3], d))
    if k == "unop":
        return "%s(%s)" % (t[1], fmt_term(t[2], d))
    if k == "call":
        return "%s(%s)" % (t[1].split("::")[-1] if "<" not in t[1] else t[1], ", ".join(fmt_term(a, d) for a in t[2]))
    if k == "field":
        return "%s.%s" % (fmt_term(t[1], d), t[2])
    if k == "payload":
        return "%s<%s>.%s" % (fmt_term(t[1], d), t[2], t[3])
    if k == "agg":
        nm = (t[2] or t[1])
        if t[3]:
            nm = "%s::%s" % (nm.split("::")[-1], t[3])
        return "%s{%s}" % (nm, ", ".join("%s: %s" % (a, fmt_term(b, d)) for a, b in t[4]))
    if k == "ref":
        return "&%s%s" % (fmt_root(t[1], d), "".join("." + str(e[1]) if e[0] in ("f", "as") else str(e) for e in t[2]))
    if k == "deref":
        return "*%s" % fmt_term(t[1], d)
    if k == "loopvar":
        return "loopvar@%s.bb%s%s" % (t[1].split("::")[-1], t[2], t[3][1:])
    if k == "refconst":
        return "&%s" % fmt_term(t[1], d)
    if k == "pack":
        return "pack(%s,%s)" % (fmt_term(t[1], d), fmt_term(t[2], d))
    return "%s(%s)" % (k, ", ".join(fmt_term(x, d) if isinstance(x, tuple) else str(x) for x in t[1:]))


def fmt_root(r, d=0):
    if r[0] == "L":
        return "_%d" % r[2]
    return "*" + fmt_term(r[1], d)
