"""C17 — streaming_body: coding headers agree with negotiation and body.  Decides:
(R1) `Vary: accept-encoding` is appended on every path of `build`; (R2) the
decision table of `build` over (should_gzip, gzip level in {0,1,6,9}, body needed):
`Content-Encoding: gzip` is appended iff should_gzip and level > 0, and the writer
returned is the gzip-encoder constructor iff the same condition, the identity
constructor otherwise; (R3) the builder's should_gzip field is
should_gzip(AsRequest::headers(req)), both AsRequest impls return the request's
own method/headers, the setters replace exactly one field; (R4) the gzip writer
wraps the chunk writer in flate2's GzEncoder built with
Compression::new(<configured level>), the gzip arm of write/flush goes through
the encoder and the identity arm directly to the chunk writer; (R5) the chunk
transport beneath either writer is the identity (C08.R1-R5: what `write` accepts
is appended once, whole buffers are queued at the back and taken from the front),
so "the written bytes verbatim" / "the encoder's output" is what the body carries.
Does not decide:
that the bytes flate2 emits are valid gzip (C09, not applicable)."""
from . import streaming as ST
from . import chunker as CH

CONFIGS_QUICK = ["dir"]


def run(ctx):
    ST.coding_agreement(ctx)
    ST.writer_delegation(ctx, "C17.R4")
    CH.write_rules(ctx, "C17.R5.write", "C17.R5.inv")
    CH.publish_rules(ctx, "C17.R5.publish", "C17.R5.nonempty", "C17.R5.flag")
    CH.reader_consume(ctx, "C17.R5.consume")
    CH.queue_api(ctx, "C17.R5.fifo")
    CH.end_stream_table(ctx, "C17.R5.eos")
