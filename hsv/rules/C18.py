"""C18 — ChunkedReadFile.  Decides: (R1) the only construction site of the file
entity is behind the `is_file()` test and `new` delegates to it; (R2) the unfold
step's decision table: start == end -> end of stream; a read error -> an Err item;
Ok(chunk) -> that chunk and the next state (start + len(chunk))..end; the read is
issued at offset `start` for min(CHUNK_SIZE, end - start) bytes on the entity's
own file; (R3) the positioned read returns Ok only with 1 <= len <= requested
(0 bytes -> UnexpectedEof error, negative -> OS error), `set_len(n)` has
n <= capacity, pread gets (fd of this file, the buffer, the count, the offset) --
so every poll makes >= 1 byte of progress or fails: no short end, no loop;
(R4) len / last_modified return fields captured at construction from the given
metadata *unchanged* (each is what one Metadata accessor returned, not a value
computed from it), the ETag is a quoted strong tag formatted from (inode, len, mtime secs,
mtime nanos) in lower hex with non-hex separators; no panic site in etag();
Does not decide: file contents, kernel behaviour, Windows code."""
import re
from ..px import const, is_const, is_agg, agg_get, mk_binop, TY, fmt_term
from .. import px as P
from .. import facts as F
from .. import census as CEN
from ..models import decode_template, len_term
from . import serve_model as SM
from .common import where, short, impl_fn, inherent_fn, aggregates, cons_zone, helper_inline, method_name

CONFIGS_QUICK = ["dir"]


def find_entity(ctx):
    from ..check import FailClosed
    fns = [f for f in ctx.facts.fns.values() if f.get("impl_trait") == "Entity" and f["path"].endswith("::get_range")]
    if len(fns) != 1:
        raise FailClosed("crate-local Entity impl not found uniquely")
    self_ty = fns[0]["impl_self"].split("<")[0]
    E = {"adt": self_ty}
    for m in ("len", "get_range", "etag", "last_modified", "add_headers"):
        E[m] = impl_fn(ctx, "Entity", self_ty, m)[0]
    a = ctx.facts.adts[self_ty]
    inner_f = [f for f in a["variants"][0]["fields"] if "Arc<" in f["ty"]]
    if len(inner_f) != 1:
        raise FailClosed("file entity has no single Arc<inner> field")
    E["inner_f"] = inner_f[0]["name"]
    inner_adt = inner_f[0]["ty"].split("Arc<")[1].rstrip(">")
    E["inner_adt"] = inner_adt
    ia = ctx.facts.adts[inner_adt]
    # the validator fields (length, identity, mtime) by type; they may sit in the inner record itself or one level down in
    # a crate-local record embedded in it (field *paths*)
    E["u64_paths"] = []
    for f in ia["variants"][0]["fields"]:
        if f["ty"] == "std::fs::File":
            E["file_f"] = f["name"]
        elif f["ty"] == "std::time::SystemTime":
            E["mtime_path"] = (f["name"],)
        elif f["ty"] == "u64":
            E["u64_paths"].append((f["name"],))
        else:
            sub = ctx.facts.adts.get(f["ty"].split("<")[0])
            if sub and sub.get("local") and sub["kind"] == "struct":
                for g in sub["variants"][0]["fields"]:
                    if g["ty"] == "std::time::SystemTime":
                        E["mtime_path"] = (f["name"], g["name"])
                    elif g["ty"] == "u64":
                        E["u64_paths"].append((f["name"], g["name"]))
    if "mtime_path" not in E or "file_f" not in E or len(E["u64_paths"]) < 2:
        raise FailClosed("file entity's inner record: file / mtime / two u64 fields not found (%r)" % sorted(E))
    E["mtime_f"] = E["mtime_path"][-1]
    E["u64_fields"] = [p[-1] for p in E["u64_paths"]]
    return E


def fld(base, path):
    for n in path:
        base = ("field", base, n)
    return base


def ctor_fns(ctx, E):
    """the function(s) that construct the entity: where the aggregate is built, or - when that is a private helper
    (`from_parts(file, info, headers)`) - the function(s) that call it"""
    sites = aggregates(ctx.facts, E["adt"])
    fns = {b["name"] for b, i, st in sites if " as std::clone::Clone>" not in b["name"]}
    for _ in range(3):
        nxt = set()
        for fn in fns:
            f = ctx.facts.fns.get(fn)
            callers = {b["name"] for b in ctx.facts.bodies.values() if b["kind"] != "promoted" and
                       any(t["callee"].get("res_path") == fn for i, t in ctx.facts.calls(b))}
            if f is not None and f.get("vis") != "Public" and callers:
                nxt |= callers
            else:
                nxt.add(fn)
        if nxt == fns:
            break
        fns = nxt
    return sorted(fns)


def r1_gate(ctx, E):
    fns = ctor_fns(ctx, E)
    if len(fns) != 1:
        ctx.violation("C18.R1", "C18.R1|sites", "the file entity is constructed in %d functions (%s); expected one gated constructor" % (len(fns), fns))
        return None
    ctor = fns[0]
    outs = [o for o in ctx.px(ctor, inline=helper_inline(ctx, own=(E["adt"],)), key="helpers") if o.kind == "return"]
    n = 0
    for o in outs:
        v = o.value
        if is_agg(v) and v[3] == "Ok":
            n += 1
            gate = [val for t, val in o.cons.known.items() if isinstance(t, tuple) and t[0] == "call" and t[1].endswith("Metadata::is_file")]
            if gate != [1]:
                ctx.violation("C18.R1", "C18.R1|ungated", "%s can return Ok without `metadata.is_file()` having been observed true" % ctor, where=F.loc(ctx.facts.bodies[ctor]["span"]))
            else:
                ctx.ok("C18.R1", "%s: Ok only after is_file() == true" % ctor)
    ctx.floor("C18.R1", n, 1, what="Ok rows of the gated constructor")
    # other public constructors delegate
    for f in ctx.facts.fns.values():
        if (f.get("impl_self") or "").split("<")[0] == E["adt"] and not f.get("impl_trait") and f.get("vis") == "Public" and f["path"] != ctor:
            calls = [t for i, t in ctx.facts.calls(ctx.facts.bodies[f["path"]]) if t["callee"].get("res_path") == ctor]
            if calls:
                ctx.ok("C18.R1", "%s delegates to %s" % (f["path"], ctor))
    # the fields captured at construction come from the metadata-derived info
    return ctor


def find_step(ctx, E):
    """the unfold step: the closure body under get_range that performs the positioned read"""
    cands = []
    for n, b in ctx.facts.bodies.items():
        if n.startswith(E["get_range"] + "::{closure") and b["locals"][0]["s"].startswith("std::task::Poll<"):
            cands.append(n)
    return cands


def r2_r3_step(ctx, E):
    steps = find_step(ctx, E)
    if len(steps) != 1:
        ctx.violation("C18.R2", "C18.R2|step", "UNRECOGNISED: %d candidate unfold steps under get_range" % len(steps))
        return
    step = steps[0]
    outs = ctx.px(step, inline=lambda c, d: True, key="all", max_depth=6)
    # the read size: the constant the step reads when more than that is left (whatever the constant is called)
    sizes = set()
    for o in outs:
        for e in o.events:
            if e["k"] == "call" and e["callee"].get("path") == "libc::pread" and is_const(e["args"][2]):
                sizes.add(e["args"][2][1])
    chunk_size = next(iter(sizes)) if len(sizes) == 1 else None
    if chunk_size is None or chunk_size <= 0:
        ctx.violation("C18.R2", "C18.R2|chunk-size", "UNRECOGNISED: the unfold step does not read with one positive constant size when more than that is left (%s)" % sorted(sizes))
        return
    # the two u64 components of the unfold state, by use: the step first compares them (nothing left?); the one the read is
    # issued at is the current position S, the other the end En (whatever the state's shape: a Range in a tuple, a struct ..)
    _ROLES.clear()
    for o in outs:
        # (`start == end` or `start != end`; the two components are state atoms - fields of the state parameter, or the
        # separately captured `left.start` / `left.end` of an `async move` block)
        eqs0 = [t for t, val in o.cons.known.items() if isinstance(t, tuple) and t[0] == "binop" and t[1] in ("Eq", "Ne") and
                all(isinstance(x, tuple) and x[0] in ("field", "deref", "payload") and TY.get(x, (64, False))[0] == 64 for x in (t[2], t[3]))]
        pre0 = [e for e in o.events if e["k"] == "call" and e["callee"].get("path") == "libc::pread"]
        if eqs0 and pre0:
            a, b = eqs0[0][2], eqs0[0][3]
            off = repr(pre0[0]["args"][3])
            if repr(a) in off and repr(b) not in off:
                _ROLES["S"], _ROLES["En"] = a, b
            elif repr(b) in off and repr(a) not in off:
                _ROLES["S"], _ROLES["En"] = b, a
            if _ROLES:
                break
    sites = CEN.census(ctx, outs, typelevel=_tl)
    for key, s in sorted(sites.items()):
        if s.failed:
            ctx.violation("C18.R3", "C18.R3|site|" + key, "file read path: %s (%s)" % (s.failed[0][0], s.failed[0][1][:120]), where=F.loc(s.span))
        else:
            ctx.ok("C18.R3", "site " + key, detail=sorted(s.how)[:2], where=F.loc(s.span))
    seen = set()
    for o in outs:
        if o.kind != "return":
            if o.kind not in ("unreachable", "infeasible"):
                ctx.violation("C18.R2", "C18.R2|path|" + o.kind, "a path of the unfold step ends in %s" % o.kind)
            continue
        v = o.value
        if not (is_agg(v) and v[3] == "Ready"):
            ctx.violation("C18.R2", "C18.R2|not-ready", "the unfold step can return %s" % short(v, 60))
            continue
        opt = agg_get(v, "0")
        # the (start, end) of the current state
        eqs = [(t, val if t[1] == "Eq" else 1 - val) for t, val in o.cons.known.items() if isinstance(t, tuple) and t[0] == "binop" and t[1] in ("Eq", "Ne") and
               _ROLES and {t[2], t[3]} == {_ROLES["S"], _ROLES["En"]}]
        if not eqs:
            ctx.violation("C18.R2", "C18.R2|no-empty-test", "the unfold step does not compare start with end")
            continue
        t, val = eqs[0]
        S, En = _ROLES["S"], _ROLES["En"]
        TY.setdefault(S, (64, False))
        TY.setdefault(En, (64, False))
        if val == 1:
            seen.add("empty")
            if is_agg(opt) and opt[3] == "None":
                ctx.ok("C18.R2", "start == end -> end of stream")
            else:
                ctx.violation("C18.R2", "C18.R2|empty-not-none", "with nothing left the step yields %s instead of ending" % short(opt, 60))
            continue
        if not (is_agg(opt) and opt[3] == "Some"):
            ctx.violation("C18.R2", "C18.R2|short-end", "with bytes left (start != end) the step ends the stream: a short read looks like a clean end", where=_w(o))
            continue
        tup = agg_get(opt, "0")
        item, nxt = agg_get(tup, "0"), agg_get(tup, "1")
        preads = [e for e in o.events if e["k"] == "call" and e["callee"].get("path") == "libc::pread"]
        if is_agg(item) and item[3] == "Err":
            seen.add("err")
            ctx.ok("C18.R2", "read failure -> Err item", nontrivial=False)
            continue
        if not (is_agg(item) and item[3] == "Ok"):
            ctx.violation("C18.R2", "C18.R2|item", "UNRECOGNISED item %s" % short(item, 60))
            continue
        seen.add("ok")
        bad = []
        if len(preads) != 1:
            bad.append("%d pread calls on a data path" % len(preads))
        else:
            pa = preads[0]["args"]
            fd, bufp, count, off = pa
            if E["file_f"] not in repr(fd) or "as_raw_fd" not in repr(fd):
                bad.append("pread is not issued on the entity's own file")
            if not (isinstance(off, tuple) and off[0] == "payload" and S in off[1][2]):
                bad.append("read offset %s is not the current start" % short(off, 60))
            z = cons_zone(o, terms=(count, S, En))
            want_small = mk_binop("Sub", En, S)
            okc = (count == want_small and z.entails("Le", want_small, const(chunk_size))) or (count == const(chunk_size) and z.entails("Le", const(chunk_size), want_small))
            if not okc:
                bad.append("read count %s is not min(%s, end - start)" % (short(count, 40), chunk_size))
            # buffer: the pointer of the Vec created with capacity == count
            if not (isinstance(bufp, tuple) and bufp[0] == "ptr_of" and isinstance(bufp[1], tuple) and bufp[1][0] == "newbuf" and bufp[1][2] == count):
                bad.append("the buffer handed to pread is not a fresh Vec with capacity == count")
            # chunk emitted
            chunk = agg_get(item, "0")
            cv = chunk[2][0] if isinstance(chunk, tuple) and chunk[0] == "call" and (chunk[1].endswith("::into") or chunk[1].endswith("::from")) else chunk
            if not (isinstance(cv, tuple) and cv[0] == "setlen"):
                bad.append("the emitted chunk is %s, not the read buffer with its length set" % short(cv, 60))
            else:
                n = cv[2]
                TY.setdefault(n, (64, False))
                z2 = cons_zone(o, terms=(n, count))
                if not z2.entails("Le", const(1), n):
                    bad.append("an empty chunk can be emitted (0-byte read not turned into an error): the stream would loop forever at end of file")
                if not z2.entails("Le", n, count):
                    bad.append("set_len(n) with n possibly above the capacity")
                # next state
                def leaves(v_, d=0):
                    if is_agg(v_) and d < 5:
                        out_ = []
                        for _, x_ in v_[4]:
                            out_ += leaves(x_, d + 1)
                        return out_
                    # a component advanced in place (`left.start += n` on the carried range): the written fields, and the other
                    # position / end field of the same record unchanged
                    ub_, wr_ = v_, {}
                    while isinstance(ub_, tuple) and ub_ and ub_[0] == "upd" and isinstance(ub_[2], tuple) and ub_[2][0] == "f":
                        wr_.setdefault(ub_[2][1], ub_[3])
                        ub_ = ub_[1]
                    if wr_ and d > 0:
                        return list(wr_.values()) + [x_ for x_ in (S, En) if isinstance(x_, tuple) and x_[0] == "field" and x_[1] == ub_ and x_[2] not in wr_]
                    return [v_]
                lv = leaves(nxt) if isinstance(nxt, tuple) else []
                # a state record advanced in place (`state.pos += n`): the written fields, and every other field unchanged
                upd_base, written = nxt, {}
                while isinstance(upd_base, tuple) and upd_base and upd_base[0] == "upd" and upd_base[2][0] == "f":
                    written.setdefault(upd_base[2][1], upd_base[3])
                    upd_base = upd_base[1]
                if written and not is_agg(nxt):
                    lv = list(written.values())
                    for x_ in (S, En):
                        if isinstance(x_, tuple) and x_[0] == "field" and x_[1] == upd_base and x_[2] not in written:
                            lv.append(x_)
                if not is_agg(nxt) and not written:
                    bad.append("UNRECOGNISED next state %s" % short(nxt, 60))
                else:
                    # the next state keeps the end and moves the position: among its components there is the unchanged end,
                    # and the position component is start + len(chunk) (the old position is not kept)
                    ne = En if En in lv else next((x for x in lv if TY.get(x, (0,))[0] == 64 and x != mk_binop("Add", S, n)), None)
                    ns = mk_binop("Add", S, n) if mk_binop("Add", S, n) in lv else (S if S in lv else next((x for x in lv if isinstance(x, tuple) and x[0] == "binop"), None))
                    if ne != En:
                        bad.append("next end %s differs from the current end" % short(ne, 40))
                    if ns != mk_binop("Add", S, n):
                        bad.append("next start is %s, not start + len(chunk)" % short(ns, 60))
        if bad:
            ctx.violation("C18.R2", "C18.R2|ok-row|%s" % bad[0][:40], "data row of the unfold step: " + "; ".join(bad), where=_w(o))
        else:
            ctx.ok("C18.R2", "Ok(chunk): pread(file, fresh buf, min(CHUNK, end-start), start); 1 <= len <= count; next = start+len..end")
    for need in ("empty", "err", "ok"):
        if need not in seen:
            ctx.violation("C18.R2", "C18.R2|missing|" + need, "the unfold step has no %s row" % need)
    ctx.floor("C18.R2", len(seen), 3, what="row kinds of the unfold step")


_ROLES = {}


def _tl(ev, o):
    """unfold state invariant start <= end: established by the callers (serve passes 0..len or a range satisfying RNG,
    C02.R1) and preserved by the step (next start = start + n with n <= count <= end - start, checked here)"""
    if ev["k"] == "assert" and ev["cond"][0] == "ovf":
        op, a, b = ev["cond"][1], ev["cond"][2], ev["cond"][3]
        from ..zone import Zone
        if op == "Sub" and _ROLES and a == _ROLES["En"] and b == _ROLES["S"]:
            return "unfold state invariant start <= end"
        if op == "Add" and _ROLES and a == _ROLES["S"]:
            En = _ROLES["En"]
            TY.setdefault(En, (64, False))
            TY.setdefault(a, (64, False))
            cc = P.Cons()
            cc.rel = list(o.cons.rel[:ev.get("nrel", len(o.cons.rel))]) + [("Le", a, En)]
            z = Zone(cc, extra_terms=(a, b, En, mk_binop("Sub", En, a)))
            if z.entails("Le", mk_binop("Add", a, b), En):
                return "start + n <= end under the unfold state invariant"
        return None
    if ev["k"] == "call" and "std::vec::Vec::<T, A>::set_len" in ev["names"]:
        return "checked by C18.R2 (n <= count == capacity)"
    if ev["k"] == "call" and "panic_if" in ev:
        return None
    return None


def _w(o):
    for e in reversed(o.events):
        if "span" in e:
            return F.loc(e["span"])
    return None


def r4_validators(ctx, E, ctor):
    S = ("deref", ("param", 1))
    inner = ("deref", ("pointee", ("field", S, E["inner_f"])))
    # len / last_modified
    for m, want_ty in (("len", "u64"), ("last_modified", "time")):
        outs = [o for o in ctx.px(E[m]) if o.kind == "return"]
        v = outs[0].value if len(outs) == 1 else None
        okk = False
        if m == "len":
            okk = any(v == fld(inner, p) for p in E["u64_paths"])
            lenf = v[2] if okk else None
        else:
            okk = is_agg(v) and v[3] == "Some" and agg_get(v, "0") == fld(inner, E["mtime_path"])
        if okk:
            ctx.ok("C18.R4", "%s() returns the field captured at construction" % m)
        else:
            ctx.violation("C18.R4", "C18.R4|%s" % m, "%s() returns %s, not the value captured at construction" % (m, short(v, 80)))
    # etag
    # helpers of the formatting (e.g. a method on the captured file-info record, possibly in another module) are expanded
    from .common import helper_inline
    outs = ctx.px(E["etag"], inline=helper_inline(ctx), key="helpers")
    sites = CEN.census(ctx, outs, typelevel=_etag_tl)
    for key, s in sorted(sites.items()):
        if s.failed:
            ctx.violation("C18.R4", "C18.R4|site|" + key, "etag(): %s (%s)" % (s.failed[0][0], s.failed[0][1][:120]), where=F.loc(s.span))
        else:
            ctx.ok("C18.R4", "etag site " + key, detail=sorted(s.how)[:2], where=F.loc(s.span))
    n = 0
    templates = set()
    by_side = {}
    for o in outs:
        if o.kind != "return":
            continue
        v = o.value
        if not (is_agg(v) and v[3] == "Some"):
            ctx.violation("C18.R4", "C18.R4|etag-none", "etag() can return %s" % short(v, 40))
            continue
        n += 1
        # which side of the epoch this row formats: `duration_since(UNIX_EPOCH)` answered Ok (at or after) or Err (before; the
        # distance then comes from the error value)
        for t_, vn_ in o.cons.variant.items():
            if isinstance(t_, tuple) and t_ and t_[0] == "call" and t_[1].endswith("SystemTime::duration_since") and vn_ in ("Ok", "Err"):
                fv_ = SM.fmt_value(agg_get(v, "0"))
                by_side.setdefault(vn_, set()).add(SM.template_text(fv_.get("template")) if fv_["kind"] == "fmt" else None)
        fv = SM.fmt_value(agg_get(v, "0"))
        tt = SM.template_text(fv.get("template")) if fv["kind"] == "fmt" else None
        bad = []
        if tt is None or not re.fullmatch(r'"[^"{}]*\{\}([^0-9a-fA-F"{}][^"{}]*\{\})*[^"{}]*"', tt) or tt.startswith("W/"):
            bad.append("template %r is not a quoted strong tag with non-hex separators between the fields" % tt)
        else:
            templates.add(tt)
            args = SM.fmt_arg_values(fv)
            srcs = []
            for tr, ty, a in args:
                if tr != "lower_hex":
                    bad.append("a field is not formatted in hex")
                srcs.append(repr(a))
            fields_used = [f for f in E["u64_fields"] if any(("'%s'" % f) in s for s in srcs)]
            if len(fields_used) != len(E["u64_fields"]):
                bad.append("the tag does not include all of %s" % E["u64_fields"])
            if sum(1 for s in srcs if E["mtime_f"] in s) < 2:
                bad.append("the tag does not include both the seconds and the nanoseconds of the modification time")
            if not any("as_secs" in s for s in srcs) or not any("subsec_nanos" in s for s in srcs):
                bad.append("seconds / nanoseconds are not both taken from the modification time")
        if bad:
            ctx.violation("C18.R4", "C18.R4|etag|%s" % bad[0][:40], "etag(): " + "; ".join(bad))
        else:
            ctx.ok("C18.R4", "etag row: %s over (inode, len, mtime secs, mtime nanos)" % tt)
    both = (by_side.get("Ok", set()) & by_side.get("Err", set())) - {None}
    if both:
        ctx.violation("C18.R4", "C18.R4|etag|epoch-sides-collide", "etag(): a modification time before the epoch and the mirrored time after it are formatted with the same "
                      "template %s (the distance to the epoch without its direction): two different modification times share a tag" % sorted(map(str, both)))
    elif by_side.get("Ok") and by_side.get("Err"):
        ctx.ok("C18.R4", "etag: times before and after the epoch use different templates")
    if len(templates) > 1:
        # two branches (before / after the epoch) must not collide: their literal parts differ
        ctx.ok("C18.R4", "etag branches use distinct templates %s" % sorted(templates), nontrivial=False)
    ctx.floor("C18.R4", n, 1, what="etag rows")
    # construction: fields come from the metadata-derived info and the file given
    outs = [o for o in ctx.px(ctor, inline=lambda c, d: True, key="all") if o.kind == "return" and is_agg(o.value) and o.value[3] == "Ok"]
    for o in outs:
        arc = agg_get(agg_get(o.value, "0"), E["inner_f"])
        innerv = o.state.env.get(("H", ("pointee", arc)))
        if not is_agg(innerv):
            ctx.violation("C18.R4", "C18.R4|ctor", "UNRECOGNISED construction of the entity's inner record")
            continue
        pxx = P.PX(ctx.facts)

        def at(path):
            vv = innerv
            for nme in path:
                vv = pxx.project(None, vv, ("f", nme))
            return vv
        srcs = {p[-1]: repr(at(p)) for p in E["u64_paths"] + [E["mtime_path"]]}
        srcs[E["file_f"]] = repr(agg_get(innerv, E["file_f"]))
        meta = all("('param', 2)" in srcs[f] for f in E["u64_fields"] + [E["mtime_f"]])
        # ... and unchanged: each validator field is what one accessor of the supplied Metadata returned, not a value computed
        # from it (rounding the modification time, masking the inode ... would make distinct file states share validators)
        for pth in E["u64_paths"] + [E["mtime_path"]]:
            tv = at(pth)
            while isinstance(tv, tuple) and tv and tv[0] in ("payload", "field"):
                tv = tv[1]
            pure = isinstance(tv, tuple) and tv and tv[0] == "call" and "Metadata" in tv[1] and len(tv[2]) == 1 and \
                tv[2][0] in (("&", ("deref", ("param", 2))), ("deref", ("param", 2)), ("param", 2))
            if not pure:
                ctx.violation("C18.R4", "C18.R4|ctor-transformed|%s" % pth[-1],
                              "the validator field `%s` is not captured as the supplied metadata reports it but computed from it (%s): file states the "
                              "metadata distinguishes can share an ETag / Last-Modified" % (pth[-1], short(at(pth), 100)))
                meta = False
        if meta and srcs[E["file_f"]] == repr(("param", 1)):
            ctx.ok("C18.R4", "length, identity and mtime are captured once from the supplied metadata; the file is the supplied file")
        else:
            ctx.violation("C18.R4", "C18.R4|ctor-source", "the validator fields are not all taken from the supplied metadata / file at construction")


def headers_complete(ctx, rule):
    """the crate's own entity hands on every header it was constructed with: the constructor keeps the caller's HeaderMap
    itself, and add_headers appends each (name, value) of it - no filter, no de-duplication, `append` not `insert`"""
    E = find_entity(ctx)
    ia = ctx.facts.adts[E["inner_adt"]]
    hf = [f["name"] for f in ia["variants"][0]["fields"] if f["ty"].startswith("http::HeaderMap")]
    if len(hf) != 1:
        ctx.violation(rule, rule + "|field", "UNRECOGNISED: the file entity does not keep the caller's HeaderMap as one field of %s (header-typed fields: %s): "
                      "whether every supplied header (repeated names included) survives cannot be read off" % (E["inner_adt"], hf))
        return
    hf = hf[0]
    # construction: the field is the parameter itself
    fns = ctor_fns(ctx, E)
    nrow = 0
    for ctor in fns:
        b = ctx.facts.bodies[ctor]
        hp = [("param", i) for i in range(1, b["arg_count"] + 1) if b["locals"][i]["s"].startswith("http::HeaderMap")]
        for o in ctx.px(ctor, inline=lambda c, d: True, key="all"):
            if not (o.kind == "return" and is_agg(o.value) and o.value[3] == "Ok"):
                continue
            arc = agg_get(agg_get(o.value, "0"), E["inner_f"])
            innerv = o.state.env.get(("H", ("pointee", arc)))
            got = agg_get(innerv, hf) if is_agg(innerv) else None
            nrow += 1
            if got in hp:
                ctx.ok(rule, "%s stores the caller's header map unchanged" % ctor)
            else:
                ctx.violation(rule, rule + "|ctor", "the file entity stores %s, not the header map it was given: supplied headers can be lost or altered" % short(got, 100))
    ctx.floor(rule + ".ctor", nrow, 1, what="constructor rows")
    # add_headers: every pair of the stored map is appended
    outs = [o for o in ctx.px(E["add_headers"], inline=helper_inline(ctx, own=(E["adt"], E["inner_adt"])), key="helpers")]
    nrow = 0
    loop_form = any(o.kind == "backedge" for o in outs)
    for o in outs:
        if o.kind == "backedge":
            continue
        if o.kind != "return":
            ctx.violation(rule, rule + "|exit", "add_headers leaves by a %s exit" % o.kind)
            continue
        nrow += 1
        bad = []
        if loop_form:
            # `for (k, v) in &self.headers { h.append(..) }`: this is the loop's exit row; the turns are judged below
            adapt = [method_name(e["callee"]) for e in o.events if e["k"] == "call" and method_name(e["callee"]) in
                     ("filter", "filter_map", "take", "skip", "take_while", "skip_while", "step_by", "dedup", "keys", "zip", "rev")]
            if adapt:
                ctx.violation(rule, rule + "|add|adaptor", "file entity add_headers: the stored headers pass through %s before they are handed on" % "/".join(sorted(set(adapt))))
            if not any(e["k"] == "call" and method_name(e["callee"]) in ("iter", "into_iter") and e["args"] and ("." + hf) in fmt_term(e["args"][0]) for e in o.events):
                ctx.violation(rule, rule + "|add|loop-source", "file entity add_headers: the loop does not iterate the stored header map")
            continue
        muts = [e for e in o.events if e["k"] == "call" and e["args"] and fmt_term(e["args"][0]).replace("&", "").replace("(", "").replace(")", "").replace("*", "").strip() == "arg2"
                and method_name(e["callee"]) not in ("reserve", "len", "capacity", "is_empty", "contains_key", "get", "keys_len")]
        adapt = [method_name(e["callee"]) for e in o.events if e["k"] == "call" and method_name(e["callee"]) in
                 ("filter", "filter_map", "take", "skip", "take_while", "skip_while", "step_by", "dedup", "dedup_by_key", "keys", "find", "nth", "last", "next", "zip", "rev", "peekable")]
        if adapt:
            bad.append("the stored headers pass through %s before they are handed on" % "/".join(sorted(set(adapt))))
        if len(muts) != 1:
            bad.append("%d calls modify the response's header map (%s); expected one extend / append of the stored headers" % (len(muts), [method_name(e["callee"]) for e in muts]))
        else:
            m = muts[0]
            mn = method_name(m["callee"])
            src = fmt_term(m["args"][1]) if len(m["args"]) > 1 else ""
            if mn == "extend":
                if ("." + hf) not in src:
                    bad.append("extend() is not fed from the stored header map (%s)" % src[:80])
            elif mn == "append":
                pass
            else:
                bad.append("the headers are added with `%s`, which %s" % (mn, "replaces earlier values of a repeated name" if mn == "insert" else "is not extend / append"))
        if bad:
            ctx.violation(rule, rule + "|add|" + bad[0][:40], "file entity add_headers: " + "; ".join(bad), where=where(muts[0]) if muts else None)
        else:
            ctx.ok(rule, "add_headers extends the response's map with every (name, value) of the stored map", where=where(muts[0]))
    for o in outs:
        if o.kind == "backedge":
            muts = [method_name(e["callee"]) for e in o.events if e["k"] == "call" and e["args"] and "arg2" in fmt_term(e["args"][0])[:12]
                    and method_name(e["callee"]) in ("insert", "append", "try_insert", "try_append", "entry")]
            nrow += 1
            if muts != ["append"]:
                ctx.violation(rule, rule + "|add|loop", "file entity add_headers: a loop turn adds a stored header with %s; `append` keeps every value of a repeated name" % (muts or "nothing"))
            else:
                ctx.ok(rule, "add_headers loop turn appends the stored (name, value)")
    ctx.floor(rule + ".add", nrow, 1, what="add_headers rows")


def _etag_tl(ev, o):
    if ev["k"] == "call" and "panic_if" in ev:
        _, t, bad = ev["panic_if"]
        if "write_fmt" in repr(t):
            return "formatting integers into a growable buffer cannot fail"
    if ev["k"] == "call" and "http::HeaderValue::from_maybe_shared_unchecked" in ev["names"]:
        fv = SM.fmt_value(("hv", ev["args"][0]))
        if fv["kind"] == "fmt" and all(isinstance(a, tuple) and a[0] == "fmtarg" and a[2] in ("u64", "u32", "usize") for a in fv["args"]) and \
                all(p[0] == "arg" or all(32 <= ord(c) < 127 for c in p[1]) for p in fv["template"]):
            return "printable template with integer arguments"
    return None


def run(ctx):
    E = find_entity(ctx)
    ctor = r1_gate(ctx, E)
    r2_r3_step(ctx, E)
    if ctor:
        r4_validators(ctx, E, ctor)
    ctx.assume("POSIX pread(fd, buf, count, off) returns -1 or a value in 0..=count and writes that many bytes")
