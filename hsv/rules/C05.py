"""C05 — If-Range.  Decides over all paths of `serve`: (R1) the decision table of
the If-Range gate: the request's Range header reaches the range parser when
If-Range is absent or an entity-tag that the *strong* comparison equates with the
entity's ETag, and is replaced by None on every other row (an exact-date match
would be a don't-care); (R2) the comparator at the gate has the strong
comparison's table and is applied to (If-Range value, entity ETag); (R3) the
parser's header argument is either the request's Range header or None.
Does not decide: byte-level tokenisation of If-Range beyond the prefix tests."""
from . import serve_model as SM

CONFIGS_QUICK = ["dir"]


def run(ctx):
    M = SM.analyse(ctx)
    SM.fail_unrecognised(ctx, "C05.R1", M)
    SM.c05_gate(ctx, M)
