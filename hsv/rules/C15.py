"""C15 — HEAD mirrors GET.  Decides: (R1) for every GET path of `serve` there is a
HEAD path with the same request/entity decisions, the same status and the same
ordered header list (names and value terms), and vice versa -- i.e. no header or
status decision is control- or data-dependent on the method after the 405 gate;
(R2) no HEAD path calls Entity::get_range or returns a streamed body, HEAD bodies
of 200/206/304/416 are the empty one-shot body; (R3/R4) `streaming_body`:
body_needed is exactly `method != HEAD`, `build` returns no writer when it is
false and its header effects do not depend on it; (R3) the negotiation flag that
`build` reads is should_gzip(request headers) on every constructor path whatever the
method, and no setter rewrites it or the body-needed flag.  Does not decide: Date values
(clock)."""
from . import serve_model as SM
from . import streaming as ST

CONFIGS_QUICK = ["dir"]


def run(ctx):
    M = SM.analyse(ctx)
    SM.fail_unrecognised(ctx, "C15.R1", M)
    SM.c15_pairing(ctx, M)
    ST.head_no_writer(ctx, "C15.R4")
    ST.negotiation_input(ctx, "C15.R3")
