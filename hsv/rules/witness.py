"""item-level type facts (the static part of the compile-fail witnesses)"""
from . import chunker as CH
from . import streaming as ST


def not_clone(ctx, rule):
    """neither the public BodyWriter nor the chunk writer implements Clone"""
    R = CH.roles(ctx)
    G = ST.gzip_ctor(ctx)
    wr = [a["path"] for a in ctx.facts.adts.values() if a["local"] and a["kind"] == "struct" and
          any(f["ty"].startswith(G["enum"]) for f in a["variants"][0]["fields"])]
    targets = [R["writer"]] + wr + [G["enum"]]
    bad = []
    for im in ctx.facts.impls:
        if im.get("trait") in ("std::clone::Clone", "std::marker::Copy") and im.get("self_adt") in targets:
            bad.append(im["self_adt"])
    if bad:
        ctx.violation(rule, rule + "|clone", "%s implements Clone: two producers could interleave writes" % bad)
    else:
        ctx.ok(rule, "no Clone/Copy impl for %s" % ", ".join(targets))
