"""shared helpers for rule modules (queries over the fact base and PX outcomes)"""
from .. import facts as F
from .. import px as P
from ..px import is_const, const, is_agg, agg_get, fmt_term
from ..zone import Zone


def where(ev_or_span):
    sp = ev_or_span.get("span") if "span" in ev_or_span else ev_or_span
    return F.loc(sp)


def aggregates(facts, adt, variant=None):
    """(body, bb, stmt) for every aggregate construction of adt[::variant] in non-cleanup code"""
    out = []
    for b in facts.bodies.values():
        if b["kind"] == "promoted":
            continue
        if b["name"].startswith("<") and b["name"].endswith(" as std::clone::Clone>::clone"):
            continue        # a (derived) Clone rebuilds a copy of an existing value field by field: not a construction site
        for i, blk in enumerate(b["blocks"]):
            if blk["cleanup"]:
                continue
            for st in blk["stmts"]:
                if st["k"] == "assign" and st["rv"]["k"] == "aggregate" and st["rv"].get("agg") == "adt" \
                        and st["rv"]["adt"] == adt and (variant is None or st["rv"]["variant"] == variant):
                    out.append((b, i, st))
    return out


def calls_named(facts, *names, include_promoted=False):
    out = []
    for b, i, t in facts.all_calls(include_promoted):
        c = t["callee"]
        if "path" in c and F.callee_is(c, *names):
            out.append((b, i, t))
    return out


def call_events(outcome, *names):
    for ev in outcome.events:
        if ev["k"] == "call" and (ev["names"] & set(names)):
            yield ev


def zone_at(outcome, ev, extra=()):
    """zone of the path relations accumulated up to event ev"""
    c = outcome.cons
    nrel = ev.get("nrel", len(c.rel))
    cc = P.Cons()
    cc.rel = list(c.rel[:nrel])
    return Zone(cc, extra_rels=extra)


def short(t, n=160):
    s = fmt_term(t)
    return s if len(s) <= n else s[:n] + "…"


def arg_type(t, i):
    a = t["args"][i]
    if "place" in a:
        return a["place"]["ty"]["s"]
    return a.get("ty", {}).get("s", "")


def method_name(c):
    p = c.get("res_path") or c.get("path") or ""
    return p.split("::")[-1]


def body_calls(facts, body, pred):
    out = []
    for i, t in facts.calls(body):
        c = t["callee"]
        if "path" in c and pred(c):
            out.append((i, t))
    return out


def reachable_bodies(facts, roots, follow_closures=True, stop=()):
    """crate-local bodies reachable from roots through resolved calls and closure/coroutine aggregates (`stop`: bodies that
    are reached but not entered)"""
    seen = set()
    work = [r for r in roots if r in facts.bodies]
    while work:
        n = work.pop()
        if n in seen:
            continue
        seen.add(n)
        if n in stop:
            continue
        b = facts.bodies[n]
        for blk in b["blocks"]:
            if blk["cleanup"]:
                continue
            for st in blk["stmts"]:
                if st["k"] == "assign" and st["rv"]["k"] == "aggregate" and st["rv"].get("agg") in ("closure", "coroutine"):
                    d = st["rv"]["def"]
                    if d in facts.bodies and d not in seen:
                        work.append(d)
            t = blk["term"]
            if t and t["k"] == "call":
                c = t["callee"]
                for k in ("res_path", "path"):
                    nm = c.get(k)
                    if nm and nm in facts.bodies and nm not in seen:
                        work.append(nm)
                # a trait method resolved to a generic forwarding impl (`<&mut I as Iterator>::next`, `Box<T>`, `Pin<P>` ...)
                # or left unresolved still reaches the crate's own impl of that trait for a local type named in the call
                tr = c.get("trait")
                if tr and not c.get("res_local"):
                    meth = (c.get("path") or "").split("::")[-1]
                    full = (c.get("res_full") or "") + " " + (c.get("full") or "")
                    for f in facts.fns.values():
                        if f.get("impl_trait") == tr and f["path"].endswith("::" + meth) and f["path"] not in seen:
                            self_adt = (f.get("impl_self") or "").split("<")[0]
                            if self_adt and self_adt in full:
                                work.append(f["path"])
    return seen


_PX0 = None


def final_read(ctx, o, root, path):
    """value of a place at the end of path `o`"""
    global _PX0
    if _PX0 is None or _PX0.facts is not ctx.facts:
        _PX0 = P.PX(ctx.facts)
    return _PX0._read(o.state, root, path)


def self_field(ctx, o, field, param=1):
    return final_read(ctx, o, ("H", ("param", param)), (("f", field),))


def entry_field(field, param=1):
    """term a field of *self has at function entry"""
    return ("field", ("deref", ("param", param)), field)


def impl_fn(ctx, trait, self_adt, method):
    """body name of `impl trait for self_adt`'s method (by item facts, not by string building)"""
    out = []
    for f in ctx.facts.fns.values():
        if f.get("impl_trait") == trait and f["path"].endswith("::" + method) and (f.get("impl_self") or "").split("<")[0] == self_adt:
            out.append(f["path"])
    return out


def inherent_fn(ctx, self_adt, method):
    out = []
    for f in ctx.facts.fns.values():
        if not f.get("impl_trait") and f["path"].endswith("::" + method) and (f.get("impl_self") or "").split("<")[0] == self_adt:
            out.append(f["path"])
    return out


def poll_shape(v):
    """classify a Poll<Option<Result<..>>> value term -> ('Pending'|'None'|'Ok'|'Err'|'?', payload)"""
    if not is_agg(v):
        return "?", v
    if v[3] == "Pending":
        return "Pending", None
    if v[3] == "Ready":
        o = agg_get(v, "0")
        if is_agg(o):
            if o[3] == "None":
                return "None", None
            if o[3] == "Some":
                r = agg_get(o, "0")
                if is_agg(r) and r[3] in ("Ok", "Err"):
                    return r[3], agg_get(r, "0")
                return "Some?", r
        return "Ready?", o
    return "?", v


def poll_shape_on(o, v):
    """poll_shape, also for a value that is handed on as it came (`other => other`): its shape is what the path knows about it"""
    k, pl = poll_shape(v)
    if k != "?" or is_agg(v):
        return k, pl
    pv = o.cons.variant_of(v)
    if pv == "Pending":
        return "Pending", None
    if pv == "Ready":
        p1 = ("payload", v, "Ready", "0")
        ov = o.cons.variant_of(p1)
        if ov == "None":
            return "None", None
        if ov == "Some":
            p2 = ("payload", p1, "Some", "0")
            rv = o.cons.variant_of(p2)
            if rv in ("Ok", "Err"):
                return rv, ("payload", p2, rv, "0")
            return "Some?", p2
        return "Ready?", p1
    return k, pl


def cons_zone(o, extra=(), terms=()):
    cc = P.Cons()
    cc.rel = list(o.cons.rel)
    return Zone(cc, extra_rels=extra, extra_terms=terms)


UNIT_TRAITS = ("futures_core::Stream", "http_body::Body", "std::io::Write", "std::iter::Iterator", "Entity", "std::ops::Drop",
               "std::future::Future")


def unit_types(ctx):
    """crate-local types that are analysis units of their own (they implement a stream / body / writer / iterator / entity
    / destructor trait by hand); every other local type is a helper type whose methods are expanded where they are called"""
    if hasattr(ctx.facts, "_unit_types"):
        return ctx.facts._unit_types
    out = set()
    for im in ctx.facts.doc["impls"] if hasattr(ctx.facts, "doc") else []:
        if im.get("trait") in UNIT_TRAITS and im.get("self_adt") and not im.get("span", {}).get("exp"):
            out.add(im["self_adt"])
    ctx.facts._unit_types = out
    return out


def helper_inline(ctx, own=(), never=()):
    """inlining policy used by the unit analyses: expand crate-local callees that are helpers of the unit under analysis -
    free functions, closures, methods of the unit's own types (`own`: ADT paths) and methods of helper types - so that
    extracting a helper, or introducing a small private type, does not change what is analysed; methods of *other* unit
    types stay calls (they have their own rules)"""
    own = tuple(o.split("<")[0] for o in own)
    units = unit_types(ctx)

    def pol(c, d):
        if not c.get("res_local") or c.get("res_path") in never:
            return False
        f = ctx.facts.fns.get(c.get("res_path"))
        if f is None:
            return True          # closure / coroutine bodies
        s = f.get("impl_self")
        if not s:
            return True
        base = s.split("<")[0]
        return base in own or base not in units
    return pol


_PRED_CACHE = {}


def pred_table(ctx, clo, domain=range(256)):
    """truth table of a one-argument closure / fn item over the given constants (its MIR is evaluated on each constant
    by the abstract interpreter; no code is run).  -> {c: bool} or None when some value does not fold to a constant"""
    from ..px import is_agg as _is_agg, is_const as _is_const
    from .. import models as MM
    body = MM.closure_body(clo)
    if body is None or body not in ctx.facts.bodies:
        return None
    key = (id(ctx.facts), body, tuple(domain))
    if key in _PRED_CACHE:
        return _PRED_CACHE[key]
    b = ctx.facts.bodies[body]
    is_fn = isinstance(clo, tuple) and clo and clo[0] == "fn"
    pidx = 1 if is_fn else 2
    pty = b["locals"][pidx]["s"] if b["arg_count"] >= pidx else ""
    # closures called through FnMut::call_mut receive their arguments as one tuple in MIR? (no: spread) - plain parameter
    nref = len(pty) - len(pty.lstrip("&"))
    out = {}
    px = P.PX(ctx.facts, models=MM.install(None), inline=lambda c, d: True, max_paths=2000)
    for cval in domain:
        a = ("const", cval)
        for _ in range(nref):
            a = ("refconst", a)
        try:
            outs = px.run(body, args=([a] if is_fn else [clo, a]))
        except Exception:
            _PRED_CACHE[key] = None
            return None
        vals = {o.value for o in outs if o.kind == "return"}
        if len(vals) != 1 or not _is_const(next(iter(vals))):
            _PRED_CACHE[key] = None
            return None
        out[cval] = bool(next(iter(vals))[1])
    _PRED_CACHE[key] = out
    return out


DIGITS = frozenset(range(48, 58))


def all_digits_guard(ctx, o, e):
    """classify an Iterator::all / Iterator::any call event e on path o whose predicate is a byte test:
       "pass"  - its known result implies that every element is an ASCII digit,
       "fail"  - its known result means the digits-only check was made and failed,
       None    - not a digits check / result unknown"""
    nm = e["callee"].get("path", "")
    if not (nm.endswith("Iterator::all") or nm.endswith("Iterator::any")) or len(e["args"]) < 2:
        return None
    tab = pred_table(ctx, e["args"][1])
    if tab is None:
        return None
    trues = {c for c, v in tab.items() if v}
    falses = set(tab) - trues
    r = o.cons.known.get(e.get("result"))
    if r is None:
        return None
    if nm.endswith("::all"):
        if trues != DIGITS and not (trues <= DIGITS and trues):
            return None
        if trues != DIGITS:
            return None       # stricter than 1*DIGIT would reject grammatical numbers: not the digits check
        return "pass" if r == 1 else "fail"
    if falses != DIGITS:
        return None
    return "pass" if r == 0 else "fail"


def pred_true_set(ctx, clo):
    """the finite set of argument values on which a one-argument closure returns true, when every path returning true
    pins its argument to a constant by an equality test (e.g. `|c| c == ' ' || c == '\\t'`); None otherwise"""
    from .. import models as MM
    body = MM.closure_body(clo)
    if body is None or body not in ctx.facts.bodies:
        return None
    is_fn = isinstance(clo, tuple) and clo and clo[0] == "fn"
    sym = ("sym", "pred_arg")
    P.TY.setdefault(sym, (32, False))
    px = P.PX(ctx.facts, models=MM.install(None), inline=lambda c, d: True, max_paths=2000)
    b = ctx.facts.bodies[body]
    pidx = 1 if is_fn else 2
    pty = b["locals"][pidx]["s"] if b["arg_count"] >= pidx else ""
    arg = sym
    for _ in range(len(pty) - len(pty.lstrip("&"))):
        arg = ("refconst", arg)       # `|&b| ..` / `|b: &u8| ..`: the argument is a reference to the element
    try:
        outs = px.run(body, args=([arg] if is_fn else [clo, arg]))
    except Exception:
        return None
    trues = set()
    for o in outs:
        if o.kind != "return":
            if o.kind in ("infeasible", "unreachable"):
                continue
            return None
        v = o.value
        if isinstance(v, tuple) and len(v) == 4 and v[0] == "binop" and v[1] == "Eq" and \
                ((v[2] == sym and is_const(v[3])) or (v[3] == sym and is_const(v[2]))):
            trues.add(v[3][1] if v[2] == sym else v[2][1])     # the result *is* an equality test of the argument
            continue
        if not is_const(v):
            return None
        if not v[1]:
            continue
        pins = set()
        for k, val_ in o.cons.known.items():
            if isinstance(k, tuple) and len(k) == 4 and k[0] == "binop" and k[1] == "Eq" and val_ == 1:
                if k[2] == sym and is_const(k[3]):
                    pins.add(k[3][1])
                elif k[3] == sym and is_const(k[2]):
                    pins.add(k[2][1])
        if len(pins) != 1:
            return None
        trues |= pins
    return trues


def boolish(ctx, ty):
    """a two-valued flag type: bool, or a crate-local enum with exactly two field-less variants (PX represents both as 0/1)"""
    return ty == "bool" or ty in P.two_valued_enums(ctx.facts)


def option_payload_type(ctx, ty):
    """T for `Option<T>` and for crate-local enums isomorphic to Option (which PX represents as Option values); else None"""
    if ty.startswith("std::option::Option<") and ty.endswith(">"):
        return ty[len("std::option::Option<"):-1]
    base = ty.split("<")[0]
    ol = P.option_like_enums(ctx.facts)
    if base in ol:
        a = ctx.facts.adts[base]
        for v in a["variants"]:
            if v["fields"]:
                return v["fields"][0]["ty"]
    return None


def known_empty(log, seq):
    """True when the path constraints establish len(seq) == 0 (any of the canonical forms of the length test)"""
    ln = ("len", seq)
    for k, t, v in log:
        if k != "eq" or not (isinstance(t, tuple) and t and t[0] == "binop"):
            continue
        op, a, b = t[1], t[2], t[3]
        if a == ln and is_const(b):
            c = b[1]
            if (op == "Eq" and c == 0 and v == 1) or (op == "Ne" and c == 0 and v == 0) or (op == "Lt" and c == 1 and v == 1) \
                    or (op == "Le" and c == 0 and v == 1):
                return True
        if b == ln and is_const(a):
            c = a[1]
            if (op == "Le" and c == 1 and v == 0) or (op == "Lt" and c == 0 and v == 0) or (op == "Eq" and c == 0 and v == 1) \
                    or (op == "Ne" and c == 0 and v == 0):
                return True
    return False


def deref_final(o, t, depth=0):
    """what a reference term denotes in the final state of path o (aggregates are followed; anything else stays symbolic)"""
    if not (isinstance(t, tuple) and t and t[0] == "ref" and len(t) > 2) or depth > 4:
        return t
    v = o.state.env.get(t[1])
    if v is None:
        return t
    for e in t[2]:
        if e[0] == "f" and is_agg(v):
            v = agg_get(v, e[1])
        elif e[0] == "as" and is_agg(v) and v[3] == e[1]:
            continue
        else:
            return t
        if v is None:
            return t
    return deref_final(o, v, depth + 1)
