"""shared helpers for rule modules (queries over the fact base and PX outcomes)"""
from .. import facts as F
from .. import px as P
from ..px import is_const, const, is_agg, agg_get, fmt_term
from ..zone import Zone


def where(ev_or_span):
    sp = ev_or_span.get("span") if "span" in ev_or_span else ev_or_span
    return F.loc(sp)


def aggregates(facts, adt, variant=None):
    """(body, bb, stmt) for every aggregate construction of adt[::variant] in non-cleanup code"""
    out = []
    for b in facts.bodies.values():
        if b["kind"] == "promoted":
            continue
        for i, blk in enumerate(b["blocks"]):
            if blk["cleanup"]:
                continue
            for st in blk["stmts"]:
                if st["k"] == "assign" and st["rv"]["k"] == "aggregate" and st["rv"].get("agg") == "adt" \
                        and st["rv"]["adt"] == adt and (variant is None or st["rv"]["variant"] == variant):
                    out.append((b, i, st))
    return out


def calls_named(facts, *names, include_promoted=False):
    out = []
    for b, i, t in facts.all_calls(include_promoted):
        c = t["callee"]
        if "path" in c and F.callee_is(c, *names):
            out.append((b, i, t))
    return out


def call_events(outcome, *names):
    for ev in outcome.events:
        if ev["k"] == "call" and (ev["names"] & set(names)):
            yield ev


def zone_at(outcome, ev, extra=()):
    """zone of the path relations accumulated up to event ev"""
    c = outcome.cons
    nrel = ev.get("nrel", len(c.rel))
    cc = P.Cons()
    cc.rel = list(c.rel[:nrel])
    return Zone(cc, extra_rels=extra)


def short(t, n=160):
    s = fmt_term(t)
    return s if len(s) <= n else s[:n] + "…"


def arg_type(t, i):
    a = t["args"][i]
    if "place" in a:
        return a["place"]["ty"]["s"]
    return a.get("ty", {}).get("s", "")


def method_name(c):
    p = c.get("res_path") or c.get("path") or ""
    return p.split("::")[-1]


def body_calls(facts, body, pred):
    out = []
    for i, t in facts.calls(body):
        c = t["callee"]
        if "path" in c and pred(c):
            out.append((i, t))
    return out


def reachable_bodies(facts, roots, follow_closures=True):
    """crate-local bodies reachable from roots through resolved calls and closure/coroutine aggregates"""
    seen = set()
    work = [r for r in roots if r in facts.bodies]
    while work:
        n = work.pop()
        if n in seen:
            continue
        seen.add(n)
        b = facts.bodies[n]
        for blk in b["blocks"]:
            if blk["cleanup"]:
                continue
            for st in blk["stmts"]:
                if st["k"] == "assign" and st["rv"]["k"] == "aggregate" and st["rv"].get("agg") in ("closure", "coroutine"):
                    d = st["rv"]["def"]
                    if d in facts.bodies and d not in seen:
                        work.append(d)
            t = blk["term"]
            if t and t["k"] == "call":
                c = t["callee"]
                for k in ("res_path", "path"):
                    nm = c.get(k)
                    if nm and nm in facts.bodies and nm not in seen:
                        work.append(nm)
                # a trait method resolved to a generic forwarding impl (`<&mut I as Iterator>::next`, `Box<T>`, `Pin<P>` ...)
                # or left unresolved still reaches the crate's own impl of that trait for a local type named in the call
                tr = c.get("trait")
                if tr and not c.get("res_local"):
                    meth = (c.get("path") or "").split("::")[-1]
                    full = (c.get("res_full") or "") + " " + (c.get("full") or "")
                    for f in facts.fns.values():
                        if f.get("impl_trait") == tr and f["path"].endswith("::" + meth) and f["path"] not in seen:
                            self_adt = (f.get("impl_self") or "").split("<")[0]
                            if self_adt and self_adt in full:
                                work.append(f["path"])
    return seen


_PX0 = None


def final_read(ctx, o, root, path):
    """value of a place at the end of path `o`"""
    global _PX0
    if _PX0 is None or _PX0.facts is not ctx.facts:
        _PX0 = P.PX(ctx.facts)
    return _PX0._read(o.state, root, path)


def self_field(ctx, o, field, param=1):
    return final_read(ctx, o, ("H", ("param", param)), (("f", field),))


def entry_field(field, param=1):
    """term a field of *self has at function entry"""
    return ("field", ("deref", ("param", param)), field)


def impl_fn(ctx, trait, self_adt, method):
    """body name of `impl trait for self_adt`'s method (by item facts, not by string building)"""
    out = []
    for f in ctx.facts.fns.values():
        if f.get("impl_trait") == trait and f["path"].endswith("::" + method) and (f.get("impl_self") or "").split("<")[0] == self_adt:
            out.append(f["path"])
    return out


def inherent_fn(ctx, self_adt, method):
    out = []
    for f in ctx.facts.fns.values():
        if not f.get("impl_trait") and f["path"].endswith("::" + method) and (f.get("impl_self") or "").split("<")[0] == self_adt:
            out.append(f["path"])
    return out


def poll_shape(v):
    """classify a Poll<Option<Result<..>>> value term -> ('Pending'|'None'|'Ok'|'Err'|'?', payload)"""
    if not is_agg(v):
        return "?", v
    if v[3] == "Pending":
        return "Pending", None
    if v[3] == "Ready":
        o = agg_get(v, "0")
        if is_agg(o):
            if o[3] == "None":
                return "None", None
            if o[3] == "Some":
                r = agg_get(o, "0")
                if is_agg(r) and r[3] in ("Ok", "Err"):
                    return r[3], agg_get(r, "0")
                return "Some?", r
        return "Ready?", o
    return "?", v


def cons_zone(o, extra=(), terms=()):
    cc = P.Cons()
    cc.rel = list(o.cons.rel)
    return Zone(cc, extra_rels=extra, extra_terms=terms)


UNIT_TRAITS = ("futures_core::Stream", "http_body::Body", "std::io::Write", "std::iter::Iterator", "Entity", "std::ops::Drop",
               "std::future::Future")


def unit_types(ctx):
    """crate-local types that are analysis units of their own (they implement a stream / body / writer / iterator / entity
    / destructor trait by hand); every other local type is a helper type whose methods are expanded where they are called"""
    if hasattr(ctx.facts, "_unit_types"):
        return ctx.facts._unit_types
    out = set()
    for im in ctx.facts.doc["impls"] if hasattr(ctx.facts, "doc") else []:
        if im.get("trait") in UNIT_TRAITS and im.get("self_adt") and not im.get("span", {}).get("exp"):
            out.add(im["self_adt"])
    ctx.facts._unit_types = out
    return out


def helper_inline(ctx, own=(), never=()):
    """inlining policy used by the unit analyses: expand crate-local callees that are helpers of the unit under analysis -
    free functions, closures, methods of the unit's own types (`own`: ADT paths) and methods of helper types - so that
    extracting a helper, or introducing a small private type, does not change what is analysed; methods of *other* unit
    types stay calls (they have their own rules)"""
    own = tuple(o.split("<")[0] for o in own)
    units = unit_types(ctx)

    def pol(c, d):
        if not c.get("res_local") or c.get("res_path") in never:
            return False
        f = ctx.facts.fns.get(c.get("res_path"))
        if f is None:
            return True          # closure / coroutine bodies
        s = f.get("impl_self")
        if not s:
            return True
        base = s.split("<")[0]
        return base in own or base not in units
    return pol
