"""C01 — announced length equals bytes delivered.  Decides, over all paths of
`serve`: (R1) every 200/206 exit carries exactly one Content-Length and every
other exit uses a one-shot body (exact hint); (R2) on streamed exits the
Content-Length value, the length-checking stream's budget and end-start of the
range handed to Entity::get_range are one term; (R3) the length-checking
stream's decision table (fits -> pass the same chunk and subtract exactly its
length; too long / too short -> error, never data or a clean end), and the
layers above it (`Body::poll_frame`, the stream enum) poll the wrapped stream
once per poll and hand its answer on unchanged; (R4-R6) the
multipart length (R7: and the body's exact size hint is that same owed-bytes
field / the pending one-shot payload's length) is the checked sum of exactly the pieces the multipart stream
later emits, each subtracted once.  Does not decide: that a foreign entity's
chunks have the length Buf::remaining reports; hyper's framing."""
from . import serve_model as SM
from . import bodyrules as BR
from . import multipart as MP

CONFIGS_QUICK = ["dir"]


def run(ctx):
    M = SM.analyse(ctx)
    SM.fail_unrecognised(ctx, "C01.R1", M)
    SM.c01_typestate(ctx, M)
    SM.c01_single_source(ctx, M)
    BR.exactlen_table(ctx, "C01.R3")
    BR.exactlen_ctor_passthrough(ctx, "C01.R3.ctor")
    BR.layers_transparent(ctx, "C01.R3.layers")
    BR.body_hint_tables(ctx, "C01.R7.hint", "C01.R7.eos")
    MP.length_sum(ctx, "C01.R4")
    MP.stream_accounting(ctx, "C01.R5")
    MP.correspondence(ctx, "C01.R6")
    MP.stream_frame(ctx, "C01.R5.frame")
