"""C02 — body bytes are exactly the entity bytes the headers denote.  Decides:
(R1) refinement RNG: every range the parser resolves satisfies start < end <= len
(zone solver over all parser paths), the resolved list is constructed only there
and no call can reorder / drop its elements; (R2) on the single-range exit the
Content-Range arguments are (x.start, x.end-1, len) of the very x passed to
get_range, Content-Range is present iff 206, the 200 body is get_range(0..len);
(R3) entity data reaches the body only through the length-checked stream over
get_range, and none of the stream types can buffer or replay a chunk (no field
of the data type), and the layers above them hand each chunk on unchanged, once.
Does not decide: what an entity returns for a range."""
from . import serve_model as SM
from . import rangeparse as RP
from . import C03
from . import who

CONFIGS_QUICK = ["dir"]


def run(ctx):
    RP.rng_refinement(ctx, "C02.R1")
    A = RP.analyse(ctx)
    C03.r6_order(ctx, A, rule="C02.R1.flow")
    M = SM.analyse(ctx)
    SM.fail_unrecognised(ctx, "C02.R2", M)
    SM.c02_content_range(ctx, M)
    who.entity_bytes_flow(ctx, "C02.R3")
    from . import bodyrules as BR
    BR.exactlen_ctor_passthrough(ctx, "C02.R3.ctor")
    BR.layers_transparent(ctx, "C02.R3.layers")
    from . import multipart as MP
    MP.stream_frame(ctx, "C02.R3.frame")
    MP.correspondence(ctx, "C02.R3.pieces")
    # ... and the crate's own entity returns the file bytes of the range it is asked for (C18.R2 / R3: positional reads at
    # start + bytes already delivered, bounded by what is left)
    from . import C18
    C18.r2_r3_step(ctx, C18.find_entity(ctx))
