"""C03 — Range resolution per RFC 7233.  Decides, for all header strings and all
lengths: (R1) the range parser has no reachable panic site; (R2) every push /
skip of the parser agrees with the RFC terms for the suffix / closed / open
forms (refinement over path relations, zone solver); (R3) integers are parsed
only from digit-checked substrings - by `FromStr` behind a digits-only guard, or by a
hand-written digit loop / try_fold that is proven to be exactly 1*DIGIT (starts at
0, every turn establishes '0'..='9' for the one byte it takes and leaves acc*10+d
without wrap-around, rejects only for empty / non-digit / overflow, accepts only
with the input exhausted); (R4) rejection rows; (R5) the dispatch in
`serve` (ignore -> 200 of 0..L, unsatisfiable -> 416 `bytes */L`, one -> 206,
several -> multipart iff estimate < L with a constant in the accepted family; the
estimate is a checked fold or an explicit loop over the whole resolved list that
gives up only on overflow or on a sound early stop against L);
(R6) request order is preserved (no reordering call on the range list; in the
multipart stream position h emits the header rendered for range h and the bytes of
range h).
Does not decide: OWS tokenisation beyond the parser's own trimming; that the
tokeniser accepts exactly the RFC grammar."""
from ..px import const, is_const, is_agg, agg_get, mk_binop, TY, fmt_term
from ..zone import Zone
from .. import px as P
from . import rangeparse as RP
from . import serve_model as SM
from .common import where, short, method_name, arg_type
from .. import census as CEN
from .. import facts as F

CONFIGS_QUICK = ["dir"]


def cons_of(o, extra=()):
    cc = P.Cons()
    cc.rel = list(o.cons.rel) + list(extra)
    return cc


def r1_totality(ctx, A):
    sites = CEN.census(ctx, A["outs"])
    n = 0
    for key, s in sorted(sites.items()):
        n += 1
        if s.failed:
            ctx.violation("C03.R1", "C03.R1|" + key,
                          "panic site in the range parser not discharged: %s (%s)" % (s.failed[0][0], s.failed[0][1]),
                          where=F.loc(s.span), detail={"paths": s.paths, "failed": s.failed[:3]})
        else:
            ctx.ok("C03.R1", key, detail={"paths": s.paths, "how": sorted(s.how)}, where=F.loc(s.span))
    # (the number of panic-capable sites is not a quality of the parser: a rewrite with fewer slicing operations has fewer)
    ctx.floor("C03.R1", n, 1, what="panic-capable sites in the range parser")
    ctx.floor("C03.R1.paths", len(A["outs"]), 10, what="paths of the range parser analysed")
    # completeness: every static site in the parser was visited
    stat = CEN.static_sites(ctx.facts, [A["fn"]])
    visited = {(s.fn, s.bb) for s in sites.values()}
    info = ctx.px(A["fn"])
    for (fn, kind, op, bb) in stat:
        if (fn, bb) not in visited:
            # allowed only if no PX path reached the block
            reached = any((fn == t[0] and bb == t[1]) for o in A["outs"] for t in o.trace)
            ctx.ob("C03.R1.complete", "%s|%s|bb-unvisited" % (fn, kind), True,
                   detail="static %s site %s not reached by any analysed path (dead or behind a pruned edge)" % (kind, op), nontrivial=False)


def r2_refinement(ctx, A):
    L = A["L"]
    npush = nskip = 0
    for idx, row in enumerate(A["rows"]):
        o = row["o"]
        info = row["info"]
        nums = info["nums"]
        for ev, why in info["unrecognised"]:
            ctx.violation("C03.R2", "C03.R2|unrecognised|%s" % why.split(" ")[0],
                          "UNRECOGNISED number provenance in the range parser: %s" % why, where=where(ev))
        form = row["form"]
        pushes = row["pushes"]
        vv = RP.value_variant(row["value"]) if row["kind"] == "return" else None
        if row["kind"] == "return" and vv == "None" and row["all_ok"]:
            ctx.violation("C03.R4", "C03.R4|ignored-after-parse|%s" % form,
                          "the parser answers 'ignore' on a path where every number of a %s range-spec parsed successfully" % form,
                          where=where(nums[next(iter(nums))]["ev"]))
            continue
        if row["kind"] != "backedge":
            continue
        if not nums:
            continue
        if not row["all_ok"]:
            ctx.violation("C03.R2", "C03.R2|continue-after-parse-error",
                          "loop continues after an integer failed to parse (must ignore the header)", where=where(info["fromstr"][-1]))
            continue
        if form is None:
            ctx.violation("C03.R2", "C03.R2|unrecognised|form", "UNRECOGNISED range-spec form: numbers parsed as %s without a first-byte-pos or suffix-length" % sorted(nums),
                          where=where(nums[next(iter(nums))]["ev"]))
            continue
        cases = RP.spec_cases(form, nums, L)
        lastev = nums[next(iter(nums))]["ev"]
        # structural completeness of the form: nothing unparsed around the hyphen
        any_num = nums[next(iter(nums))]
        base, h = any_num["base"], any_num["h"]
        from ..models import len_term
        zfull = Zone(cons_of(o), extra_terms=(h, len_term(base)))
        if form == "open":
            if not zfull.entails("Eq", len_term(base), mk_binop("Add", h, const(1))):
                ctx.violation("C03.R2", "C03.R2|open-form-trailing",
                              "open range (`first-`) accepted although characters may follow the '-'", where=where(lastev))
        if len(pushes) > 1:
            ctx.violation("C03.R2", "C03.R2|double-push", "more than one push per range-spec", where=where(pushes[1]))
            continue
        if len(pushes) == 1:
            npush += 1
            pv = pushes[0]["args"][1]
            if not (is_agg(pv) and pv[2] and pv[2].endswith("ops::Range")):
                ctx.violation("C03.R2", "C03.R2|push-shape|%s" % form, "pushed value is not a Range aggregate", where=where(pushes[0]))
                continue
            ps, pe = agg_get(pv, "start"), agg_get(pv, "end")
            bad = []
            feas = 0
            for label, extra, S, E in cases:
                z = Zone(cons_of(o, extra), extra_terms=(ps, pe, S, E, L))
                if not z.feasible():
                    continue
                feas += 1
                if not z.entails("Eq", ps, S):
                    bad.append("case %s: pushed start %s is not the RFC start %s" % (label, short(ps, 60), short(S, 60)))
                if not z.entails("Eq", pe, E):
                    bad.append("case %s: pushed end %s is not the RFC end %s" % (label, short(pe, 60), short(E, 60)))
                if not z.entails("Lt", S, E):
                    bad.append("case %s: the pushed range may be empty or inverted (start < end not implied)" % label)
            inst = "push|%s" % form
            if bad:
                ctx.violation("C03.R2", "C03.R2|%s" % inst, "; ".join(bad[:3]), where=where(pushes[0]), detail=bad)
            else:
                ctx.ok("C03.R2", inst + "#%d" % idx, detail={"form": form, "cases": feas, "start": short(ps, 80), "end": short(pe, 80)}, where=where(pushes[0]))
                ctx.sample({"rule": "C03.R2", "form": form, "pushed": [short(ps, 80), short(pe, 80)], "cases": [c[0] for c in cases]})
        else:
            nskip += 1
            bad = []
            feas = 0
            for label, extra, S, E in cases:
                z = Zone(cons_of(o, extra), extra_terms=(S, E, L))
                if not z.feasible():
                    continue
                feas += 1
                if not z.entails("Le", E, S):
                    bad.append("case %s: a range-spec that selects bytes (RFC start %s < end %s possible) is dropped" % (label, short(S, 50), short(E, 50)))
            inst = "skip|%s" % form
            if bad:
                ctx.violation("C03.R2", "C03.R2|%s" % inst, "; ".join(bad[:3]), where=where(lastev), detail=bad)
            else:
                ctx.ok("C03.R2", inst + "#%d" % idx, detail={"form": form, "cases": feas}, where=where(lastev))
    ctx.floor("C03.R2.push", npush, 3, confirmed=None, what="push rows (suffix, closed, open)")
    forms_pushed = {row["form"] for row in A["rows"] if row["kind"] == "backedge" and row["all_ok"] and len(row["pushes"]) == 1}
    for need in ("suffix", "closed", "open"):
        if need not in forms_pushed:
            ctx.violation("C03.R2", "C03.R2|form-missing|%s" % need,
                          "no path of the parser resolves the %s form (%s) to a range: such range-specs are always ignored or rejected" %
                          (need, {"suffix": "`-n`", "closed": "`first-last`", "open": "`first-`"}[need]))
    ctx.floor("C03.R2.skip", nskip, 2, what="skip rows")


def closure_checks_digits(facts, closure_term):
    """does the closure's MIR call is_ascii_digit (or compare against b'0'..=b'9')?"""
    if not (is_agg(closure_term) and closure_term[1] == "closure"):
        return False
    b = facts.bodies.get(closure_term[2])
    if not b:
        return False
    for i, t in facts.calls(b):
        p = t["callee"].get("path", "")
        if p.endswith("is_ascii_digit"):
            return True
    return False


def r3_digits(ctx, A):
    """every integer FromStr on a header substring is guarded by a digit check of the same substring"""
    seen = {}
    for row in A["rows"]:
        o = row["o"]
        for ev in row["info"]["fromstr"]:
            seq = RP.seq_of_arg(ev)
            key = (ev["fn"], ev["bb"])
            guarded = ev["callee"].get("res_path") in A.get("units", ())     # a proven 1*DIGIT unit: digits-only is part of its proof
            idx = o.events.index(ev)
            for e in o.events[:idx]:
                if e["k"] != "call":
                    continue
                nm = e["callee"].get("path", "")
                # a digits-only test of the bytes of the same substring: all(p) == true with p = is-ASCII-digit, or any(q) == false
                # with q = is-not-ASCII-digit (the predicate's truth table over all 256 bytes is computed from its MIR)
                if nm.endswith("Iterator::all") or nm.endswith("Iterator::any"):
                    from .common import all_digits_guard
                    if all_digits_guard(ctx, o, e) == "pass":
                        it = e["snap"][0] if e["args"][0][0] == "ref" else e["args"][0]
                        if seq_mentions(it, seq):
                            guarded = True
                # first byte is an ASCII digit (u64::from_str only deviates from 1*DIGIT by a leading '+')
                if nm.endswith("is_ascii_digit"):
                    r = e.get("result")
                    if o.cons.known.get(r) == 1 and seq_mentions(e["snap"][0] if e["args"][0][0] == "ref" else e["args"][0], seq):
                        guarded = True
            # ... or the only deviation is excluded directly: the path has established that the substring does not start with '+'
            # (`s.as_bytes().first() == Some(&b'+')` false, `s.starts_with('+')` false); FromStr then accepts exactly 1*DIGIT
            if not guarded:
                for t, v in o.cons.known.items():
                    if v != 0 or not isinstance(t, tuple) or not t:
                        continue
                    if t[0] == "eq" and len(t) == 3:
                        for x, y in ((t[1], t[2]), (t[2], t[1])):
                            if isinstance(x, tuple) and x and x[0] == "first" and seq_mentions(x[1], seq) and is_agg(y) and y[3] == "Some" and \
                                    agg_get(y, "0") == const(43):
                                guarded = True
                    elif t[0] == "call" and t[1].endswith("::starts_with") and len(t[2]) == 2 and seq_mentions(t[2][0], seq):
                        lit = t[2][1]
                        if isinstance(lit, tuple) and lit[0] in ("refconst", "&"):
                            lit = lit[1]
                        if lit == const(43) or (isinstance(lit, tuple) and lit[0] in ("str", "bytes") and lit[1] == "+"):
                            guarded = True
            seen.setdefault(key, {"ev": ev, "guarded": True, "n": 0})
            seen[key]["n"] += 1
            if not guarded:
                seen[key]["guarded"] = False
    for i, (key, v) in enumerate(sorted(seen.items(), key=lambda kv: kv[0][1])):
        inst = "%s|from_str#%d" % (key[0], i)
        if v["guarded"]:
            ctx.ok("C03.R3", inst, where=where(v["ev"]), detail={"paths": v["n"]})
        else:
            ctx.violation("C03.R3", "C03.R3|" + inst,
                          "integer FromStr applied to a header substring without a preceding digits-only check "
                          "(u64::from_str accepts a leading '+', which is outside the Range grammar)", where=where(v["ev"]))
    ctx.floor("C03.R3", len(seen), 1, what="integer parses in the range parser")


def seq_mentions(t, seq, depth=0):
    if t == seq:
        return True
    if not isinstance(t, tuple) or depth > 12 or not t:
        return False
    items = t[1:] if isinstance(t[0], str) else t
    return any(seq_mentions(x, seq, depth + 1) for x in items if isinstance(x, tuple))


def r4_rejections(ctx, A):
    """rows returning 'ignore' are exactly: header absent/non-ASCII, wrong unit, no '-', number parse error"""
    n = 0
    for row in A["rows"]:
        if row["kind"] != "return":
            continue
        vv = RP.value_variant(row["value"])
        o = row["o"]
        if vv == "None":
            n += 1
        # loop-exit rows: Satisfiable iff the list is non-empty
        if vv in ("NotSatisfiable", A["variant"]):
            # find the is_empty decision on the path
            dec = None
            for t, v in o.cons.known.items():
                if t[0] == "binop" and t[1] == "Eq" and isinstance(t[2], tuple) and t[2][0] == "len" and t[3] == const(0):
                    dec = v
            if dec is None:
                ctx.violation("C03.R4", "C03.R4|exit-decision", "loop exit does not test the range list for emptiness")
            elif (dec == 1) != (vv == "NotSatisfiable"):
                ctx.violation("C03.R4", "C03.R4|exit-decision-inverted", "empty list must give NotSatisfiable, non-empty the list")
            else:
                ctx.ok("C03.R4", "exit|%s" % vv)
    ctx.floor("C03.R4", n, 4, what="'ignore' rows")
    if n:
        ctx.ok("C03.R4", "ignore-rows", detail={"rows": n})


def r6_order(ctx, A, rule="C03.R6"):
    """no reordering / removing method on any container of Range<u64> anywhere in the crate"""
    allowed = {"push", "new", "is_empty", "len", "iter", "deref", "index", "into_vec", "clone", "with_capacity",
               "as_slice", "into_iter", "next", "try_fold", "drop", "eq", "fmt", "as_ref", "borrow", "first", "last", "get",
               "ne", "assert_fields_are_eq", "debug_tuple_field1_finish",
               # read-only consumers of an iterator over the list (they build no list; typical in assertions and logging)
               "all", "any", "count", "fold", "sum", "for_each", "map", "position", "find", "max", "min", "max_by_key", "min_by_key",
               "new_debug", "new_display", "copied", "cloned", "by_ref", "size_hint", "is_sorted", "is_sorted_by_key", "windows", "contains"}
    n = 0
    for b, i, t in ctx.facts.all_calls():
        if not t["args"]:
            continue
        a0 = arg_type(t, 0)
        full = t["callee"].get("res_full") or t["callee"].get("full") or ""
        if "Range<u64>" not in a0:
            continue
        if t["callee"].get("res_local") or t["callee"].get("local"):
            continue  # crate-local functions that receive the list are analysed through the calls they make themselves
        if not ("Vec<" in a0 or "SmallVec<" in a0 or "[std::ops::Range<u64>]" in a0 or "Iter<" in a0):
            continue
        n += 1
        m = method_name(t["callee"])
        if m == "extend" and len(t["args"]) == 2 and arg_type(t, 1).startswith("std::option::Option<std::ops::Range<u64>>"):
            continue        # extend(Option<Range>) appends at most one element at the end: a conditional push
        if m not in allowed:
            ctx.violation(rule, rule + "|%s|%s" % (b["name"], m),
                          "method `%s` on a list of resolved ranges can reorder/drop elements (request order must be preserved)" % m,
                          where=F.loc(t["span"]))
    ctx.ok(rule, "range-list methods", detail={"call_sites": n})
    ctx.floor(rule, n, 4, what="method calls on range lists")


def r4_tokenisation(ctx, A):
    """the range-spec `r` each number is sliced from is: header value as str -> after the literal `bytes=` -> split at
    ',' -> leading SP / HTAB trimmed (optional whitespace after commas)"""
    n = 0
    for row in A["rows"]:
        if row["kind"] != "backedge" or not row["all_ok"] or not row["pushes"]:
            continue
        any_num = row["info"]["nums"][next(iter(row["info"]["nums"]))]
        base = any_num["base"]
        n += 1
        bad = []
        o = row["o"]
        evs = [e for e in o.events if e["k"] == "call"]

        def find(last):
            return [e for e in evs if (e["callee"].get("path") or "").split("::")[-1] == last]
        tr = find("trim_start_matches")
        sp = find("split")
        pf = find("strip_prefix")
        ts = find("to_str")
        nx = [e for e in evs if (e["callee"].get("path") or "") == "std::iter::Iterator::next"]
        if not tr or repr(base) != repr(("deref", tr[-1]["result"])):
            bad.append("the range-spec is not the result of trimming a list element")
        else:
            arr = tr[-1]["args"][1]
            if is_agg(arr) and arr[1] == "array":
                chars = sorted(v[1] for _, v in arr[4])
            elif is_const(arr):
                chars = [arr[1]]
            else:
                from .common import pred_true_set
                ts_ = pred_true_set(ctx, arr)      # a closure pattern: the characters on which it answers true
                chars = sorted(ts_) if ts_ is not None else None
            if chars != [9, 32]:
                bad.append("the characters trimmed after a comma are %s, not SP and HTAB" % chars)
            src = tr[-1]["snap"][0] if tr[-1]["args"][0][0] == "ref" else tr[-1]["args"][0]
            if not nx or repr(nx[-1]["result"]) not in repr(src):
                bad.append("the trimmed text is not an element produced by the list iterator")
        # the unit prefix: strip_prefix("bytes=") is Some(rest), or starts_with("bytes=") holds and rest = value[6..]
        sw = [e for e in find("starts_with") if e["args"][1] == ("str", "bytes=") and o.cons.known.get(e.get("result")) == 1]
        split_src = repr(sp[-1]["args"][0]) + repr(sp[-1]["snap"][0]) if sp else ""
        via_starts_with = False
        if sw and sp:
            v0 = sw[-1]["snap"][0] if sw[-1]["args"][0][0] == "ref" else sw[-1]["args"][0]
            while isinstance(v0, tuple) and v0 and v0[0] in ("slice_of", "&", "refconst"):
                v0 = v0[1]
            via_starts_with = repr(("slice", v0, const(6), None)) in split_src
        if not sp or sp[-1]["args"][1] != const(44):
            bad.append("the byte-range-set is not split at ','")
        elif not via_starts_with and (not pf or repr(pf[-1]["result"]) not in split_src):
            bad.append("the text that is split is not what follows the unit prefix")
        if not via_starts_with and (not pf or pf[-1]["args"][1] != ("str", "bytes=")):
            bad.append("the unit prefix `bytes=` is not stripped")
        if not ts:
            bad.append("the header value is not checked to be visible ASCII (to_str)")
        if bad:
            ctx.violation("C03.R4", "C03.R4|tokenisation|%s" % bad[0][:40], "range-spec tokenisation: " + "; ".join(bad), where=where(row["pushes"][0]))
            return
    if n:
        ctx.ok("C03.R4", "range-spec = trim_start(SP/HTAB) of an element of split(',') of the value after `bytes=`", detail={"rows": n})
    ctx.floor("C03.R4.tok", n, 3, what="push rows whose range-spec provenance was checked")


def run(ctx):
    A = RP.analyse(ctx)
    ctx.info("range parser = %s (%d paths)" % (A["fn"], len(A["outs"])))
    r1_totality(ctx, A)
    r2_refinement(ctx, A)
    r3_digits(ctx, A)
    r4_rejections(ctx, A)
    r4_tokenisation(ctx, A)
    r6_order(ctx, A)
    # "a multipart 206 of exactly those ranges in request order": part h carries the header rendered for range h and the bytes of
    # range h (the same position indexes both lists)
    from . import multipart as MP
    MP.correspondence(ctx, "C03.R6.pieces")
    SM.c03_r5(ctx)
    ctx.assume("u64::from_str accepts an optional leading '+' followed by 1*DIGIT and nothing else (std documentation)")
    ctx.assume("str::find(ch) returns the byte index of the first match; ASCII needles are one byte wide")
