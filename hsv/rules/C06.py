"""C06 — multipart/byteranges.  Decides: (R1) multipart exits are 206 with a
`multipart/byteranges; boundary=<token>` Content-Type, one Content-Length and no
Content-Range (GET and HEAD); (R2) the boundary token is identical in the
Content-Type literal, the part delimiter template and the closing delimiter; the
part header is delimiter + `Content-Range: bytes {}-{}/{}` + entity headers
rendered `name: value CRLF` + blank line; (R3) template arguments are
(r.start, r.end-1, entity length) of the loop's r; (R4) the entity's headers are passed to every part
exactly when the request had no If-Range; (R5) part headers are appended once
per element of an ascending iteration over the range slice and the stream uses
one index for both lists; (R6) the announced length is exactly the sum of the
pieces streamed (C01.R4-R6), each part's bytes come from the entity's stream for
that range through the length-checked stream, and the forwarding layers above the
multipart stream hand each piece on unchanged.  Does not decide: header values the entity supplies."""
from . import serve_model as SM
from . import multipart as MP
from .common import where
from ..px import is_agg, agg_get

CONFIGS_QUICK = ["dir"]


def r4_entity_headers(ctx, M):
    prep = MP.find_prepare(ctx)
    n = 0
    for r in SM.ok_rows(M):
        for e in r.o.events:
            if e["k"] == "call" and e["callee"].get("res_path") == prep:
                n += 1
                arg = [a for a, op in zip(e["args"], e["argops"]) if "HeaderMap" in (op.get("place", {}).get("ty", {}).get("s") or "")]
                if not arg:
                    ctx.violation("C06.R4", "C06.R4|no-hdr-arg", "UNRECOGNISED: the preparation function gets no Option<HeaderMap>", where=where(e))
                    continue
                a = arg[0]
                ifr = r.atoms.get("get(IF_RANGE)")
                from .common import deref_final
                pay = deref_final(r.o, agg_get(a, "0")) if is_agg(a) and a[3] == "Some" else None      # owned map, or a borrow of it
                has = isinstance(pay, tuple) and bool(pay) and pay[0] == "hdrs" and any(h[0] == ("ENTITY",) for h in pay[1])
                if ifr == "None" and not has:
                    ctx.violation("C06.R4", "C06.R4|missing", "without If-Range the entity's headers are not passed to the multipart parts", where=where(e))
                pe = SM.parser_event(ctx, r)
                range_seen = pe is not None and not (is_agg(pe["args"][0]) and pe["args"][0][3] == "None")
                # (rows on which the range parser was handed `None` cannot have several ranges: C03.R4 - not multipart rows)
                if ifr == "Some" and has and range_seen:
                    ctx.violation("C06.R4", "C06.R4|with-if-range", "with If-Range the entity's headers are still rendered into every part (the parts carry them "
                                  "only when the request had no If-Range)", where=where(e))
    ctx.ok("C06.R4", "entity headers rendered into every part iff the request had no If-Range", detail={"rows": n})
    ctx.floor("C06.R4", n, 4, what="multipart preparation call rows")


def r5_order(ctx):
    R = MP.prepare_rows(ctx)
    fn = R["fn"]
    b = ctx.facts.bodies[fn]
    # the ranges loop iterates a plain slice iterator created from the ranges parameter
    its = [t for i, t in ctx.facts.calls(b) if t["callee"].get("path") == "std::iter::IntoIterator::into_iter" and "[std::ops::Range<u64>]" in (t["callee"].get("res_full") or "")]
    rev = [t for i, t in ctx.facts.calls(b) if t["callee"].get("path", "").split("::")[-1] in ("rev", "sort", "sort_by", "sort_by_key", "reverse", "skip", "step_by", "take", "filter", "chain", "zip")]
    if len(its) != 1 or rev:
        ctx.violation("C06.R5", "C06.R5|iteration", "part headers are not built by one plain ascending iteration over the range slice (%d into_iter, adaptors: %s)" %
                      (len(its), [t["callee"]["path"] for t in rev]))
    else:
        ctx.ok("C06.R5", "one ascending slice iteration builds the part headers")
    # the stream indexes both lists with the same position (checked on terms in C01.R6: part body uses ranges[h], part header part_headers[h])


def run(ctx):
    M = SM.analyse(ctx)
    SM.fail_unrecognised(ctx, "C06.R1", M)
    toks = SM.c06_exits(ctx, M)
    toks2 = MP.part_template(ctx, "C06.R2", toks)
    MP.correspondence(ctx, "C06.R6.pieces")
    allt = set(toks2) | ctx.__dict__.get("_boundaries", set())
    if len(allt) == 1:
        ctx.ok("C06.R2", "boundary token %r is the same in Content-Type, part delimiter and closing delimiter" % next(iter(allt)))
    else:
        ctx.violation("C06.R2", "C06.R2|boundary-mismatch", "boundary tokens disagree: %s" % sorted(allt))
    r4_entity_headers(ctx, M)
    r5_order(ctx)
    MP.length_sum(ctx, "C06.R6.sum")
    MP.stream_accounting(ctx, "C06.R6.acct")
    MP.stream_frame(ctx, "C06.R6.frame")
    # "exactly entity bytes a..=b" per part: the entity's stream for range h goes only into the length-checked stream with budget
    # |range h|, and the layers above the multipart stream hand each piece on unchanged
    from . import who
    from . import bodyrules as BR
    from . import rangeparse as RP
    from . import C03
    # "for each satisfiable range in request order": every satisfiable spec of the header is resolved and kept, in order
    A = RP.analyse(ctx)
    C03.r2_refinement(ctx, A)
    C03.r6_order(ctx, A, rule="C06.R5.flow")
    who.entity_bytes_flow(ctx, "C06.R6.flow")
    BR.layers_transparent(ctx, "C06.R6.layers")
