"""C20 — terminated bodies stay terminated.  Decides: (R1) every terminal return
of the chunk reader leaves the shared state in a variant whose row returns
Ready(None) without data, and (R1.writer) no producer-side entry point (flush, Drop,
abort) turns a terminated shared state back into a live one; (R2) the one-shot body's payload is taken; (R3) the
length-checking stream yields only None/Err after a terminal row when its inner
stream stays finished; (R4) the multipart stream's object invariant
(`h <= n and (cur is Some => p = 1 and h < n)`; the position (h, p) is read from the
packed integer 2h+p, from an index plus a two-valued phase, or from an enum
{headers(h), body(h), trailer, end} whose variants are classified by what the step
does in each of them) is
established by the constructor, preserved by every loop turn and return, makes
both index operations in bounds, and every terminal post-state is absorbing
(re-analysis from that state yields only None/Err and reaches no unprovable
index); (R5) panic sites on these poll paths are discharged under the invariant;
(R6) `Body::poll_frame` and the stream enum add nothing of their own: they poll the
wrapped stream once and hand its answer on, so what holds for the streams holds for
the body.
Does not decide: entity streams that resurrect after finishing (excluded by the
statement)."""
from . import bodyrules as BR
from . import multipart as MP
from . import chunker as CH

CONFIGS_QUICK = ["dir"]


def run(ctx):
    CH.reader_terminal(ctx, "C20.R1")
    CH.writer_never_resurrects(ctx, "C20.R1.writer")
    BR.once_taken(ctx, "C20.R2")
    BR.exactlen_table(ctx, "C20.R3.table")
    BR.exactlen_fused(ctx, "C20.R3")
    MP.constructor_inv(ctx, "C20.R4")
    MP.stream_invariant(ctx, "C20.R4")
    BR.layers_transparent(ctx, "C20.R6")
