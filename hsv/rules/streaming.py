"""Rules over `streaming_body` / the builder's `build` and the gzip BodyWriter.

Roles are found from the public API: the pub fn `streaming_body` returns the
builder struct; its bool field computed from the crate's `should_gzip` is SG, the
one computed from the method comparison with HEAD is BN (body needed), the u32
field is the gzip level."""
import itertools
from ..px import const, is_const, is_agg, agg_get, fmt_term
from .. import px as P
from .. import facts as F
from ..tabeval import Evaluator, Opt, Stuck, Trie
from . import serve_model as SM
from .common import where, short, inherent_fn, impl_fn, aggregates, boolish, helper_inline


def find_builder(ctx):
    from ..check import FailClosed
    sb = [f for f in ctx.facts.fns.values() if f["kind"] == "fn" and f["path"].split("::")[-1] == "streaming_body" and f.get("vis") == "Public"]
    if len(sb) != 1:
        raise FailClosed("pub fn streaming_body not found uniquely")
    fn = sb[0]["path"]
    # (a private constructor the public function delegates to is expanded; the negotiation function stays a call)
    never = tuple(f["path"] for f in ctx.facts.fns.values() if f["path"].split("::")[-1] == "should_gzip")
    outs = [o for o in ctx.px(fn, inline=helper_inline(ctx, never=never), key="builder-ctor") if o.kind == "return"]
    if not outs or not all(is_agg(o.value) for o in outs):
        raise FailClosed("streaming_body does not return a builder aggregate on every path")
    v = outs[0].value
    adt = v[2]
    roles = {}
    a0 = ctx.facts.adts[adt]
    bools = [f["name"] for f in a0["variants"][0]["fields"] if boolish(ctx, f["ty"])]
    # the negotiation flag: the two-valued field that is the result of the crate's `should_gzip` call, or that is a constant
    # tracking that result on every constructor path (`if should_gzip(..) { A } else { B }`); `*_inv` records the polarity
    sgcalls = set()
    for o in outs:
        for t_, v_ in o.cons.known.items():
            if isinstance(t_, tuple) and t_[0] == "call" and t_[1].split("::")[-1] == "should_gzip":
                sgcalls.add(t_)
    for name in bools:
        vals = [(agg_get(o.value, name), o) for o in outs]
        if all(isinstance(t, tuple) and t[0] == "call" and t[1].split("::")[-1] == "should_gzip" for t, _ in vals):
            roles["sg"], roles["sg_term"], roles["sg_inv"] = name, vals[0][0], 0
        elif len(sgcalls) <= 1 and any(isinstance(t, tuple) and t[0] == "call" and t[1].split("::")[-1] == "should_gzip" for t, _ in vals) and \
                all(is_const(t) or (isinstance(t, tuple) and t[0] == "call" and t[1].split("::")[-1] == "should_gzip") for t, _ in vals):
            # the negotiation result on some constructor paths, a constant on others: the role is clear, the rule C17.R3 reports it
            c = [t for t, _ in vals if not is_const(t)][0]
            roles["sg"], roles["sg_term"], roles["sg_inv"] = name, c, 0
            roles["sg_partial"] = [(o, t) for t, o in vals if is_const(t)]
        elif len(sgcalls) == 1 and all(is_const(t) for t, _ in vals):
            c = next(iter(sgcalls))
            rel = {(o.cons.known.get(c), t[1]) for t, o in vals}
            if rel == {(1, 1), (0, 0)}:
                roles["sg"], roles["sg_term"], roles["sg_inv"] = name, c, 0
            elif rel == {(1, 0), (0, 1)}:
                roles["sg"], roles["sg_term"], roles["sg_inv"] = name, c, 1
    if "sg" in roles:
        rest = [b for b in bools if b != roles["sg"]]
        if len(rest) == 1:
            roles["bn"] = rest[0]
            roles["bn_term"] = None
            roles["bn_inv"] = 0      # fixed below from the constructor's table (head_no_writer)
    roles["ctor_outs"] = outs
    a = ctx.facts.adts[adt]
    for f in a["variants"][0]["fields"]:
        if f["ty"] == "u32":
            roles["level"] = f["name"]
        elif f["ty"] == "usize":
            roles["chunk"] = f["name"]
    if not {"sg", "bn", "level", "chunk"} <= set(roles):
        raise FailClosed("builder fields not recognised: %r" % sorted(roles))
    build = inherent_fn(ctx, adt, "build")
    if len(build) != 1:
        raise FailClosed("builder has no unique `build`")
    return {"fn": fn, "adt": adt, "roles": roles, "build": build[0], "ctor_value": v, "ctor_out": outs[0], "ctor_outs": outs}


def gzip_ctor(ctx):
    """(writer adt, name of the constructor that wraps the chunk writer in a GzEncoder, name of the plain one)"""
    from ..check import FailClosed
    inner = [a for a in ctx.facts.adts.values() if a["local"] and a["kind"] == "enum" and
             any(any("GzEncoder" in f["ty"] for f in v["fields"]) for v in a["variants"])]
    if len(inner) != 1:
        raise FailClosed("writer state enum (variant holding a GzEncoder) not found uniquely")
    e = inner[0]
    gzv = [v["name"] for v in e["variants"] if any("GzEncoder" in f["ty"] for f in v["fields"])][0]
    rawv = [v["name"] for v in e["variants"] if len(v["fields"]) == 1 and "GzEncoder" not in v["fields"][0]["ty"]]
    deadv = [v["name"] for v in e["variants"] if not v["fields"]]
    ctors = {}
    for b, i, st in aggregates(ctx.facts, e["path"]):
        ctors.setdefault(st["rv"]["variant"], set()).add(b["name"])
    return {"enum": e["path"], "gz": gzv, "raw": rawv[0] if rawv else None, "dead": deadv[0] if deadv else None, "ctors": ctors}


def _variants_of(v, enum, depth=0):
    """variants of `enum` that occur as aggregates inside value v"""
    out = []
    if is_agg(v) and depth < 6:
        if v[2] == enum:
            out.append(v[3])
        for _, x in v[4]:
            out += _variants_of(x, enum, depth + 1)
    return out


def head_no_writer(ctx, rule):
    B = find_builder(ctx)
    r = B["roles"]
    # BN == (method != HEAD): evaluate the constructor's rows for method in {GET, HEAD, POST}
    trie = Trie(B["ctor_outs"])
    badm = []
    gots = {}
    for meth in ("GET", "HEAD", "POST"):
        def calls(name, args, term, meth=meth):
            last = name.split("::")[-1]
            if name.endswith("AsRequest::method") or last == "method":
                return "http::Method::" + meth
            if last in ("should_gzip", "headers"):
                return 0
            raise Stuck("call %s" % name)

        def extra(ev, t):
            if t[0] == "named":
                return t[1]
            return NotImplemented
        ev = Evaluator({1: "REQ"}, calls=calls, extra=extra)
        try:
            hits = trie.select(ev)
            if len(hits) != 1:
                raise Stuck("%d rows" % len(hits))
            got = ev.ev(agg_get(hits[0].value, r["bn"]))
        except Stuck as e:
            ctx.violation(rule, rule + "|body-needed-unrecognised", "UNRECOGNISED: the body-needed flag cannot be evaluated (%s)" % e)
            badm = None
            break
        gots[meth] = int(bool(got))
    if badm is not None:
        if gots == {"GET": 0, "HEAD": 1, "POST": 0}:
            r["bn_inv"] = 1      # the flag is stored with the opposite polarity ("body omitted")
        elif gots != {"GET": 1, "HEAD": 0, "POST": 1}:
            badm = ["%s -> flag=%s" % kv for kv in sorted(gots.items())]
    if badm:
        ctx.violation(rule, rule + "|body-needed", "the builder's body-needed flag is not `request method != HEAD`: %s" % ", ".join(badm))
    elif badm is not None:
        ctx.ok(rule, "body_needed == (AsRequest::method(req) != Method::HEAD) for GET / HEAD / POST")
    # everything else the constructor stores (the negotiation result, level, chunk size) is the same whatever the method: build()
    # derives the headers from those fields, so a field that is computed differently for HEAD makes HEAD's headers differ
    if badm is not None:
        per = {}
        for meth in ("GET", "HEAD", "POST"):
            def calls2(name, args, term, meth=meth):
                last = name.split("::")[-1]
                if name.endswith("AsRequest::method") or last == "method":
                    return "http::Method::" + meth
                if last == "should_gzip":
                    return 1
                if last == "headers":
                    return 0
                raise Stuck("call %s" % name)
            ev2 = Evaluator({1: "REQ"}, calls=calls2, extra=(lambda ev, t: t[1] if t[0] == "named" else NotImplemented))
            try:
                hits = trie.select(ev2)
                if len(hits) != 1:
                    raise Stuck("%d rows" % len(hits))
                per[meth] = {n_: repr(ev2.ev(x_)) for n_, x_ in hits[0].value[4] if n_ != r["bn"]}
            except Stuck as e:
                ctx.violation(rule, rule + "|ctor-fields-unrecognised", "UNRECOGNISED: the builder's fields cannot be evaluated (%s)" % e)
                per = None
                break
        if per:
            diff = sorted(n_ for n_ in per["GET"] if len({per[m_].get(n_) for m_ in per}) > 1)
            if diff:
                ctx.violation(rule, rule + "|ctor-field-depends-on-method|" + ",".join(diff),
                              "the constructor computes the builder field(s) %s differently for HEAD (%s) than for GET (%s): the headers build() derives from them differ" %
                              (", ".join(diff), ", ".join(per["HEAD"][n_] for n_ in diff), ", ".join(per["GET"][n_] for n_ in diff)))
            else:
                ctx.ok(rule, "the constructor's other fields do not depend on the method", detail={"fields": sorted(per["GET"])})
    rows = [o for o in ctx.px(B["build"], inline=helper_inline(ctx, own=(B["adt"],)), key="helpers") if o.kind == "return"]
    bnf = ("field", ("param", 1), r["bn"])
    n = 0
    by = {}
    for o in rows:
        v = o.cons.known.get(bnf)
        tup = o.value
        w = agg_get(tup, "1") if is_agg(tup) else None
        resp = agg_get(tup, "0") if is_agg(tup) else None
        if v is None:
            ctx.violation(rule, rule + "|bn-untested", "a path of build() does not consult the body-needed flag")
            continue
        n += 1
        has = is_agg(w) and w[3] == "Some"
        v = v ^ r.get("bn_inv", 0)
        if not v:
            # no body: the chunk writer half must be dropped as it is. An encoder built around it and dropped writes its header
            # and trailer into the body on drop, so HEAD's body would no longer be empty
            G_ = gzip_ctor(ctx)
            gzc = set(G_["ctors"].get(G_["gz"], ()))
            enc = [e for e in o.events if e["k"] == "call" and ((e["callee"].get("res_path") or "") in gzc or "GzEncoder" in (e["callee"].get("path") or "") or
                                                                 "GzBuilder" in (e["callee"].get("path") or ""))]
            if enc:
                ctx.violation(rule, rule + "|no-body-encoder", "build() wraps the chunk writer in a gzip encoder although no body is needed and then drops it: the encoder's "
                              "drop writes the gzip header and trailer, so the body of a HEAD response is not empty", where=where(enc[0]))
        if bool(v) != has:
            ctx.violation(rule, "%s|writer|bn=%d" % (rule, v), "build() returns %s writer when body_needed is %s" % ("a" if has else "no", bool(v)))
        key = frozenset((fmt_term(t), val) for t, val in o.cons.known.items() if t != bnf)
        by.setdefault(v, []).append((key, resp))
    # every no-body row has a body row with the same decisions (the body row may make further decisions afterwards, e.g. about
    # the writer it builds) and the same headers / status, and vice versa
    def sig(resp_):
        return (repr(SM.strip_uid([(SM.hdr_name(h[0]), h[1], h[2]) for h in agg_get(resp_, "headers")[1]])), repr(agg_get(resp_, "status")))
    terms0 = {k for key, _ in by.get(0, []) for k, _ in key}
    for key0, resp0 in by.get(0, []):
        twins = [(k1, r1) for k1, r1 in by.get(1, []) if key0 <= k1]
        if not twins:
            ctx.violation(rule, rule + "|unpaired", "a build() path exists only for one value of body_needed: some header decision depends on the method")
        elif any(sig(r1) != sig(resp0) for _, r1 in twins):
            ctx.violation(rule, rule + "|headers-depend-on-method", "build() produces different headers/status for HEAD than for other methods")
    for key1, resp1 in by.get(1, []):
        proj = frozenset((k, v_) for k, v_ in key1 if k in terms0)
        if not any(key0 == proj for key0, _ in by.get(0, [])):
            ctx.violation(rule, rule + "|unpaired", "a build() path exists only for one value of body_needed: some header decision depends on the method")
    ctx.ok(rule, "build(): writer iff body_needed; headers independent of it", detail={"rows": n})
    ctx.floor(rule, n, 4, what="build() rows")


def coding_agreement(ctx):
    """C17.R1-R4"""
    B = find_builder(ctx)
    r = B["roles"]
    G = gzip_ctor(ctx)
    rows = [o for o in ctx.px(B["build"], inline=helper_inline(ctx, own=(B["adt"],)), key="helpers") if o.kind == "return"]
    # R1: Vary on every path
    nv = 0
    for o in rows:
        resp = agg_get(o.value, "0")
        hs = [(SM.hdr_name(h[0]), h[1]) for h in agg_get(resp, "headers")[1]] if is_agg(resp) and resp[2] == "http::Response" else None
        if hs is None:
            ctx.violation("C17.R1", "C17.R1|unrecognised", "UNRECOGNISED response construction in build()")
            continue
        vary = [v for n, v in hs if n == "VARY"]
        if len(vary) != 1 or (SM.fmt_value(vary[0]).get("text") or "").lower() != "accept-encoding":
            ctx.violation("C17.R1", "C17.R1|vary-missing", "a path of build() does not set `Vary: accept-encoding` exactly once")
        else:
            nv += 1
    ctx.ok("C17.R1", "Vary: accept-encoding on every path of build()", detail={"rows": nv})
    ctx.floor("C17.R1", nv, 4, what="build() rows")
    # R2: table over (should_gzip, level, body_needed)
    trie = Trie(rows)
    nok = 0
    levels_seen = set()
    for sg, lvl, bn in itertools.product((0, 1), (0, 1, 6, 9), (0, 1)):
        ev = Evaluator({1: {r["sg"]: sg ^ r.get("sg_inv", 0), r["level"]: lvl, r["bn"]: bn ^ r.get("bn_inv", 0), r["chunk"]: 4096}})
        try:
            hits = trie.select(ev)
        except Stuck as e:
            ctx.violation("C17.R2", "C17.R2|stuck", "UNRECOGNISED: build()'s decision table cannot be evaluated (%s)" % e)
            return
        if len(hits) != 1:
            ctx.violation("C17.R2", "C17.R2|rows", "%d rows of build() match (should_gzip=%d, level=%d, body_needed=%d)" % (len(hits), sg, lvl, bn))
            continue
        o = hits[0]
        resp = agg_get(o.value, "0")
        hs = [(SM.hdr_name(h[0]), h[1]) for h in agg_get(resp, "headers")[1]]
        ce = [v for n, v in hs if n == "CONTENT_ENCODING"]
        want = bool(sg and lvl > 0)
        got = len(ce) == 1 and SM.fmt_value(ce[0]).get("text") == "gzip"
        label = "should_gzip=%d level=%d body_needed=%d" % (sg, lvl, bn)
        if len(ce) > 1 or (ce and not got):
            ctx.violation("C17.R2", "C17.R2|ce-value", "%s: Content-Encoding header is not exactly one `gzip`" % label)
            continue
        if got != want:
            ctx.violation("C17.R2", "C17.R2|header|%s" % ("missing" if want else "spurious"),
                          "%s: Content-Encoding: gzip is %s but negotiation+level require it to be %s" % (label, "set" if got else "absent", "set" if want else "absent"))
            continue
        w = agg_get(o.value, "1")
        if is_agg(w) and w[3] == "Some":
            wt = agg_get(w, "0")
            ctor = wt[1].split("<")[0].rstrip(":") + "::" + wt[1].split("::")[-1] if isinstance(wt, tuple) and wt[0] == "call" else None
            cname = wt[1] if isinstance(wt, tuple) and wt[0] == "call" else None
            is_gz = cname in {c for c in G["ctors"].get(G["gz"], ())} or any(cname and cname == c for c in G["ctors"].get(G["gz"], ()))
            is_raw = any(cname and cname == c for c in G["ctors"].get(G["raw"], ()))
            if is_gz and is_raw:
                # one constructor builds either variant (e.g. `new(w, Option<Compression>)`): which one it builds for the
                # arguments of this row is read off its own MIR, applied to those arguments
                kinds = set()
                for o2 in ctx.px(cname, inline=lambda c, d: True, key=("ctor-at", repr(wt[2])[:2000]), args=list(wt[2])):
                    if o2.kind != "return":
                        continue
                    vs_ = [x for x in _variants_of(o2.value, G["enum"])]
                    kinds.update(vs_ or ["?"])
                if kinds == {G["gz"]}:
                    is_raw = False
                elif kinds == {G["raw"]}:
                    is_gz = False
                else:
                    ctx.violation("C17.R2", "C17.R2|writer-ctor", "%s: which writer %s builds for these arguments cannot be decided (%s)" % (label, cname, sorted(kinds)))
                    continue
            if not (is_gz or is_raw):
                ctx.violation("C17.R2", "C17.R2|writer-ctor", "%s: writer is built by %s, which is neither the gzip nor the identity constructor" % (label, cname))
                continue
            if is_gz != want:
                ctx.violation("C17.R2", "C17.R2|writer|%s" % ("identity-under-gzip-header" if want else "gzip-without-header"),
                              "%s: the body writer %s but the Content-Encoding header %s" % (label, "compresses" if is_gz else "does not compress", "says gzip" if got else "is absent"))
                continue
            if is_gz:
                # R4: compression level = the configured level
                lv = wt[2][1] if len(wt[2]) > 1 else None
                # (which compression level the encoder gets is not part of C17: the property fixes *whether* the body is gzip;
                # a clamped or constant level is still gzip data - recorded, not judged)
                if isinstance(lv, tuple) and lv[0] == "call" and lv[1].endswith("Compression::new") and lv[2][0] == ("field", ("param", 1), r["level"]):
                    levels_seen.add("configured")
                else:
                    levels_seen.add(short(lv, 60))
        nok += 1
    ctx.ok("C17.R2", "Content-Encoding: gzip <=> should_gzip and level > 0 <=> gzip writer (16 configurations)",
           detail={"configs": nok, "encoder_level_argument": sorted(levels_seen)})
    ctx.floor("C17.R2", nok, 16, what="configurations evaluated")
    negotiation_input(ctx, "C17.R3")


def negotiation_input(ctx, R3):
    """C17.R3 / C15.R3: the builder's negotiation flag is should_gzip(request headers) on every constructor path - whatever
    the method -, the AsRequest impls hand out the request's own method / headers, and the setters replace one field only
    (none of them rewrites the negotiation flag or the body-needed flag behind build()'s back)"""
    B = find_builder(ctx)
    r = B["roles"]
    sgt = r["sg_term"]
    s = repr(sgt)
    for o_, t_ in r.get("sg_partial", []):
        conds = [fmt_term(k)[:80] + "=" + str(v) for k, v in o_.cons.known.items()]
        ctx.violation(R3, R3 + "|negotiation-skipped", "on a constructor path (%s) the builder's negotiation flag is the constant %s instead of "
                      "should_gzip(request headers): headers and body coding no longer follow the client's Accept-Encoding there" % ("; ".join(conds[:3]), t_[1]))
    if "AsRequest::headers" not in s:
        ctx.violation(R3, R3 + "|input", "should_gzip is not evaluated on the request's own headers: %s" % short(sgt, 100))
    else:
        ctx.ok(R3, "builder.should_gzip == should_gzip(AsRequest::headers(req))")
    nimpl = 0
    for f in ctx.facts.fns.values():
        if f.get("impl_trait") == "AsRequest":
            nimpl += 1
            outs = [o for o in ctx.px(f["path"]) if o.kind == "return"]
            meth = f["path"].split("::")[-1]
            v = outs[0].value if len(outs) == 1 else None
            sv = repr(v)
            good = v is not None and (("Request::<T>::%s" % meth) in sv or ("'%s'" % meth) in sv) and "param" in sv
            if good:
                ctx.ok(R3, "%s returns the request's own %s" % (f["path"], meth))
            else:
                ctx.violation(R3, R3 + "|%s" % f["path"], "%s does not return the request's own %s: %s" % (f["path"], meth, short(v, 80)))
    ctx.floor(R3, nimpl, 4, confirmed=4, what="AsRequest accessor impls")
    # setters keep the other fields
    for setter, field in (("with_chunk_size", r["chunk"]), ("with_gzip_level", r["level"])):
        for fn in inherent_fn(ctx, B["adt"], setter):
            outs = [o for o in ctx.px(fn) if o.kind == "return"]
            v = outs[0].value if len(outs) == 1 else None
            good = v is not None
            if good:
                pxx = P.PX(ctx.facts)
                for fld in ctx.facts.adts[B["adt"]]["variants"][0]["fields"]:
                    name = fld["name"]
                    tt = pxx.project(None, v, ("f", name))      # (struct update syntax and `mut self` + assignment both work)
                    if name == field:
                        good = good and tt == ("param", 2)
                    else:
                        good = good and tt == ("field", ("param", 1), name)
            if good:
                ctx.ok(R3, "%s replaces only `%s`" % (setter, field))
            else:
                ctx.violation(R3, R3 + "|setter|%s" % setter, "%s does not replace exactly the field `%s`: %s" % (setter, field, short(v, 120)))


def writer_delegation(ctx, rule):
    """C17.R4 / C08.R9 / C11.R4: write/flush arms of the BodyWriter"""
    G = gzip_ctor(ctx)
    wadt = None
    for a in ctx.facts.adts.values():
        if a["local"] and a["kind"] == "struct" and any(f["ty"].startswith(G["enum"]) for f in a["variants"][0]["fields"]):
            wadt = a["path"]
    if wadt is None:
        ctx.violation(rule, rule + "|writer", "UNRECOGNISED: no struct wraps %s" % G["enum"])
        return
    for meth in ("write", "flush"):
        fns = impl_fn(ctx, "std::io::Write", wadt, meth)
        if len(fns) != 1:
            ctx.violation(rule, "%s|%s" % (rule, meth), "no unique io::Write::%s for %s" % (meth, wadt))
            continue
        outs = [o for o in ctx.px(fns[0], inline=helper_inline(ctx, own=(wadt,)), key="helpers") if o.kind == "return"]
        seen = set()
        for o in outs:
            st0 = ("field", ("deref", ("param", 1)), "0")
            var = o.cons.variant_of(st0)
            calls = [e for e in o.events if e["k"] == "call" and e["callee"].get("path") == "std::io::Write::%s" % meth]
            post = P.PX(ctx.facts)._read(o.state, ("H", ("param", 1)), (("f", "0"),))
            v = o.value
            rv = o.cons.variant_of(v) if not is_agg(v) else v[3]
            inst = "%s: state %s" % (meth, var)
            if var == G["dead"]:
                seen.add("dead")
                if rv != "Err" or calls:
                    ctx.violation(rule, "%s|%s|dead" % (rule, meth), "%s on a dead writer returns %s%s" % (meth, rv, " after delegating" if calls else ""))
                else:
                    ctx.ok(rule, inst + " -> Err without delegation")
                continue
            if len(calls) != 1:
                ctx.violation(rule, "%s|%s|%s|delegation" % (rule, meth, var), "%s in state %s makes %d inner %s calls" % (meth, var, len(calls), meth))
                continue
            res = calls[0]["callee"].get("res_full") or ""
            through_gz = "GzEncoder" in res.split(" as ")[0]
            if not calls[0]["callee"].get("res_path") or "dyn " in res.split(" as ")[0]:
                # a call through `&mut dyn Write`: the receiver is a reference into the state enum; the variant it points into
                # tells which writer that is
                rc = calls[0]["args"][0]
                vpath = [el[1] for el in (rc[2] if isinstance(rc, tuple) and rc[0] == "ref" else ()) if el[0] == "as"]
                through_gz = bool(vpath) and vpath[0] == G["gz"]
                if not vpath:
                    ctx.violation(rule, "%s|%s|%s|dyn-target" % (rule, meth, var), "UNRECOGNISED receiver of a dynamic %s call: %s" % (meth, short(rc, 60)))
                    continue
            want_gz = var == G["gz"]
            if through_gz != want_gz:
                ctx.violation(rule, "%s|%s|%s|target" % (rule, meth, var), "%s in state %s goes %s the gzip encoder" % (meth, var, "through" if through_gz else "around"),
                              where=where(calls[0]))
                continue
            seen.add(var)
            r = calls[0]["result"]

            def same_result(v_, r_):
                # the inner result itself, or the same variant rebuilt around the same payload (`r.map_err(|e| { ..; e })`)
                if v_ == r_:
                    return True
                iv_ = o.cons.variant_of(r_)
                if is_agg(v_) and v_[3] == iv_ and iv_ in ("Ok", "Err"):
                    pl_ = agg_get(v_, "0")
                    return pl_ == ("payload", r_, iv_, "0") or (iv_ == "Ok" and is_agg(pl_) and pl_[1] == "tuple" and not pl_[4])
                return False
            if not same_result(v, r):
                ctx.violation(rule, "%s|%s|%s|result" % (rule, meth, var), "%s does not return the inner result unchanged" % meth)
                continue
            inner_v = o.cons.variant_of(r)
            is_err_known = None
            for t, val in o.cons.known.items():
                pass
            dead_after = (is_agg(post) and post[3] == G["dead"])
            # rows: is_err() true -> Dead; false -> state kept
            if inner_v is None:
                ctx.violation(rule, "%s|%s|%s|result-not-inspected" % (rule, meth, var), "%s (state %s) returns without inspecting the inner result: an inner error would leave the writer alive" % (meth, var),
                              where=where(calls[0]))
                continue
            if inner_v == "Err" and not dead_after:
                ctx.violation(rule, "%s|%s|%s|err-keeps-state" % (rule, meth, var), "an inner %s error does not mark the writer dead" % meth)
                continue
            if inner_v == "Ok" and dead_after:
                ctx.violation(rule, "%s|%s|%s|ok-kills-writer" % (rule, meth, var),
                              "an inner %s that succeeded (for some Ok value) marks the writer dead: the chunk writer is dropped, the body ends cleanly and every later "
                              "write fails although the producer did nothing wrong" % meth, where=where(calls[0]))
                continue
            ctx.ok(rule, inst + " delegates to %s, inner %s%s" % ("the encoder" if through_gz else "the chunk writer", inner_v, ", writer dead afterwards" if dead_after else ""))
        need = {"dead", G["gz"], G["raw"]}
        if not need <= seen:
            ctx.violation(rule, "%s|%s|arms" % (rule, meth), "%s does not have the three arms dead / %s / %s (seen %s)" % (meth, G["gz"], G["raw"], sorted(seen)))


def abort_table(ctx, rule):
    """C11.R1: BodyWriter::abort: every row ends dead; both live arms reach the chunk writer's abort (gzip via get_mut)"""
    from . import chunker as CH
    G = gzip_ctor(ctx)
    R = CH.roles(ctx)
    wadt = None
    for a in ctx.facts.adts.values():
        if a["local"] and a["kind"] == "struct" and any(f["ty"].startswith(G["enum"]) for f in a["variants"][0]["fields"]):
            wadt = a["path"]
    fns = inherent_fn(ctx, wadt, "abort") if wadt else []
    if len(fns) != 1:
        ctx.violation(rule, rule + "|fn", "UNRECOGNISED: no unique abort on the public writer")
        return
    # helpers on the writer's own types (e.g. `Inner::chunker_mut()`) are expanded; the chunk writer's abort stays a call
    outs = [o for o in ctx.px(fns[0], inline=helper_inline(ctx, own=(wadt, G["enum"]), never=(R["abort"],)), key="helpers") if o.kind == "return"]
    seen = set()
    for o in outs:
        st0 = ("field", ("deref", ("param", 1)), "0")
        var = o.cons.variant_of(st0)
        post = P.PX(ctx.facts)._read(o.state, ("H", ("param", 1)), (("f", "0"),))
        seen.add(var)
        bad = []
        if not (is_agg(post) and post[3] == G["dead"]):
            bad.append("the writer is left in state %s, not dead" % short(post, 40))
        ab = [e for e in o.events if e["k"] == "call" and e["callee"].get("res_path") == R["abort"]]
        fin = [e for e in o.events if e["k"] == "call" and method_name_of(e) in ("finish", "try_finish", "flush", "write")]
        if var in (G["raw"], G["gz"]):
            if len(ab) != 1:
                bad.append("the chunk writer's abort is called %d times" % len(ab))
            elif ab[0]["args"][1] != ("param", 2):
                bad.append("the caller's error is not the one handed to the chunk writer")
            if fin:
                bad.append("the stream is finished/flushed (%s) before aborting: a clean gzip trailer could precede the error" % method_name_of(fin[0]))
            if var == G["gz"] and not any(e["k"] == "call" and method_name_of(e) == "get_mut" for e in o.events):
                bad.append("the gzip arm does not reach the chunk writer through get_mut")
        elif var == G["dead"]:
            if ab:
                bad.append("abort on a dead writer aborts again")
        if bad:
            ctx.violation(rule, "%s|%s|%s" % (rule, var, bad[0][:30]), "abort (state %s): %s" % (var, "; ".join(bad)))
        else:
            ctx.ok(rule, "abort: state %s -> dead%s" % (var, ", chunk writer aborted with the caller's error" if var != G["dead"] else ""))
    if not {G["raw"], G["gz"], G["dead"]} <= seen:
        ctx.violation(rule, rule + "|arms", "abort does not handle the three writer states (seen %s)" % sorted(str(s) for s in seen))


def method_name_of(e):
    return (e["callee"].get("res_path") or e["callee"].get("path") or "").split("::")[-1]
