"""C12 — size hints and end-of-stream flag are truthful.  Decides: (R1) the
dispatch table of Body::size_hint: exact remaining(d) for a pending one-shot
payload, exact 0 for a consumed one, the owed-bytes field for the length-checked
and multipart streams, delegation for the chunk reader; (R2) the chunk reader's
hint: lower = queued bytes, an upper bound only when the producer finished, nothing
on non-live states; (R3) is_end_stream is true only for a consumed one-shot,
owed bytes == 0, or the reader's table of C11.R3 - and, compared on the whole
entry state, every state in which the reader's flag can be true is one in which
its next poll returns the end; (R4) the fields those answers
read are the accounted quantities (C01.R3/R5 owed bytes, C08.R3/R4 queued bytes,
C20 terminal absorption; an error of the entity's stream, which does not end
that stream, does not zero the owed bytes; the forwarding layers hand every answer
on unchanged); (R5) all Body constructors are crate-internal or the
public one-shot conversions.  Does not decide: entities that break their contract."""
from . import chunker as CH
from . import bodyrules as BR
from . import multipart as MP

CONFIGS_QUICK = ["dir"]


def run(ctx):
    BR.body_hint_tables(ctx, "C12.R1", "C12.R3")
    CH.size_hint_table(ctx, "C12.R2")
    CH.shared_initial_state(ctx, "C12.R4.init")
    CH.end_stream_table(ctx, "C12.R3.reader")
    CH.eos_implies_end(ctx, "C12.R3.cross")
    BR.exactlen_table(ctx, "C12.R4.exactlen", eos_clause=True)
    MP.stream_accounting(ctx, "C12.R4.multipart")
    CH.reader_consume(ctx, "C12.R4.reader")
    CH.publish_rules(ctx, "C12.R4.writer", "C12.R4.nonempty", "C12.R4.flag")
    MP.constructor_inv(ctx, "C12.R4.mp")
    MP.stream_invariant(ctx, "C12.R4.mp")
    BR.body_constructors(ctx, "C12.R5")
    BR.layers_transparent(ctx, "C12.R4.layers")
