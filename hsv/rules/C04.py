"""C04 — conditional headers: precedence and comparison functions.  Decides:
(R1) the complete decision table of the function computing
(precondition_failed, not_modified), with the two tag-list functions expanded and
their loops summarised, evaluated over the abstract request/entity domain
If-Match x If-None-Match in {absent, *, lists mixing equal/different/weak tags,
a tag containing ", "} x If-(Un)Modified-Since in {absent, second before / equal /
after the modification second} x mtime in {none, whole second, sub-second} x ETag
in {none, strong, weak} and compared with RFC 7232's table (rows with corrupt
lists / unparseable dates are don't-cares); (R2) the If-Match loop uses the strong
and the If-None-Match loop the weak comparison (recognised by their own tables);
(R3) each list loop's result flag is monotone: initialised to the neutral value
and flipped only under the comparator applied to (list item, entity tag) - the
loop may be a `for` loop or one `Iterator::fold`, in the list function or in a
helper shared by both (instances told apart by call chain), with the comparator
called directly or through a fn pointer;
(R5) the tag-list tokeniser's shape: an element ends at the next '"' after the
opening quote, a ',' is consumed only right after a closing quote and is followed
by skipping SP/HTAB (a loop over the bytes, or `strip_prefix(b",")` + the counted
SP/HTAB prefix; shrinking slice or cursor representation); index arithmetic discharged; (R6) 412 dominates 304
dominates range handling in `serve`.  Does not decide: httpdate's parser."""
import itertools
from ..px import const, is_const, is_agg, agg_get, fmt_term
from .. import px as P
from .. import facts as F
from ..tabeval import Evaluator, Opt, Stuck, NoRow, Ambiguous, Trie
from . import serve_model as SM
from . import etagcmp
from .common import where, short

CONFIGS_QUICK = ["dir"]

T0 = 1000  # the modification second

# header value classes: (label, bytes or None, items, corrupt)
TAGLISTS = [
    ("absent", None, None, False),
    ("star", "*", None, False),
    ("x", '"x"', ['"x"'], False),
    ("y", '"y"', ['"y"'], False),
    ("Wx", 'W/"x"', ['W/"x"'], False),
    ("y,x", '"y", "x"', ['"y"', '"x"'], False),
    ("comma-tag,Wx", '"a, b", W/"x"', ['"a, b"', 'W/"x"'], False),
    ("corrupt", '"y", zzz', ['"y"'], True),
]
DATES = [("absent", None), ("bad", "garbage"), ("before", T0 - 1), ("equal", T0), ("after", T0 + 1)]
MTIMES = [("none", None), ("whole", float(T0)), ("subsec", T0 + 0.5)]
ETAGS = [("none", None), ("strong", '"x"'), ("weak", 'W/"x"')]


def strong(a, b):
    return a == b and not a.startswith("W/")


def weak(a, b):
    o = lambda t: t[2:] if t.startswith("W/") else t
    return o(a) == o(b)


def spec(im, inm, ius, ims, mt, et):
    """-> (pf, nm) expected, or None when the row is a don't-care"""
    if im[3] or inm[3]:
        return None
    if ius[1] == "garbage" or ims[1] == "garbage":
        return None
    import math
    msec = math.floor(mt[1]) if mt[1] is not None else None
    if im[1] is not None:
        pf = not (im[1] == "*" or (et[1] is not None and any(strong(i, et[1]) for i in im[2])))
    else:
        pf = ius[1] is not None and msec is not None and ius[1] < msec
    if inm[1] is not None:
        nm = inm[1] == "*" or (et[1] is not None and any(weak(i, et[1]) for i in inm[2]))
    else:
        nm = ims[1] is not None and msec is not None and msec <= ims[1]
    return (pf, nm)


def find_cond_fn(ctx):
    M = SM.analyse(ctx)
    names = set()
    for r in SM.ok_rows(M):
        e = SM.cond_fn_event(ctx, r)
        if e is not None:
            names.add(e["callee"]["res_path"])
    from ..check import FailClosed
    if len(names) != 1:
        raise FailClosed("conditional-header function not found uniquely: %r" % names)
    return next(iter(names))


def list_fns(ctx, cond):
    """crate-local callees of the conditional function that take the request header map"""
    b = ctx.facts.bodies[cond]
    out = []
    for i, t in ctx.facts.calls(b):
        c = t["callee"]
        if c.get("res_local") and any("HeaderMap" in (a.get("place", {}).get("ty", {}).get("s") or "") for a in t["args"]):
            out.append(c["res_path"])
    return sorted(set(out))


def _subterms(t, out, depth=0):
    if not isinstance(t, tuple) or not t or depth > 40:
        return
    if isinstance(t[0], str):
        if t[0] == "loopvar":
            out.add(t)
            return
        for x in t[1:]:
            _subterms(x, out, depth + 1)
    else:
        for x in t:
            _subterms(x, out, depth + 1)


def _is_cmp_call(ctx, e):
    return SM._is_tag_comparator_call(ctx, e)


def loop_summaries(ctx, outs, rule):
    """R2/R3 on the rows of the *expanded* conditional function: every loop that walks a tag list (a `for` loop in a list
    function, or one `Iterator::fold` - possibly inside a helper shared by both list functions, in which case the two
    expansions are two instances) is summarised as (request header it serves, result flag, initial value, comparator).
    -> {flag loop-variable term: summary}"""
    # loop variables that the function's result depends on
    used = set()
    for o in outs:
        if o.kind != "return":
            continue
        _subterms(o.value, used)
        for tt in o.cons.known:
            _subterms(tt, used)
        for tt in o.cons.variant:
            _subterms(tt, used)
    inst = {}
    for o in outs:
        if o.kind != "backedge":
            continue
        fn, header = o.where
        frames = o.state.frames
        is_fold = isinstance(header, tuple)
        loop_frames = frames[:-1] if is_fold else frames
        sig = P.chain_sig_of(loop_frames)
        fid = loop_frames[-1].fid
        rec = inst.setdefault((fn, header, sig), {"rows": [], "hdrs": set()})
        # the header whose value is being walked: the last header lookup before this loop was entered
        idx_enter = max([i for i, e in enumerate(o.events) if e["k"] == "loop_enter" and e["fn"] == fn and e["bb"] == header and e.get("sig", ()) == sig] or [0])
        hdr = None
        for e in o.events[:idx_enter]:
            if e["k"] == "call" and e["callee"].get("path", "").endswith("HeaderMap::<T>::get"):
                a = e["args"][1]
                if isinstance(a, tuple) and a[0] == "named":
                    hdr = a[1].split("::")[-1]
        rec["hdrs"].add(hdr)
        cmps = [e for e in o.events[idx_enter:] if _is_cmp_call(ctx, e)]
        rec["rows"].append({"o": o, "cmps": cmps, "fid": fid, "is_fold": is_fold})
    res = {}
    for (fn, header, sig), rec in sorted(inst.items(), key=lambda kv: str(kv[0])):
        label = "%s%s" % (fn, " via " + " > ".join(c for c, _ in sig) if sig else "")
        # candidate flags: two-valued loop-carried places of this instance that the result depends on
        flags = {}
        for row in rec["rows"]:
            o = row["o"]
            lev = o.state.extra.get("loop_entry_values", {})
            for k4, init in lev.items():
                if len(k4) == (4 if sig else 3) and k4[0] == fn and k4[1] == header and (not sig or k4[3] == sig):
                    key = k4[2]
                    lv = ("loopvar", fn, header, key, 0) + ((sig,) if sig else ())
                    if lv not in used or key[2]:
                        continue
                    if key[0] == "L":
                        if ctx.facts.bodies[fn]["locals"][key[1]].get("k") != "bool":
                            continue
                        newv = o.state.env.get(("L", row["fid"], key[1]))
                    elif key[0] == "F" and row["is_fold"]:
                        newv = o.value
                    else:
                        continue
                    cmpv = cmpev = None
                    for e in row["cmps"]:
                        r = e.get("result")
                        if r in o.cons.known:
                            cmpv, cmpev = o.cons.known[r], e
                        elif newv == r or newv == ("unop", "Not", r):
                            cmpev = e     # the comparator's answer is stored without being branched on
                    flags.setdefault(lv, {"init": init, "updates": []})["updates"].append(
                        {"new": newv, "lv": lv, "cmp": cmpv, "cmpev": cmpev, "o": o})
        if not flags:
            continue    # a loop the result does not depend on through a flag (e.g. the tokeniser's whitespace skip)
        if len(flags) != 1 or len(rec["hdrs"]) != 1:
            ctx.violation(rule, "%s|%s|flag" % (rule, fn), "UNRECOGNISED: the tag-list loop in %s has %d loop-carried result flags over headers %s (expected one flag, one header)" %
                          (label, len(flags), sorted(str(h) for h in rec["hdrs"])))
            continue
        lv, frec = next(iter(flags.items()))
        hdr = next(iter(rec["hdrs"]))
        init = frec["init"]
        if not is_const(init):
            ctx.violation(rule, "%s|%s|init" % (rule, fn), "the result flag of the tag-list loop in %s is not initialised to a constant before the loop" % label)
            continue
        flipped = const(1 - init[1])
        cmpfn = None
        bad = None
        for u in frec["updates"]:
            new, cmpv = u["new"], u["cmp"]
            o = u["o"]
            old_known = o.cons.known.get(lv)
            ce = u["cmpev"]
            if ce is not None:
                cmpfn = cmpfn or ce["callee"]["res_path"]
                a, b = ce["args"]
                sa, sb = fmt_term(a), fmt_term(b)
                item_a = "next" in sa or "fold_item" in sa
                item_b = "next" in sb or "fold_item" in sb
                if item_a == item_b or not (("arg1" in sb or "etag" in sb.lower()) if item_a else ("arg1" in sa or "etag" in sa.lower())):
                    bad = "the comparator is not applied to (list item, entity tag): (%s, %s)" % (sa[:60], sb[:60])
            if cmpv == 1:
                if new != flipped:
                    bad = "a matching item does not set the flag to %s (new value %s)" % (flipped[1], short(new, 40))
            elif cmpv == 0:
                if new != lv and not (old_known is not None and new == const(old_known)):
                    bad = "the flag changes (to %s) on an iteration without a comparator match" % short(new, 40)
            elif ce is not None and new in (ce.get("result"), ("unop", "Not", ce.get("result"))):
                # flag' = cmp(item, etag) (`flag || cmp`, initial value 0) or !cmp(item, etag) (`flag && !cmp`, initial value 1),
                # on the rows where the flag still has its initial value
                want_new = ce.get("result") if init[1] == 0 else ("unop", "Not", ce.get("result"))
                if old_known != init[1] or new != want_new:
                    bad = "the comparator's answer overwrites the flag (earlier matches are forgotten) or is stored with the wrong polarity"
            else:
                # no comparator consulted on this row
                if old_known == init[1]:
                    bad = "an item is skipped without calling the comparator although no earlier item matched (the flag can never flip)"
                elif new != lv and not (old_known is not None and new == const(old_known)):
                    bad = "the flag changes (to %s) on an iteration without a comparator match" % short(new, 40)
        if bad:
            ctx.violation(rule, "%s|%s|monotone" % (rule, fn), "%s: %s" % (label, bad))
            continue
        if cmpfn is None:
            ctx.violation(rule, "%s|%s|no-comparator" % (rule, fn), "%s: no comparator call found in the list loop" % label)
            continue
        kind, why = etagcmp.comparator_kind(ctx, cmpfn)
        res[lv] = {"lv": lv, "fn": fn, "label": label, "hdr": hdr, "init": init[1], "flipped": flipped[1], "cmpfn": cmpfn, "cmpkind": kind}
        ctx.ok(rule, "%s [%s]: flag starts %d, flips to %d only under %s(item, etag) [%s]" % (label, hdr, init[1], flipped[1], cmpfn, kind))
    return res


def r1_table(ctx):
    cond = find_cond_fn(ctx)
    # every crate-local callee (the list functions, any helper a maintainer extracts, a shared list-walking helper) is
    # expanded; the tag comparators stay calls (they are recognised by their own tables)
    cmpfns = {n for n, b in ctx.facts.bodies.items() if b["kind"] == "fn" and b["locals"][0]["s"] == "bool" and b["arg_count"] == 2 and
              all(b["locals"][i]["s"].endswith("[u8]") for i in (1, 2))}
    from .. import models as _MM
    # ... and so does the list tokeniser (`next` of the crate's own list iterator: C04.R5 is its rule), also when it is called
    # directly rather than through a `for` loop
    keep = set(cmpfns)
    try:
        from . import etaglist as _EL0
        keep.add(_EL0.find_list(ctx)[1])
    except Exception:
        pass
    outs = ctx.px(cond, inline=lambda c, d: bool(c.get("res_local")) and c.get("res_path") not in keep, key="all-local", max_depth=6,
                  extra_models=_MM.ANY_ALL)
    summ = loop_summaries(ctx, outs, "C04.R3")
    ctx._c04_summ = summ
    # a loop that only drains a list iterator (`while items.next().is_some() {}` after a short-circuiting search) carries the
    # iterator itself: which header's list it is is read off the value the iterator had when that loop was entered
    lv_hdr = {}
    try:
        from . import etaglist as _EL
        list_flag = _EL.find_list(ctx)[3]
    except Exception:
        list_flag = None
    for o_ in outs:
        for k4, init in o_.state.extra.get("loop_entry_values", {}).items():
            lv_ = ("loopvar", k4[0], k4[1], k4[2], 0) + ((k4[3],) if len(k4) == 4 else ())
            s_ = repr(init)
            hs_ = [hn for hn in ("IF_NONE_MATCH", "IF_MATCH") if hn in s_]
            if len(hs_) == 1:
                lv_hdr.setdefault(lv_, set()).add(hs_[0])
    ctx.floor("C04.R3", len(summ), 2, what="tag-list loops with a recognised monotone flag")
    # R2: comparator kinds
    for lv, s in summ.items():
        h = s["hdr"]
        want = {"IF_MATCH": "strong", "IF_NONE_MATCH": "weak"}.get(h)
        if want is None:
            ctx.violation("C04.R2", "C04.R2|%s|header" % s["fn"], "UNRECOGNISED: the tag-list loop in %s walks header %s" % (s["label"], h))
        elif s["cmpkind"] != want:
            ctx.violation("C04.R2", "C04.R2|%s" % h, "%s is matched with `%s`, which is the %s comparison; RFC 7232 requires the %s one" % (h, s["cmpfn"], s["cmpkind"], want))
        else:
            ctx.ok("C04.R2", "%s uses the %s comparison (%s)" % (h, want, s["cmpfn"]))
    ctx.floor("C04.R2", len(summ), 2, what="list loops with a recognised comparator")
    if {s["hdr"] for s in summ.values()} != {"IF_MATCH", "IF_NONE_MATCH"}:
        ctx.violation("C04.R2", "C04.R2|headers", "UNRECOGNISED: the tag-list loops do not serve exactly If-Match and If-None-Match (%s)" % sorted(str(s["hdr"]) for s in summ.values()))
    trie = Trie(outs)
    b = ctx.facts.bodies[cond]
    # parameter roles by type
    roles = {}
    for i in range(1, b["arg_count"] + 1):
        s = b["locals"][i]["s"]
        if "HeaderMap" in s:
            roles["hdrs"] = i
        elif "SystemTime" in s:
            roles["mtime"] = i
        elif "HeaderValue" in s or s == "std::option::Option<&[u8]>":
            roles["etag"] = i
    if set(roles) != {"hdrs", "mtime", "etag"}:
        ctx.violation("C04.R1", "C04.R1|params", "UNRECOGNISED parameters of %s" % cond)
        return
    cmptab = {lv: etagcmp.table(ctx, s["cmpfn"]) if s["cmpkind"] in ("strong", "weak", "other") else None for lv, s in summ.items()}
    nrows = nfree = nbad = 0
    reported = set()
    for im, inm, ius, ims, mt, et in itertools.product(TAGLISTS, TAGLISTS, DATES, DATES, MTIMES, ETAGS):
        want = spec(im, inm, ius, ims, mt, et)
        hv = {"IF_MATCH": im, "IF_NONE_MATCH": inm, "IF_UNMODIFIED_SINCE": ("d",) + ius[1:], "IF_MODIFIED_SINCE": ("d",) + ims[1:]}

        def calls(name, args, term, hv=hv):
            last = name.split("::")[-1]
            if name.endswith("HeaderMap::<T>::get"):
                h = term[2][1]
                hn = h[1].split("::")[-1] if isinstance(h, tuple) and h[0] == "named" else None
                v = hv.get(hn)
                if v is None:
                    raise Stuck("header %s" % hn)
                if v[1] is None:
                    return Opt(False)
                return Opt(True, ("hdr", hn, v[1]))
            if last == "contains_key":
                h = term[2][1]
                hn = h[1].split("::")[-1] if isinstance(h, tuple) and h[0] == "named" else None
                v = hv.get(hn)
                if v is None:
                    raise Stuck("header %s" % hn)
                return int(v[1] is not None)
            if last in ("as_bytes",):
                return args[0][2] if isinstance(args[0], tuple) and args[0][0] == "hdr" else args[0]
            if last == "to_str":
                x = args[0]
                return ("Ok", x[2] if isinstance(x, tuple) and x[0] == "hdr" else x)
            if last == "parse_http_date":
                x = args[0]
                if isinstance(x, (int, float)):
                    return ("Ok", float(x))
                return ("Err", "bad date")
            if name.endswith("memmem::find") or name.endswith("memmem::rfind") or (last in ("find", "contains") and all(isinstance(a, str) for a in args)):
                if all(isinstance(a, str) for a in args) and len(args) == 2:
                    i = args[0].find(args[1])
                    if last == "contains":
                        return int(i >= 0)
                    return Opt(i >= 0, i if i >= 0 else None)
            if last == "next":
                return Opt(False)  # the rows evaluated are loop-exit rows
            if last == "duration_since":
                return ("Ok", ("dur", args[0] - (args[1] if isinstance(args[1], (int, float)) else 0.0)))
            if last == "as_secs":
                import math
                return math.floor(args[0][1])
            if last == "from_secs":
                return ("dur", float(args[0]))
            if last == "add" and isinstance(args[1], tuple) and args[1][0] == "dur":
                return float(args[0]) + args[1][1]
            if last == "sub" and isinstance(args[1], tuple) and args[1][0] == "dur":
                return float(args[0]) - args[1][1]
            if last == "subsec_nanos":
                import math
                return int(round((args[0][1] - math.floor(args[0][1])) * 1e9))
            if last == "new" and "Duration" in name:
                return ("dur", float(args[0]) + args[1] / 1e9)
            if last == "from" and args and isinstance(args[0], str):
                return args[0]
            raise Stuck("call %s" % name)

        def extra(ev, t, summ=summ, hv=hv, et=et):
            k = t[0]
            if k == "named" and t[1].endswith("UNIX_EPOCH"):
                return 0.0
            if k == "loopvar":
                s = summ.get(t)
                if s:
                    v = hv[s["hdr"]]
                    match = False
                    if et[1] is not None and v[2]:
                        tab = cmptab[t]
                        for item in v[2]:
                            match = match or bool(_cmp_lookup(tab, item, et[1], s["cmpkind"]))
                    return s["flipped"] if match else s["init"]
                if len(lv_hdr.get(t, ())) == 1:
                    return ("list-iterator", next(iter(lv_hdr[t])))      # the drained iterator itself (only handed to `next`)
                return NotImplemented
            if k == "field" and isinstance(t[1], tuple) and t[1][0] == "loopvar" and len(lv_hdr.get(t[1], ())) == 1 and t[2] == list_flag:
                return int(hv[next(iter(lv_hdr[t[1]]))][3])
            if k == "field" and isinstance(t[1], tuple) and t[1][0] == "havoc":
                s = repr(t[1])
                for hn in ("IF_NONE_MATCH", "IF_MATCH"):
                    if hn in s:
                        return int(hv[hn][3])
                # the iterator as the drain loop left it: havoc(next(&<loop-carried iterator>))
                subs = set()
                _subterms(t[1], subs)
                hs = set()
                for lv_ in subs:
                    hs |= lv_hdr.get(lv_, set())
                if len(hs) == 1 and t[2] == list_flag:
                    return int(hv[next(iter(hs))][3])
                return NotImplemented
            if k == "from":
                return ev.ev(t[1])
            return NotImplemented
        params = {roles["mtime"]: Opt(mt[1] is not None, mt[1]), roles["etag"]: Opt(et[1] is not None, et[1]), roles["hdrs"]: "HDRS"}
        ev = Evaluator(params, calls=calls, extra=extra)
        try:
            hits = trie.select(ev)
        except Stuck as e:
            key = "C04.R1|stuck|%s" % str(e)[:60]
            if key not in reported:
                reported.add(key)
                ctx.violation("C04.R1", key, "UNRECOGNISED: the decision table cannot be evaluated (%s)" % e)
            continue
        nrows += 1
        if want is None:
            nfree += 1
            continue
        label = "IM=%s INM=%s IUS=%s IMS=%s mtime=%s etag=%s" % (im[0], inm[0], ius[0], ims[0], mt[0], et[0])
        if len(hits) != 1:
            key = "C04.R1|rows|%d" % len(hits)
            if key not in reported:
                reported.add(key)
                ctx.violation("C04.R1", key, "%d rows match the abstract request %s (expected exactly one)" % (len(hits), label))
            continue
        o = hits[0]
        try:
            got = ev.ev(o.value)
        except Stuck as e:
            key = "C04.R1|stuck-value|%s" % str(e)[:60]
            if key not in reported:
                reported.add(key)
                ctx.violation("C04.R1", key, "UNRECOGNISED result term (%s)" % e)
            continue
        if isinstance(got, tuple) and got[0] == "Ok" and isinstance(got[1], dict) and "__variant" in got[1]:
            # an enum-valued decision: translate the variant through what `serve` does with it
            dec = SM.cond_decisions(ctx, SM.analyse(ctx)).get(got[1]["__variant"])
            if dec is None:
                key = "C04.R1|decision-variant|%s" % got[1]["__variant"]
                if key not in reported:
                    reported.add(key)
                    ctx.violation("C04.R1", key, "UNRECOGNISED: the decision variant %s is not acted on by a 412 / 304 / proceed row of serve" % got[1]["__variant"])
                continue
            got = ("Ok", (dec == "412", dec == "304"))
        if not (isinstance(got, tuple) and got[0] == "Ok"):
            cls = "error-on-wellformed"
            key = "C04.R1|%s|%s" % (cls, _class(im, inm, ius, ims, mt, et, want, None))
            if key not in reported:
                reported.add(key)
                ctx.violation("C04.R1", key, "well-formed conditional headers are rejected as malformed for %s" % label, where=_row_where(o))
            nbad += 1
            continue
        pf, nm = bool(got[1][0]), bool(got[1][1])
        if pf != want[0] or (not want[0] and nm != want[1]):
            nbad += 1
            what = "412" if pf != want[0] else "304"
            key = "C04.R1|%s|%s" % (what, _class(im, inm, ius, ims, mt, et, want, (pf, nm)))
            if key not in reported:
                reported.add(key)
                ctx.violation("C04.R1", key, "request %s: computed (precondition_failed=%s, not_modified=%s), RFC 7232 requires (%s, %s)" %
                              (label, pf, nm, want[0], want[1]), where=_row_where(o))
        elif nrows % 997 == 0:
            ctx.sample({"rule": "C04.R1", "request": label, "decision": [pf, nm]})
    if nbad == 0:
        ctx.ok("C04.R1", "decision table equals RFC 7232 on %d abstract requests (%d don't-care)" % (nrows, nfree), detail={"table_rows": trie.n})
    ctx.floor("C04.R1", nrows, 10000, what="abstract requests evaluated")
    ctx.assume("abstract domain for C04.R1: tag lists %s; dates {absent, unparseable, second before/equal/after}; mtime {none, whole second, +0.5 s}; ETag {none, strong, weak}" % [t[0] for t in TAGLISTS])
    ctx.assume("loops of the tag-list functions are summarised by their verified monotone-flag shape (C04.R3); the tokeniser is checked separately (C04.R5)")


def _cmp_lookup(tab, item, etag, kind):
    """evaluate the implementation's comparator (its extracted 16-entry table) on arbitrary tags by class"""
    cls = lambda t: ('W/"x"' if t.startswith("W/") else '"x"')
    o = lambda t: t[2:] if t.startswith("W/") else t
    a = cls(item)
    b = cls(etag)
    if o(item) != o(etag):
        b = b.replace("x", "y")
    return tab[(a, b)]


def _class(im, inm, ius, ims, mt, et, want, got):
    """coarse class of a disagreement, used as the (position-free) violation key"""
    parts = []
    if im[1] is not None and ius[1] is not None and want[0] is False and got and got[0]:
        parts.append("if-match-present-ius-consulted")
    if inm[1] is not None and ims[1] is not None and got and got[1] != want[1]:
        parts.append("inm-present-ims-consulted")
    if mt[0] == "subsec":
        parts.append("subsecond-mtime")
    if not parts:
        parts.append("IM=%s,INM=%s,IUS=%s,IMS=%s,mt=%s,et=%s" % (im[0], inm[0], ius[0], ims[0], mt[0], et[0]))
    return "+".join(parts)


def _row_where(o):
    for e in reversed(o.events):
        if "span" in e:
            return F.loc(e["span"])
    return None


def run(ctx):
    r1_table(ctx)
    from . import etaglist
    etaglist.tokeniser(ctx, "C04.R5")
    etaglist.list_constructor(ctx, "C04.R5")
    M = SM.analyse(ctx)
    SM.c04_exit_order(ctx, M)
    SM.c04_call_args(ctx, M)
