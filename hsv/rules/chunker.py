"""Rules over the chunk writer / reader pair sharing one mutex-protected object.

Roles by type: the *shared* struct has an `Option<Waker>` field and a *state* enum
field; the state enum's live variant carries the queue (VecDeque<Vec<u8>>), the
queued-bytes counter (usize) and the producer-finished flag (bool); one variant
carries the abort error, one is field-less (consumer finished).  The *reader*
implements Stream, the *writer* io::Write and Drop."""
from ..px import const, is_const, is_agg, agg, agg_get, mk_binop, TY, fmt_term
from .. import px as P
from .. import facts as F
from .. import census as CEN
from ..models import len_term, some, NONE
from ..zone import Zone
from .common import (where, short, final_read, impl_fn, inherent_fn, poll_shape, cons_zone, aggregates, calls_named, method_name, boolish)


def roles(ctx):
    if hasattr(ctx, "_chroles"):
        return ctx._chroles
    from ..check import FailClosed
    shared = [a for a in ctx.facts.adts.values() if a["local"] and a["kind"] == "struct" and
              any("Option<std::task::Waker>" in f["ty"] for f in a["variants"][0]["fields"])]
    if len(shared) != 1:
        raise FailClosed("shared struct (with an Option<Waker> field) not found uniquely")
    sh = shared[0]
    R = {"shared": sh["path"]}
    for f in sh["variants"][0]["fields"]:
        if "Waker" in f["ty"]:
            R["waker_f"] = f["name"]
        else:
            # the state is the field whose type is a crate-local enum (other fields - debug-only counters, labels - are not it)
            a_ = ctx.facts.adts.get(f["ty"].split("<")[0])
            if (a_ and a_.get("local") and a_["kind"] == "enum") or "state_f" not in R:
                if not (R.get("state_ty") and (ctx.facts.adts.get(R["state_ty"]) or {}).get("kind") == "enum" and not (a_ and a_["kind"] == "enum")):
                    R["state_f"] = f["name"]
                    R["state_ty"] = f["ty"].split("<")[0]
    st = ctx.facts.adts.get(R.get("state_ty"))
    if not st or st["kind"] != "enum":
        raise FailClosed("shared state enum not found")
    for v in st["variants"]:
        tys = [f["ty"] for f in v["fields"]]
        for f in v["fields"]:
            sub = ctx.facts.adts.get(f["ty"].split("<")[0])
            if sub and sub.get("local") and sub["kind"] == "struct":
                tys += [g["ty"] for g in sub["variants"][0]["fields"]]
        if any("VecDeque" in t for t in tys):
            R["live"] = v["name"]
            for f in v["fields"]:
                if "VecDeque" in f["ty"]:
                    R["queue_f"] = f["name"]
                elif f["ty"] == "usize":
                    R["bytes_f"] = f["name"]
                elif boolish(ctx, f["ty"]):
                    R["dropped_f"] = f["name"]
                else:
                    # the queue and its byte counter grouped in a private record: the roles are field *paths*
                    sub = ctx.facts.adts.get(f["ty"].split("<")[0])
                    if sub and sub.get("local") and sub["kind"] == "struct":
                        for g in sub["variants"][0]["fields"]:
                            if "VecDeque" in g["ty"]:
                                R["queue_f"] = (f["name"], g["name"])
                            elif g["ty"] == "usize":
                                R["bytes_f"] = (f["name"], g["name"])
        elif len(v["fields"]) == 1:
            R["err"] = v["name"]
        elif not v["fields"]:
            R["fused"] = v["name"]
    need = {"live", "err", "fused", "queue_f", "bytes_f", "dropped_f", "waker_f", "state_f"}
    if not need <= set(R):
        raise FailClosed("shared state roles incomplete: %r" % sorted(R))
    # reader / writer structs: hold Arc<Mutex<shared>>
    for a in ctx.facts.adts.values():
        if not a["local"] or a["kind"] != "struct":
            continue
        fs = a["variants"][0]["fields"]
        if any("Mutex<" + R["shared"] in f["ty"] for f in fs):
            sf = [f["name"] for f in fs if "Mutex<" in f["ty"]][0]
            if any(f["ty"] == "std::vec::Vec<u8>" for f in fs):
                R["writer"] = a["path"]
                R["w_shared_f"] = sf
                R["buf_f"] = [f["name"] for f in fs if f["ty"] == "std::vec::Vec<u8>"][0]
                R["cap_f"] = [f["name"] for f in fs if f["ty"] == "usize"][0]
            else:
                R["reader"] = a["path"]
                R["r_shared_f"] = sf
    if "writer" not in R or "reader" not in R:
        raise FailClosed("reader/writer structs not found")
    R["poll_next"] = _one(impl_fn(ctx, "futures_core::Stream", R["reader"], "poll_next"), "Reader::poll_next")
    R["write"] = _one(impl_fn(ctx, "std::io::Write", R["writer"], "write"), "Writer::write")
    R["flush"] = _one(impl_fn(ctx, "std::io::Write", R["writer"], "flush"), "Writer::flush")
    R["wdrop"] = _one(impl_fn(ctx, "std::ops::Drop", R["writer"], "drop"), "Writer::drop")
    R["rdrop"] = impl_fn(ctx, "std::ops::Drop", R["reader"], "drop")
    R["size_hint"] = _one(inherent_fn(ctx, R["reader"], "size_hint"), "Reader::size_hint")
    R["is_end_stream"] = _one(inherent_fn(ctx, R["reader"], "is_end_stream"), "Reader::is_end_stream")
    R["abort"] = _one(inherent_fn(ctx, R["writer"], "abort"), "Writer::abort")
    ctx._chroles = R
    return R


def _one(lst, what):
    from ..check import FailClosed
    if len(lst) != 1:
        raise FailClosed("%s not found uniquely (%d)" % (what, len(lst)))
    return lst[0]


def lock_events(o):
    return [e for e in o.events if e["k"] == "call" and e["callee"].get("path") == "std::sync::Mutex::<T>::lock"]


def shared_root(o, which=0):
    ls = lock_events(o)
    if len(ls) <= which:
        return None
    g = ("payload", ls[which]["result"], "Ok", "0")
    return ("H", ("pointee", g))


def entry_state(R, root):
    return ("field", ("deref", root[1]), R["state_f"])


def _path(f):
    return f if isinstance(f, tuple) else (f,)


def aget(v, f):
    """agg_get along a field path (a role may sit one record level deep)"""
    for c in _path(f):
        if is_agg(v):
            v = agg_get(v, c)
            continue
        # an in-place update of a nested record: the last write to that field, else the field of what was updated
        u = v
        while isinstance(u, tuple) and u and u[0] == "upd" and u[2] != ("f", c):
            u = u[1]
        v = u[3] if isinstance(u, tuple) and u and u[0] == "upd" else ("field", u, c)
    return v


def fproj(f):
    return tuple(("f", c) for c in _path(f))


def last_name(f):
    return _path(f)[-1]


def live_field(R, st, f):
    p = _path(f)
    t = ("payload", st, R["live"], p[0])
    for c in p[1:]:
        t = ("field", t, c)
    return t


def final_state(ctx, R, o, root):
    v = final_read(ctx, o, root, (("f", R["state_f"]),))
    return materialise(ctx, R, o, v)


def materialise(ctx, R, o, v):
    """a state that was updated in place through a downcast (`if let Ok { ready, .. } = &mut l.state { .. }`) is a chain of
    field updates on the entry value; when the path knows the variant, rebuild it as the aggregate of that variant's fields
    (the form a take-and-restore implementation produces)"""
    if not (isinstance(v, tuple) and v and v[0] == "upd"):
        return v
    base = v
    while isinstance(base, tuple) and base and base[0] == "upd":
        base = base[1]
    var = variant_at_end(o, v)
    if var is None:
        var = o.cons.variant_of(base)
    a = ctx.facts.adts.get(R["state_ty"])
    if var is None or not a:
        return v
    fields = None
    for vv in a["variants"]:
        if vv["name"] == var:
            fields = [f["name"] for f in vv["fields"]]
    if fields is None:
        return v
    pxx = P.PX(ctx.facts)
    down = pxx.project(None, v, ("as", var))
    return agg("adt", R["state_ty"], var, tuple((f, pxx.project(None, down, ("f", f))) for f in fields))


def variant_at_end(o, v):
    if is_agg(v):
        return v[3]
    if isinstance(v, tuple) and v[0] == "upd" and v[2][0] == "as":
        return v[2][1]   # a field of that variant was written through a downcast
    return o.cons.variant_of(v)


# ------------------------------------------------------------------ reader

def reader_rows(ctx):
    R = roles(ctx)
    outs = ctx.px(R["poll_next"], inline=lambda c, d: True, key="all")
    rows = []
    for o in outs:
        if o.kind == "diverge":
            rows.append({"o": o, "kind": "diverge"})
            continue
        if o.kind != "return":
            rows.append({"o": o, "kind": o.kind})
            continue
        root = shared_root(o)
        if root is None:
            rows.append({"o": o, "kind": "unrecognised", "why": "no lock"})
            continue
        st0 = entry_state(R, root)
        v0 = o.cons.variant_of(st0)
        pops = [e for e in o.events if e["k"] == "call" and method_name(e["callee"]) == "pop_front"]
        popv = o.cons.variant_of(pops[0]["result"]) if pops else None
        dropped = o.cons.known.get(live_field(R, st0, R["dropped_f"]))
        out, payload = poll_shape(o.value)
        fs = final_state(ctx, R, o, root)
        fw = final_read(ctx, o, root, (("f", R["waker_f"]),))
        rows.append({"o": o, "kind": "return", "entry": v0, "pop": popv, "dropped": dropped, "out": out, "payload": payload,
                     "final_state": fs, "final_variant": variant_at_end(o, fs) if not (isinstance(fs, tuple) and fs == st0) else v0,
                     "final_waker": fw, "root": root, "st0": st0, "pops": pops, "nlocks": len(lock_events(o))})
    return R, rows


def reader_terminal(ctx, rule):
    R, rows = reader_rows(ctx)
    # absorbing variants: entry variants all of whose rows return Ready(None)
    by_entry = {}
    for r in rows:
        if r["kind"] == "return":
            by_entry.setdefault(r["entry"], set()).add(r["out"])
    absorbing = {v for v, outs in by_entry.items() if outs == {"None"}}
    if not absorbing:
        ctx.violation(rule, rule + "|no-absorbing", "no shared-state variant makes the reader return Ready(None) unconditionally")
    n = 0
    for r in rows:
        if r["kind"] != "return" or r["out"] not in ("None", "Err"):
            continue
        n += 1
        fv = r["final_variant"]
        inst = "entry %s -> %s" % (r["entry"], r["out"])
        if fv in absorbing:
            ctx.ok(rule, "%s leaves the shared state %s (absorbing)" % (inst, fv))
        else:
            ctx.violation(rule, "%s|%s" % (rule, inst), "after returning %s the shared state is %s, from which a later poll is not guaranteed to return Ready(None)" % (r["out"], fv),
                          where=_w(r["o"]))
    ctx.floor(rule, n, 3, what="terminal rows of the chunk reader")


def _w(o):
    for e in reversed(o.events):
        if "span" in e:
            return F.loc(e["span"])
    return None


def reader_pending(ctx, rule1, rule3):
    """C10.R1 / C10.R3"""
    R, rows = reader_rows(ctx)
    npend = 0
    for r in rows:
        if r["kind"] == "diverge":
            continue
        if r["kind"] != "return":
            ctx.violation(rule3, rule3 + "|path", "UNRECOGNISED reader path (%s)" % r["kind"])
            continue
        live_empty_running = r["entry"] == R["live"] and r["pop"] == "None" and r["dropped"] == 0
        if r["out"] == "Pending":
            npend += 1
            if not live_empty_running:
                ctx.violation(rule3, "%s|pending|%s,%s,%s" % (rule3, r["entry"], r["pop"], r["dropped"]),
                              "the reader parks (Pending) on a row that is not (live, queue empty, producer running): entry %s, pop %s, producer finished %s" %
                              (r["entry"], r["pop"], r["dropped"]), where=_w(r["o"]))
            # R1: same guard, waker current, state restored
            bad = []
            if r["nlocks"] != 1:
                bad.append("%d lock acquisitions between observing the queue and parking" % r["nlocks"])
            fs = r["final_state"]
            if not (is_agg(fs) and fs[3] == R["live"]):
                bad.append("the shared state is left as %s instead of being restored to the live variant" % short(fs, 40))
            else:
                if agg_get(fs, R["dropped_f"]) != live_field(R, r["st0"], R["dropped_f"]) and agg_get(fs, R["dropped_f"]) != const(0):
                    bad.append("producer-finished flag not restored")
                if aget(fs, R["bytes_f"]) not in (live_field(R, r["st0"], R["bytes_f"]), const(0)):
                    bad.append("queued-bytes counter not restored")
            fw = r["final_waker"]
            cur = current_waker_term(r["o"])
            okw = False
            cptrs, cvals = current_wakers(r["o"])
            if is_agg(fw) and fw[3] == "Some" and agg_get(fw, "0") in cvals:
                okw = True   # Some(cx.waker().clone())
            else:
                w0 = ("field", ("deref", r["root"][1]), R["waker_f"])
                for t, v in r["o"].cons.known.items():
                    if isinstance(t, tuple) and t[0] == "call" and t[1].endswith("Waker::will_wake") and v == 1:
                        okw = True   # stored waker already wakes the current task
                cur_ptr = cur[1] if cur is not None else None
                for e in r["o"].events:
                    if e["k"] == "call" and e["callee"].get("path") == "std::clone::Clone::clone_from" and cur_ptr is not None:
                        src = e["args"][1]
                        dst = e["args"][0]
                        into_stored = dst[0] == "ref" and dst[1] == r["root"] and dst[2][:1] == (("f", R["waker_f"]),)
                        if into_stored and (src in cptrs or (src[0] == "ref" and (e["snap"][1] in cvals or (src[1][0] == "H" and src[1][1] in cptrs)))):
                            okw = True   # stored.clone_from(cx.waker())
            if not okw:
                bad.append("the stored waker is not the current task's waker when parking (final %s)" % short(fw, 60))
            if bad:
                ctx.violation(rule1, "%s|%s" % (rule1, bad[0][:40]), "Pending path: " + "; ".join(bad), where=_w(r["o"]))
            else:
                ctx.ok(rule1, "Pending path registers the current waker under the same lock and restores the state")
        elif live_empty_running:
            ctx.violation(rule3, "%s|no-park|%s" % (rule3, r["out"]), "on (live, empty queue, producer running) the reader returns %s instead of parking" % r["out"], where=_w(r["o"]))
    ctx.floor(rule1, npend, 2, what="Pending rows")
    ctx.ok(rule3, "Pending only on (live, empty, producer running); every other row returns Ready", detail={"pending_rows": npend})


def current_wakers(o):
    """all terms denoting the polling task's waker on this path (each `cx.waker()` call)"""
    ptrs = [e["result"] for e in o.events if e["k"] == "call" and e["callee"].get("path") == "std::task::Context::<'a>::waker"]
    return ptrs, [("deref", p) for p in ptrs]


def current_waker_term(o):
    for e in o.events:
        if e["k"] == "call" and e["callee"].get("path") == "std::task::Context::<'a>::waker":
            return ("deref", e["result"])
    return None


def reader_consume(ctx, rule):
    """C08.R4: pop_front; bytes -= len(c); yield D::from(c)"""
    R, rows = reader_rows(ctx)
    n = 0
    for r in rows:
        if r["kind"] != "return" or r["out"] != "Ok":
            continue
        n += 1
        bad = []
        if len(r["pops"]) != 1 or r["pop"] != "Some":
            bad.append("data is yielded without exactly one successful pop_front")
        else:
            c = ("payload", r["pops"][0]["result"], "Some", "0")
            p = r["payload"]
            if not (isinstance(p, tuple) and p[0] == "call" and p[1].endswith("From::from") and p[2][0] == c):
                bad.append("the frame is %s, not D::from(<popped chunk>)" % short(p, 80))
            fs = r["final_state"]
            if is_agg(fs) and fs[3] == R["live"]:
                b2 = aget(fs, R["bytes_f"])
                want = mk_binop("Sub", live_field(R, r["st0"], R["bytes_f"]), len_term(c))
                if b2 != want:
                    bad.append("queued-bytes counter becomes %s, expected bytes - len(chunk)" % short(b2, 80))
            elif variant_at_end(r["o"], fs) != R["fused"]:
                bad.append("state after the last chunk is %s" % short(fs, 40))
            else:
                # leaving the consumer-finished state behind is only right after the *last* chunk: the queue is empty
                # after the pop and the producer has finished; otherwise later chunks would be lost / the body ends early
                empty_after = any(isinstance(tt, tuple) and tt[0] == "binop" and tt[1] == "Eq" and isinstance(tt[2], tuple) and tt[2][0] == "len"
                                  and "pop_front" in repr(tt[2])[:300] and tt[3] == const(0) and vv == 1 for tt, vv in r["o"].cons.known.items())
                if not (empty_after and r["dropped"] == 1):
                    bad.append("the reader marks itself finished after a chunk although %s: the rest of the body would never be delivered" %
                               ("chunks may still be queued" if not empty_after else "the producer has not finished"))
        if bad:
            ctx.violation(rule, "%s|%s" % (rule, bad[0][:40]), "consume path: " + "; ".join(bad), where=_w(r["o"]))
        else:
            ctx.ok(rule, "consume row: pop_front, counter -= len(chunk), frame = from(chunk) (dropped=%s)" % r["dropped"])
    ctx.floor(rule, n, 2, what="data rows of the reader")


# ------------------------------------------------------------------ tables: is_end_stream / size_hint

def end_stream_table(ctx, rule):
    R = roles(ctx)
    outs = [o for o in ctx.px(R["is_end_stream"], inline=lambda c, d: True, key="all") if o.kind == "return"]
    seen = set()
    for o in outs:
        root = shared_root(o)
        st0 = entry_state(R, root)
        v0 = o.cons.variant_of(st0)
        val = o.value
        b = live_field(R, st0, R["bytes_f"])
        d = live_field(R, st0, R["dropped_f"])
        z = cons_zone(o, terms=(b,))
        may_true = not (is_const(val) and val[1] == 0)
        if v0 is None:
            # a catch-all arm (`_ => ..`): the row stands for every variant the path has not excluded
            excl = set(o.cons.notvariant.get(st0, ()))
            rest = [vv["name"] for vv in ctx.facts.adts[R["state_ty"]]["variants"] if vv["name"] not in excl]
            if R["live"] in rest:
                ctx.violation(rule, rule + "|variant", "UNRECOGNISED: a catch-all row of is_end_stream covers the live state")
                continue
            for vn in rest:
                seen.add(vn)
                if vn == R["err"]:
                    if may_true:
                        ctx.violation(rule, rule + "|err-true", "is_end_stream can answer true while an abort error is pending (%s; a catch-all arm "
                                      "covers the error state)" % short(val, 40))
                    else:
                        ctx.ok(rule, "error pending -> false (catch-all arm)")
                elif vn == R["fused"]:
                    ctx.ok(rule, "consumer finished -> %s (catch-all arm)" % short(val, 20))
            continue
        seen.add(v0)
        if v0 == R["err"]:
            if may_true:
                ctx.violation(rule, rule + "|err-true", "is_end_stream can answer true while an abort error is pending (%s)" % short(val, 40))
            else:
                ctx.ok(rule, "error pending -> false")
        elif v0 == R["fused"]:
            ctx.ok(rule, "consumer finished -> %s" % short(val, 20))
        elif v0 == R["live"]:
            if may_true:
                # the value may be true only if bytes == 0 and dropped
                okk = False
                if is_const(val) and val[1] == 1:
                    okk = z.entails("Eq", b, const(0)) and o.cons.known.get(d) == 1
                elif val == d or (isinstance(val, tuple) and val == ("field",) + d[1:]):
                    okk = z.entails("Eq", b, const(0))
                elif o.cons.known.get(d) == 1 and isinstance(val, tuple) and val[0] == "binop" and val[1] == "Eq" and val[2] == b and val[3] == const(0):
                    okk = True
                if not okk:
                    ctx.violation(rule, rule + "|live-true", "is_end_stream may answer true on a live state without (queued bytes == 0 and producer finished): %s" % short(val, 80))
                else:
                    ctx.ok(rule, "live -> true only if nothing queued and producer finished")
            else:
                ctx.ok(rule, "live row -> false")
        else:
            ctx.violation(rule, rule + "|variant", "UNRECOGNISED state variant %s in is_end_stream" % v0)
    ctx.floor(rule, len(seen), 3, what="state variants covered by is_end_stream")


def _subst(t, a, b):
    if t == a:
        return b
    if isinstance(t, tuple):
        return tuple(_subst(x, a, b) for x in t)
    return t


def eos_implies_end(ctx, rule):
    """whenever is_end_stream answers true the next poll is the end: every pair (row of is_end_stream that can answer true,
    row of poll_next) whose conditions on the shared state at entry are compatible has the poll row return Ready(None).
    The conditions are compared on terms over the entry state, whatever fields it has - a field the flag does not look at
    but the poll does (a deferred error, a second queue) makes a pair compatible. One invariant is used: a successful
    pop means queued bytes > 0 (C08.R3 / R4 / R6: the counter is the sum of the queued, non-empty chunks)."""
    R, rows = reader_rows(ctx)
    STATE = ("STATE0",)
    outs = [o for o in ctx.px(R["is_end_stream"], inline=lambda c, d: True, key="all") if o.kind == "return"]

    def facts_of(o, st0, extra_known=()):
        kn, var, nvar = {}, {}, {}
        for t, v in list(o.cons.known.items()) + list(extra_known):
            if st0 is not None and repr(st0) in repr(t):
                kn[_subst(t, st0, STATE)] = v
        for t, v in o.cons.variant.items():
            if st0 is not None and (t == st0 or repr(st0) in repr(t)):
                var[_subst(t, st0, STATE)] = v
        for t, v in o.cons.notvariant.items():
            if st0 is not None and (t == st0 or repr(st0) in repr(t)):
                nvar[_subst(t, st0, STATE)] = set(v)
        return kn, var, nvar
    trues = []
    for o in outs:
        val = o.value
        if is_const(val) and val[1] == 0:
            continue
        root = shared_root(o)
        if root is None:
            ctx.violation(rule, rule + "|eos-root", "UNRECOGNISED: is_end_stream answers without locking the shared state")
            continue
        st0 = entry_state(R, root)
        b = live_field(R, st0, R["bytes_f"])
        extra = []
        if not is_const(val):
            # a symbolic answer: the row stands for "true" under the extra condition that the answer is 1
            if isinstance(val, tuple) and val[0] == "binop" and val[1] == "Eq" and val[3] == const(0):
                extra.append((("iszero", val[2]), 1))
            else:
                extra.append((val, 1))
        z = cons_zone(o, terms=(b,))
        if z.entails("Eq", b, const(0)):
            extra.append((("iszero", b), 1))
        trues.append((o, facts_of(o, st0, extra), short(val, 30)))
    n = 0
    bad = set()
    for r in rows:
        if r["kind"] != "return":
            continue
        o = r["o"]
        st0 = r["st0"]
        b = live_field(R, st0, R["bytes_f"])
        extra = []
        if r["pop"] == "Some":
            extra.append((("iszero", b), 0))
        elif r["pop"] == "None" or cons_zone(o, terms=(b,)).entails("Eq", b, const(0)):
            extra.append((("iszero", b), 1))
        pk, pv, pn = facts_of(o, st0, extra)
        for eo, (ek, ev_, en), what in trues:
            compatible = all(pk.get(t, v) == v for t, v in ek.items()) and all(pv.get(t, v) == v for t, v in ev_.items()) and \
                all(pv.get(t) not in vs for t, vs in en.items()) and all(ev_.get(t) not in vs for t, vs in pn.items())
            if not compatible:
                continue
            n += 1
            if r["out"] != "None":
                key = "%s|%s-after-eos|%s" % (rule, r["out"], r["entry"])
                if key not in bad:
                    bad.add(key)
                    ctx.violation(rule, key, "is_end_stream answers true (%s) in a state (entry variant %s) in which the next poll returns %s: the flag looks at less "
                                  "of the shared state than the poll does" % (what, r["entry"], r["out"]), where=_w(o))
            else:
                ctx.ok(rule, "end-of-stream row x poll row (entry %s): the poll returns the end" % r["entry"])
    # (a flag that never answers true is allowed - always-false is truthful - so the number of pairs has no floor; what must not
    # be empty is the set of rows read)
    ctx.ok(rule, "pairs compared", detail={"true_rows": len(trues), "compatible_pairs": n})
    ctx.floor(rule, len(outs), 1, what="rows of is_end_stream analysed")


def size_hint_table(ctx, rule):
    R = roles(ctx)
    outs = [o for o in ctx.px(R["size_hint"], inline=lambda c, d: True, key="all") if o.kind == "return"]
    n = 0
    for o in outs:
        root = shared_root(o)
        st0 = entry_state(R, root)
        v0 = o.cons.variant_of(st0)
        b = live_field(R, st0, R["bytes_f"])
        d = live_field(R, st0, R["dropped_f"])
        lows = [e for e in o.events if e["k"] == "call" and e["callee"].get("path") == "http_body::SizeHint::set_lower"]
        ups = [e for e in o.events if e["k"] == "call" and e["callee"].get("path") == "http_body::SizeHint::set_upper"]
        exact = [e for e in o.events if e["k"] == "call" and e["callee"].get("path") in ("http_body::SizeHint::with_exact", "http_body::SizeHint::set_exact")]
        n += 1
        if v0 != R["live"]:
            if lows or ups or exact:
                ctx.violation(rule, rule + "|nonlive", "size_hint sets bounds on a non-live state (%s): nothing more will be delivered" % v0)
            else:
                ctx.ok(rule, "%s -> default hint (lower 0, no upper)" % v0)
            continue
        bad = []
        for e in lows + exact:
            if e["args"][-1] != b:
                bad.append("lower bound %s is not the queued-bytes counter" % short(e["args"][-1], 50))
        for e in ups + exact:
            if e["args"][-1] != b:
                bad.append("upper bound %s is not the queued-bytes counter" % short(e["args"][-1], 50))
            if o.cons.known.get(d) != 1:
                bad.append("an upper bound is given while the producer may still write")
        if bad:
            ctx.violation(rule, "%s|%s" % (rule, bad[0][:40]), "size_hint (live): " + "; ".join(bad))
        else:
            ctx.ok(rule, "live (producer finished=%s): lower = queued bytes%s" % (o.cons.known.get(d), ", upper = queued bytes" if ups or exact else ", no upper"))
    ctx.floor(rule, n, 3, what="size_hint rows")


# ------------------------------------------------------------------ writer: flush / drop / abort

def flush_rows(ctx, dropping):
    """rows of the flush helper reached through flush() (dropping False) or Drop (True)"""
    R = roles(ctx)
    entry = R["wdrop"] if dropping else R["flush"]
    outs = ctx.px(entry, inline=lambda c, d: True, key="all")
    return R, outs


def writer_self_root(o):
    return ("H", ("param", 1))


def publish_info(ctx, R, o):
    """what this path published under the lock"""
    root = shared_root(o)
    info = {"root": root, "pushed": [], "state_err": False, "dropped_set": None, "took_waker": None, "woke": []}
    if root is None:
        return info
    for e in o.events:
        if e["k"] == "call" and method_name(e["callee"]) == "push_back":
            info["pushed"].append(e)
        if e["k"] == "call" and e["callee"].get("path") == "std::option::Option::<T>::take":
            a = e["args"][0]
            if a[0] == "ref" and a[1] == root and a[2] == (("f", R["waker_f"]),):
                info["took_waker"] = e
        if e["k"] == "call" and e["callee"].get("path") in ("std::task::Waker::wake", "std::task::Waker::wake_by_ref"):
            info["woke"].append(e)
    fs = final_state(ctx, R, o, root)
    info["final_state"] = fs
    st0 = entry_state(R, root)
    info["st0"] = st0
    info["entry"] = o.cons.variant_of(st0)
    fv = variant_at_end(o, fs) if fs != st0 else info["entry"]
    info["final_variant"] = fv
    if info["entry"] == R["live"] and fv == R["err"]:
        info["state_err"] = True
    if info["entry"] == R["live"] and fv == R["live"]:
        d2 = final_read(ctx, o, root, (("f", R["state_f"]), ("as", R["live"]), ("f", R["dropped_f"])))
        info["dropped_after"] = d2
    return info


def wake_discipline(ctx, rule, fn_outs):
    """C10.R2: publish => take the waker under the same guard => wake it on the Some edge"""
    R = roles(ctx)
    n = 0
    for label, outs in fn_outs:
        for o in outs:
            if o.kind != "return":
                continue
            pi = publish_info(ctx, R, o)
            if pi["root"] is None:
                continue
            published = bool(pi["pushed"]) or pi["state_err"] or (pi.get("dropped_after") is not None and pi["dropped_after"] != live_field(R, pi["st0"], R["dropped_f"]))
            if not published:
                # not publishing: then the parked waker must stay where it is (or be woken) -- a waker that is taken and
                # dropped silently loses the consumer's registration: the next publish finds nobody to wake
                tw = pi["took_waker"]
                if tw is not None:
                    tv = o.cons.variant_of(tw["result"])
                    w = ("payload", tw["result"], "Some", "0")
                    woke = any(e["args"][0] == w or (e["args"][0][0] == "ref" and e["snap"][0] == w) for e in pi["woke"])
                    fw = final_read(ctx, o, pi["root"], (("f", R["waker_f"]),))
                    restored = fw == tw["result"] or (is_agg(fw) and fw[3] == "Some" and agg_get(fw, "0") == w)
                    if tv != "None" and not woke and not restored:
                        ctx.violation(rule, "%s|%s|waker-discarded" % (rule, label), "%s: a path that publishes nothing takes the parked waker and neither wakes it nor puts it back: "
                                      "the consumer's registration is lost and a later publish wakes nobody" % label, where=_w(o))
                continue
            n += 1
            bad = []
            tw = pi["took_waker"]
            if tw is None:
                bad.append("publishes (%s) without taking the parked waker under the same lock" %
                           ("chunk" if pi["pushed"] else ("error" if pi["state_err"] else "producer-finished flag")))
            else:
                taken = tw["result"]
                tv = o.cons.variant_of(taken)
                if tv == "Some":
                    w = ("payload", taken, "Some", "0")
                    if not any(e["args"][0] == w or (e["args"][0][0] == "ref" and e["snap"][0] == w) for e in pi["woke"]):
                        bad.append("takes a parked waker but never wakes it")
                elif tv is None:
                    bad.append("the taken waker is not inspected")
            if bad:
                ctx.violation(rule, "%s|%s|%s" % (rule, label, bad[0][:30]), "%s: %s" % (label, "; ".join(bad)), where=_w(o))
            else:
                ctx.ok(rule, "%s: publish -> take waker under the lock -> wake (waker %s)" % (label, o.cons.variant_of(pi["took_waker"]["result"])))
    ctx.floor(rule, n, 6, what="publishing rows (flush, drop, abort)")


def publish_rules(ctx, r3, r6, r7):
    """C08.R3 / R6 / R7 on the flush helper"""
    R = roles(ctx)
    n = 0
    for dropping in (False, True):
        _, outs = flush_rows(ctx, dropping)
        label = "drop" if dropping else "flush"
        for o in outs:
            if o.kind != "return":
                continue
            pi = publish_info(ctx, R, o)
            bufroot = writer_self_root(o)
            buf0 = ("field", ("deref", ("param", 1)), R["buf_f"])
            empty = None
            for t, v in o.cons.known.items():
                if isinstance(t, tuple) and t[0] == "binop" and t[1] == "Eq" and t[2] == ("len", buf0) and t[3] == const(0):
                    empty = bool(v)
            z = cons_zone(o, terms=(("len", buf0),))
            if empty is None:
                if z.entails("Eq", ("len", buf0), const(0)):
                    empty = True
                elif z.entails("Lt", const(0), ("len", buf0)):
                    empty = False
            ok_ret = (is_agg(o.value) and o.value[3] == "Ok") or o.value == ("zst", "()") or (dropping and True)
            for e in pi["pushed"]:
                n += 1
                # R6: never an empty chunk
                if empty is not False:
                    ctx.violation(r6, "%s|%s" % (r6, label), "%s: a chunk is queued on a path where the buffer may be empty (empty frame)" % label, where=where(e))
                # R3: the pushed value is the taken buffer, counter += its length
                v = e["args"][1]
                if v != buf0:
                    ctx.violation(r3, "%s|%s|value" % (r3, label), "%s: the queued chunk is %s, not the writer's buffer" % (label, short(v, 60)), where=where(e))
                else:
                    b2 = final_read(ctx, o, pi["root"], (("f", R["state_f"]), ("as", R["live"])) + fproj(R["bytes_f"]))
                    want = mk_binop("Add", live_field(R, pi["st0"], R["bytes_f"]), len_term(buf0))
                    if b2 != want:
                        ctx.violation(r3, "%s|%s|counter" % (r3, label), "%s: queued-bytes counter becomes %s, expected bytes + len(chunk)" % (label, short(b2, 80)), where=where(e))
                    else:
                        nb = final_read(ctx, o, bufroot, (("f", R["buf_f"]),))
                        if not (isinstance(nb, tuple) and nb[0] == "default"):
                            ctx.violation(r3, "%s|%s|buf-kept" % (r3, label), "%s: the buffer is queued but not taken out of the writer (it would be sent twice)" % label, where=where(e))
                        else:
                            ctx.ok(r3, "%s: chunk = taken buffer, counter += len(chunk), under the lock" % label)
            if not dropping and is_agg(o.value) and o.value[3] == "Ok" and empty is False and not pi["pushed"]:
                ctx.violation(r3, "%s|%s|ok-without-publish" % (r3, label), "flush returns Ok with a non-empty buffer that was not handed to the consumer", where=_w(o))
            # R7: producer-finished flag := dropping
            if pi.get("dropped_after") is not None and pi["entry"] == R["live"] and pi["final_variant"] == R["live"] and pi["took_waker"] is not None:
                want = const(1 if dropping else 0)
                if pi["dropped_after"] != want:
                    ctx.violation(r7, "%s|%s" % (r7, label), "%s: the producer-finished flag becomes %s, expected %s" % (label, short(pi["dropped_after"], 40), want[1]), where=_w(o))
                else:
                    ctx.ok(r7, "%s: producer-finished flag := %s" % (label, want[1]))
    ctx.floor(r3, n, 2, what="chunk-publishing rows (flush and drop)")


def abort_rows(ctx, rule):
    """C11.R2: abort on a live state stores the error (and wakes, C10.R2); otherwise the state stays non-live"""
    R = roles(ctx)
    outs = [o for o in ctx.px(R["abort"], inline=lambda c, d: True, key="all") if o.kind == "return"]
    n = 0
    for o in outs:
        pi = publish_info(ctx, R, o)
        n += 1
        if pi["root"] is None:
            ctx.violation(rule, rule + "|no-lock", "a path of abort never touches the shared state: the error is not stored and the consumer is not told", where=_w(o))
            continue
        if pi["entry"] == R["live"]:
            fs = pi["final_state"]
            if not (is_agg(fs) and fs[3] == R["err"] and agg_get(fs, "0") == ("param", 2)):
                ctx.violation(rule, rule + "|live", "abort on a live state leaves %s, not the error variant holding the given error" % short(fs, 60), where=_w(o))
            else:
                ctx.ok(rule, "abort: live -> error variant holding the caller's error")
        else:
            if pi["final_variant"] == R["live"]:
                ctx.violation(rule, rule + "|resurrect", "abort turns a non-live state back into a live one")
            else:
                ctx.ok(rule, "abort: %s stays non-live" % pi["entry"])
    ctx.floor(rule, n, 2, what="abort rows")
    return outs


def lock_expect_tl(ev, o):
    """`lock().expect(..)` fails only on a poisoned mutex, i.e. after a panic inside a critical section;
    critical sections are checked panic-free by critical_sections_panic_free"""
    if ev["k"] == "call" and "panic_if" in ev:
        _, t, bad = ev["panic_if"]
        if isinstance(t, tuple) and t[0] == "call" and t[1] == "std::sync::Mutex::<T>::lock":
            return "mutex cannot be poisoned: critical sections are panic-free (C10.R4)"
    return None


def lock_entries(ctx):
    """functions whose analysis (with their helpers expanded) contains the critical sections: those that lock the shared
    mutex themselves, and - for a helper that locks and hands the guard to its caller - the callers of that helper"""
    sites = calls_named(ctx.facts, "std::sync::Mutex::<T>::lock")
    fns = {b["name"] for b, i, t in sites}
    entries = set()
    work = list(fns)
    seen = set()
    while work:
        fn = work.pop()
        if fn in seen:
            continue
        seen.add(fn)
        ret = ctx.facts.bodies[fn]["locals"][0]["s"]
        if "MutexGuard" in ret:
            for cb, ci, ct in ctx.facts.all_calls():
                if ct["callee"].get("res_path") == fn or ct["callee"].get("path") == fn:
                    work.append(cb["name"])
        else:
            entries.add(fn)
    return sorted(entries), len(sites)


def critical_sections_panic_free(ctx, rule):
    """no reachable panic site between acquiring the shared mutex and releasing it (so the mutex is never poisoned and
    `lock().expect(..)` cannot fail); the byte-counter asserts are discharged by the accounting rules C08.R3/R4"""
    R = roles(ctx)
    fns, _ = lock_entries(ctx)
    n = 0
    for fn in fns:
        outs = ctx.px(fn, inline=lambda c, d: True, key="all")
        all_sites = CEN.census(ctx, outs, typelevel=lock_expect_tl)
        inside = set()
        for o in outs:
            live = False
            for e in o.events:
                if e["k"] == "call" and e["callee"].get("path") == "std::sync::Mutex::<T>::lock":
                    live = True
                    continue
                if (e["k"] == "drop" and "MutexGuard" in e.get("ty", "")) or \
                        (e["k"] == "call" and e["callee"].get("path") == "std::mem::drop" and "MutexGuard" in (e["argops"][0].get("place", {}).get("ty", {}).get("s") or "")):
                    live = False
                    continue
                if live and e["k"] in ("assert", "call"):
                    inside.add((e["fn"], e["bb"]))
        for key, s in sorted(all_sites.items()):
            if (s.fn, s.bb) not in inside:
                continue
            n += 1
            counter = s.kind == "assert" and s.op in ("Overflow(Sub)", "Overflow(Add)") and all(last_name(R["bytes_f"]) in f[1] for f in s.failed)
            dbg = s.kind == "panic-call" and "assert_failed" in s.op
            if s.failed and not (counter or dbg):
                ctx.violation(rule, "%s|%s" % (rule, key), "a panic site inside a critical section is not discharged (it would poison the shared mutex): %s" % s.failed[0][0], where=F.loc(s.span))
            elif s.failed:
                ctx.ok(rule, "%s: queued-bytes counter site inside the critical section (accounting rules C08.R3/R4)" % key, nontrivial=False)
            else:
                ctx.ok(rule, "%s inside a critical section: %s" % (key, sorted(s.how)[:2]))
    ctx.floor(rule, n, 2, what="panic-capable sites inside critical sections")


def lock_discipline(ctx, rule):
    """C10.R4: one mutex, no nested acquisition, five lock sites"""
    R = roles(ctx)
    fns, nsites = lock_entries(ctx)
    # (how many textual lock() calls there are is an accident of factoring; what is analysed is every function holding the lock)
    ctx.floor(rule, len(fns), 4, what="functions with a critical section on the shared mutex")
    for fn in fns:
        for entry in [fn]:
            outs = ctx.px(entry, inline=lambda c, d: True, key="all")
            nested = False
            for o in outs:
                live = 0
                for e in o.events:
                    if e["k"] == "call" and e["callee"].get("path") == "std::sync::Mutex::<T>::lock":
                        if live:
                            nested = True
                        live += 1
                    if e["k"] == "drop" and "MutexGuard" in e.get("ty", ""):
                        live = max(0, live - 1)
                    if e["k"] == "call" and e["callee"].get("path") == "std::mem::drop" and "MutexGuard" in (e["argops"][0].get("place", {}).get("ty", {}).get("s") or ""):
                        live = max(0, live - 1)
            if nested:
                ctx.violation(rule, "%s|nested|%s" % (rule, fn), "%s acquires the shared mutex while already holding it" % fn)
            else:
                ctx.ok(rule, "%s: no nested acquisition" % fn)


def consumer_drop(ctx, rule):
    """C11.R5: the consumer half has a Drop whose every path leaves the shared state non-live (and so releases the queue)"""
    R = roles(ctx)
    if not R["rdrop"]:
        ctx.violation(rule, rule + "|no-drop", "the consumer half (%s) has no Drop impl: nothing marks the shared state when the body is dropped, "
                      "so the writer keeps queueing for a consumer that no longer exists" % R["reader"])
        return
    outs = [o for o in ctx.px(R["rdrop"][0], inline=lambda c, d: True, key="all") if o.kind == "return"]
    n = 0
    for o in outs:
        root = shared_root(o)
        if root is None:
            ctx.violation(rule, rule + "|no-lock", "the consumer's Drop has a path that does not touch the shared state")
            continue
        n += 1
        fs = final_state(ctx, R, o, root)
        st0 = entry_state(R, root)
        fv = variant_at_end(o, fs) if fs != st0 else o.cons.variant_of(st0)
        if fv == R["live"] or fv is None:
            ctx.violation(rule, rule + "|stays-live", "a path of the consumer's Drop leaves the shared state %s" % ("live" if fv else "undetermined"), where=_w(o))
        else:
            ctx.ok(rule, "consumer Drop leaves the state %s (queue released with the old state)" % fv)
    ctx.floor(rule, n, 1, what="paths of the consumer's Drop")


def drop_always_announces(ctx, rule):
    """C10.R4.drop: every way out of the producer's Drop - whatever it tested first (a flag of its own, `thread::panicking()`,
    an empty buffer) - has looked at the shared state under the lock, and when it found it live it left the
    producer-finished flag set: a consumer parked on the empty queue learns that no more data will come"""
    R = roles(ctx)
    _, outs = flush_rows(ctx, True)
    n = 0
    for o in outs:
        if o.kind != "return":
            continue
        n += 1
        pi = publish_info(ctx, R, o)
        if pi["root"] is None:
            conds = [fmt_term(k)[:70] + "=" + str(v) for k, v in o.cons.known.items()]
            ctx.violation(rule, rule + "|no-lock", "a path of the producer's Drop (%s) never touches the shared state: the consumer is not told that the producer is "
                          "gone and waits for ever" % ("; ".join(conds[:3]) or "unconditional"), where=_w(o))
            continue
        if pi.get("entry") == R["live"] and pi.get("final_variant") == R["live"]:
            if pi.get("dropped_after") != const(1):
                ctx.violation(rule, rule + "|flag", "a path of the producer's Drop leaves a live shared state with the producer-finished flag %s" %
                              short(pi.get("dropped_after"), 40), where=_w(o))
                continue
        ctx.ok(rule, "Drop path: shared state visited under the lock (%s -> %s)" % (pi.get("entry") or "non-live", pi.get("final_variant") or "unchanged"))
    ctx.floor(rule, n, 2, what="return paths of the producer's Drop")


def writer_never_resurrects(ctx, rule):
    """C20.R1.writer: no producer-side entry point (flush, Drop, abort) turns a terminated shared state (error pending or
    delivered, consumer finished) back into a live one: what the reader reported as the end stays the end whatever the
    writer does afterwards"""
    R = roles(ctx)
    n = 0
    for what, outs in (("flush", flush_rows(ctx, False)[1]), ("drop", flush_rows(ctx, True)[1]),
                       ("abort", ctx.px(R["abort"], inline=lambda c, d: True, key="all"))):
        for o in outs:
            if o.kind != "return":
                continue
            pi = publish_info(ctx, R, o)
            if pi["root"] is None:
                continue
            ent, fv = pi.get("entry"), pi.get("final_variant")
            if ent is None and R["live"] in o.cons.notvariant.get(pi["st0"], ()):
                ent = "non-live"        # the catch-all arm of a test for the live variant
            if ent is None or ent == R["live"]:
                continue
            if fv is None and pi["final_state"] == pi["st0"]:
                fv = "non-live"         # left as found
            n += 1
            if fv == R["live"] or fv is None:
                ctx.violation(rule, "%s|%s|%s" % (rule, what, ent), "%s entered with the shared state %s (terminated) leaves it %s: a body that reported its error or "
                              "end can yield data again" % (what, ent, "live" if fv else "undetermined"), where=_w(o))
            else:
                ctx.ok(rule, "%s: %s stays non-live (%s)" % (what, ent, fv))
    ctx.floor(rule, n, 3, what="producer rows entered with a terminated state")


def flush_reports_gone_consumer(ctx, rule):
    """C11.R6: flush (not drop) returns Ok only after observing under the lock that the state is live"""
    R = roles(ctx)
    _, outs = flush_rows(ctx, False)
    n = 0
    for o in outs:
        if o.kind != "return":
            continue
        v = o.value
        okret = (is_agg(v) and v[3] == "Ok")
        if not okret:
            continue
        n += 1
        root = shared_root(o)
        if root is None:
            ctx.violation(rule, rule + "|ok-without-lock", "flush returns Ok on a path that never looks at the shared state: a dropped consumer goes unnoticed", where=_w(o))
            continue
        st0 = entry_state(R, root)
        if o.cons.variant_of(st0) != R["live"]:
            ctx.violation(rule, rule + "|ok-on-nonlive", "flush returns Ok although the shared state is %s (consumer gone or aborted)" % o.cons.variant_of(st0), where=_w(o))
        else:
            ctx.ok(rule, "flush Ok path observed a live consumer under the lock")
    ctx.floor(rule, n, 1, what="Ok rows of flush")


def queue_api(ctx, rule):
    """C08.R5 / C11.R7: FIFO closure of the methods called on the queue"""
    allowed = {"push_back", "pop_front", "is_empty", "len", "new", "default", "drop", "take", "with_capacity"}
    n = 0
    for b, i, t in ctx.facts.all_calls():
        full = (t["callee"].get("res_full") or t["callee"].get("full") or "")
        if "VecDeque<" not in full.split(" as ")[0] and "VecDeque::<" not in full:
            continue
        n += 1
        m = method_name(t["callee"])
        if m not in allowed:
            ctx.violation(rule, "%s|%s|%s" % (rule, b["name"], m), "`%s` on the chunk queue can reorder, duplicate or drop single chunks" % m, where=F.loc(t["span"]))
    ctx.ok(rule, "queue methods are limited to push_back / pop_front / is_empty / whole-queue take", detail={"call_sites": n})
    ctx.floor(rule, n, 3, what="method calls on the chunk queue")


# ------------------------------------------------------------------ writer: write()

def write_rules(ctx, r1, r2):
    """C08.R1 (returned count == bytes appended <= len(input)) and C08.R2 (step invariant Inv_W)"""
    R = roles(ctx)
    BUF0 = ("sym", "buf")
    CAPF = ("sym", "chunk_cap")
    INP = ("deref", ("param", 2))
    TY.setdefault(CAPF, (64, False))
    cap_b = ("cap", BUF0)
    len_b = ("len", BUF0)
    TY.setdefault(cap_b, (64, False))
    TY.setdefault(len_b, (64, False))
    cases = [("capacity=0", [("Eq", cap_b, const(0)), ("Eq", len_b, const(0))]),
             ("capacity>=chunk", [("Le", CAPF, cap_b), ("Lt", len_b, cap_b)])]
    selfv = agg("adt", R["writer"], None, ((R["w_shared_f"], ("sym", "shared")), (R["buf_f"], BUF0), (R["cap_f"], CAPF), ("_marker", ("sym", "m"))))
    nok = 0
    for label, rels in cases:
        def setup(st, px, rels=rels):
            st.env[("H", ("param", 1))] = selfv
            st.cons.rel.append(("Le", const(1), CAPF))
            for r in rels:
                st.cons.rel.append(r)
        outs = ctx.px(R["write"], inline=lambda c, d: True, setup=setup, key="w")
        sites = CEN.census(ctx, outs, typelevel=lock_expect_tl)
        for key, s in sorted(sites.items()):
            if s.failed and s.kind == "assert" and s.op == "Overflow(Add)" and all(("." + last_name(R["bytes_f"])) in f[1] for f in s.failed):
                ctx.ok(r2, "write (%s): %s -- queued-bytes counter: the sum of the lengths of distinct live Vec<u8> allocations cannot exceed the address space" % (label, key), nontrivial=False)
            elif s.failed:
                ctx.violation(r2, "%s|%s|%s" % (r2, label, key), "write (%s): %s (%s)" % (label, s.failed[0][0], s.failed[0][1][:100]), where=F.loc(s.span))
            else:
                ctx.ok(r2, "write (%s): %s" % (label, key), detail=sorted(s.how), where=F.loc(s.span))
        for o in outs:
            if o.kind != "return":
                continue
            z0 = cons_zone(o)
            if not z0.feasible():
                continue
            v = o.value
            var = v[3] if is_agg(v) else o.cons.variant_of(v)
            if var != "Ok":
                continue  # Err exits: the BodyWriter goes dead (C11.R4)
            nok += 1
            n = agg_get(v, "0") if is_agg(v) else ("payload", v, "Ok", "0")
            # appended slice
            ext = [e for e in o.events if e["k"] == "call" and method_name(e["callee"]) == "extend_from_slice"]
            bad = []
            if len(ext) != 1:
                bad.append("%d appends to the chunk buffer" % len(ext))
            else:
                sl = ext[0]["args"][1]
                from .etaglist import canon_slice
                sv, _pth = canon_slice(sl)
                ln = len_term(sv)
                z = cons_zone(o, terms=(n, ln, len_term(INP)))
                if not z.entails("Eq", n, ln):
                    bad.append("returned count %s is not the length of the slice appended (%s)" % (short(n, 40), short(ln, 40)))
                # (the whole input is its own longest prefix)
                if not ((isinstance(sv, tuple) and sv[0] == "slice" and sv[1] == INP and sv[2] == const(0)) or sv == INP):
                    bad.append("the appended slice is %s, not a prefix of the input" % short(sv, 60))
                if not z.entails("Le", n, len_term(INP)):
                    bad.append("returned count may exceed the input length")
                # progress: non-empty input => n >= 1
                zp = cons_zone(o, extra=[("Le", const(1), len_term(INP))], terms=(n,))
                if zp.feasible() and not zp.entails("Le", const(1), n):
                    bad.append("a non-empty input can be answered with Ok(0)")
            if bad:
                ctx.violation(r1, "%s|%s|%s" % (r1, label, bad[0][:40]), "write (%s): %s" % (label, "; ".join(bad)), where=_w(o))
            else:
                ctx.ok(r1, "write (%s): Ok(n), n = len(appended prefix) <= len(input), n >= 1 for non-empty input" % label)
            # Inv_W at exit
            nb = final_read(ctx, o, ("H", ("param", 1)), (("f", R["buf_f"]),))
            c2, l2 = buf_cap_len(nb, BUF0)
            zz = cons_zone(o, terms=(c2, l2, CAPF))
            inv = (zz.entails("Eq", c2, const(0)) and zz.entails("Eq", l2, const(0))) or (zz.entails("Le", CAPF, c2) and zz.entails("Lt", l2, c2))
            if not inv:
                ctx.violation(r2, "%s|%s|inv" % (r2, label), "write (%s): after Ok the buffer invariant `(capacity=0 and len=0) or (capacity >= chunk size and len < capacity)` "
                              "is not re-established (capacity %s, len %s): a later write can report Ok(0) or panic" % (label, short(c2, 40), short(l2, 40)), where=_w(o))
            else:
                ctx.ok(r2, "write (%s): buffer invariant re-established (a full chunk is always handed over before Ok)" % label)
    ctx.floor(r1, nok, 3, what="Ok rows of write over both invariant cases")


def buf_cap_len(v, base):
    """(capacity term, length term) of a buffer value built from `base` by the modelled operations"""
    from ..models import len_term as LT
    if isinstance(v, tuple) and v[0] == "default":
        return const(0), const(0)
    return cap_term(v), vec_len(v)


def vec_len(v):
    if isinstance(v, tuple):
        if v[0] == "default":
            return const(0)
        if v[0] == "appended":
            piece = v[2]
            pl = len_term(piece[1]) if piece[0] == "slice" else ("len", piece)
            return mk_binop("Add", vec_len(v[1]), pl)
        if v[0] == "reserved":
            return vec_len(v[1])
    t = ("len", v)
    TY.setdefault(t, (64, False))
    return t


def cap_term(v):
    if isinstance(v, tuple):
        if v[0] == "default":
            return const(0)
        if v[0] == "appended":
            return cap_term(v[1])   # valid when the append fits (checked by the caller through the zone)
        if v[0] == "reserved":
            t = ("cap", v)
            TY.setdefault(t, (64, False))
            return t
    t = ("cap", v)
    TY.setdefault(t, (64, False))
    return t


def ctor_cap_positive(ctx, rule):
    """the only construction site of the writer asserts chunk size > 0"""
    R = roles(ctx)
    sites = aggregates(ctx.facts, R["writer"])
    fns = sorted({b["name"] for b, i, st in sites})
    n = 0
    for fn in fns:
        outs = ctx.px(fn)
        for o in outs:
            if o.kind != "return":
                continue
            n += 1
            z = cons_zone(o)
            capv = None
            for b, i, st in sites:
                pass
            # the chunk-size argument is the usize parameter
            body = ctx.facts.bodies[fn]
            ps = [i for i in range(1, body["arg_count"] + 1) if body["locals"][i]["s"] == "usize"]
            if len(ps) == 1:
                p = ("param", ps[0])
                TY.setdefault(p, (64, False))
                # the value that ends up in the writer's chunk-size field (the parameter itself, or e.g. max(parameter, 1))
                def find_writer(v_, d=0):
                    if is_agg(v_) and v_[2] == R["writer"]:
                        return v_
                    if is_agg(v_) and d < 3:
                        for _, x_ in v_[4]:
                            w_ = find_writer(x_, d + 1)
                            if w_ is not None:
                                return w_
                    return None
                wv = find_writer(o.value)
                capv = agg_get(wv, R["cap_f"]) if wv is not None else p
                if capv is None:
                    capv = p
                if not is_const(capv):
                    TY.setdefault(capv, (64, False))
                zz = cons_zone(o, terms=(p, capv))
                if zz.entails("Le", const(1), capv):
                    ctx.ok(rule, "%s: chunk size >= 1 on the constructing path" % fn)
                else:
                    ctx.violation(rule, "%s|%s" % (rule, fn), "%s can construct a writer with chunk size 0 (write would then accept 0 bytes forever)" % fn)
    ctx.floor(rule, n, 1, what="writer construction paths")


def shared_initial_state(ctx, rule):
    """the shared object is created live with an empty queue, a zero byte counter, the producer-finished flag clear and no
    waker (base case of the accounting invariant `counter == sum of queued chunk lengths`)"""
    R = roles(ctx)
    sites = aggregates(ctx.facts, R["state_ty"], R["live"])
    ctor_sites = [(b, i, st) for b, i, st in sites if " as " not in b["name"] and "poll_next" not in b["name"]]
    n = 0
    from .common import helper_inline as _hi
    fns = []
    for b, i, st in aggregates(ctx.facts, R["shared"]):
        if b["name"] not in fns:
            fns.append(b["name"])
    # a constructor that only *returns* the object (`impl Default`, a `new()` helper): the allocation is in its callers
    for fn0 in list(fns):
        for n2, b2 in ctx.facts.bodies.items():
            if n2 not in fns and any(t_["callee"].get("res_path") == fn0 for _, t_ in ctx.facts.calls(b2)):
                fns.append(n2)
    for fname in fns:
        outs = ctx.px(fname, inline=_hi(ctx, own=(R["shared"], R["state_ty"])), key="helpers")
        for o in outs:
            if o.kind != "return":
                continue
            # find the shared aggregate among the allocations of this path
            for key, v in o.state.env.items():
                if key[0] == "H" and is_agg(v) and v[2] == R["shared"]:
                    n += 1
                    stv = agg_get(v, R["state_f"])
                    wk = agg_get(v, R["waker_f"])
                    bad = []
                    if not (is_agg(stv) and stv[3] == R["live"]):
                        bad.append("initial state is %s" % short(stv, 40))
                    else:
                        if aget(stv, R["bytes_f"]) != const(0):
                            bad.append("initial queued-bytes counter is %s" % short(aget(stv, R["bytes_f"]), 30))
                        if agg_get(stv, R["dropped_f"]) != const(0):
                            bad.append("producer-finished flag initially set")
                        q = aget(stv, R["queue_f"])
                        if not (isinstance(q, tuple) and q[0] == "call" and (q[1].endswith("VecDeque::<T>::new") or (
                                q[1].startswith("<std::collections::VecDeque<") and q[1].endswith(" as std::default::Default>::default")))):   # Default for VecDeque is new()
                            bad.append("initial queue is %s, not VecDeque::new()" % short(q, 40))
                    if not (is_agg(wk) and wk[3] == "None"):
                        bad.append("a waker is registered initially")
                    if bad:
                        ctx.violation(rule, "%s|%s" % (rule, bad[0][:30]), "shared object constructed in %s: %s" % (b["name"], "; ".join(bad)), where=F.loc(st["span"]))
                    else:
                        ctx.ok(rule, "%s: live, empty queue, counter 0, flag clear, no waker" % b["name"])
    ctx.floor(rule, n, 1, what="construction paths of the shared object")
