"""rules over the chunk writer / reader pair"""
def reader_terminal(ctx, rule):
    pass
