"""C10 — progress under every interleaving: structural premises of the
no-lost-wakeup argument under one mutex.  Decides: (R1) every path of the
reader's poll that returns Pending observed (live, queue empty, producer running),
registered the *current* task's waker and restored the live state, all under one
lock acquisition; (R2) every path of flush / Drop / abort that publishes (queues a
chunk, sets the producer-finished flag, stores the error) takes the parked waker
under the same lock and wakes it on the Some edge; (R3) Pending is returned only
on that one row -- every row with the producer finished or a non-live state
returns Ready; (R4) the writer's Drop reaches a publish on *every* return path
(R4.drop: no early exit - a flag of its own, `thread::panicking()` - skips the shared state),
the file has one mutex
with five lock sites and no nested acquisition; (R5) the reader never reports
end-of-stream while chunks or an abort error are undelivered (a consumer that
trusts the flag, as hyper does, stops polling and would never observe them).
Does not decide: real schedules,
the bound on polls, wakers that misbehave (these need an exploration of
interleavings, which is outside this technique)."""
from . import chunker as CH

CONFIGS_QUICK = ["dir"]


def run(ctx):
    CH.reader_pending(ctx, "C10.R1", "C10.R3")
    R = CH.roles(ctx)
    fo = [("flush", CH.flush_rows(ctx, False)[1]), ("drop", CH.flush_rows(ctx, True)[1]),
          ("abort", ctx.px(R["abort"], inline=lambda c, d: True, key="all"))]
    CH.wake_discipline(ctx, "C10.R2", fo)
    CH.publish_rules(ctx, "C10.R4.publish", "C10.R4.nonempty", "C10.R4.flag")
    CH.drop_always_announces(ctx, "C10.R4.drop")
    CH.lock_discipline(ctx, "C10.R4")
    CH.critical_sections_panic_free(ctx, "C10.R4.nopanic")
    CH.end_stream_table(ctx, "C10.R5")
