"""Analysis of the byte-range parser (the function that constructs the
`Satisfiable` resolved-range list).  Shared by C02 (refinement RNG), C03 (RFC 7233
resolution) and C13 (totality).

Per loop iteration (PX cuts each path at the back edge, with loop-carried places
havocked) the parsed numbers are classified by *provenance*: which substring of
the range-spec `r` around the first '-' was handed to the integer parser.
   suffix  n     = parse(r[h+1..]) with h == 0
   first         = parse(r[0..h])
   last          = parse(r[h+1..]) with h > 0 (present iff len(r) > h+1)
and the push / skip decision is compared with the RFC terms
   suffix: S = L - min(n, L), E = L      closed: S = first, E = min(last (+) 1, L)
   open  : S = first, E = L
using the zone solver on the path relations (case-split on min / saturation).
"""
from ..px import const, is_const, is_agg, agg_get, mk_binop, TY, fmt_term
from ..zone import Zone, lin
from .. import px as P
from .common import aggregates, call_events, where, short, arg_type, method_name
from .. import facts as F

U64_MAX = (1 << 64) - 1


def range_enum(ctx):
    """the crate-local enum one of whose variants carries the list of Range<u64>"""
    out = []
    for a in ctx.facts.adts.values():
        if not a["local"] or a["kind"] != "enum":
            continue
        for v in a["variants"]:
            ft = v["fields"][0]["ty"] if len(v["fields"]) == 1 else ""
            if "Range<u64>" in ft and not ft.startswith("std::ops::Range<"):     # a *list* of ranges (SmallVec / Vec / slice), not one range
                out.append((a["path"], v["name"]))
    if len(out) > 1:
        # several enums carry a range list (e.g. a private "what to serve" enum built from the parser's answer): the parser's is
        # the one constructed in a function that takes the header value (Option<&HeaderValue>) and the entity length
        def built_by_parser(adt, variant):
            for b, _, _ in aggregates(ctx.facts, adt, variant):
                tys = [b["locals"][i]["s"] for i in range(1, b["arg_count"] + 1)]
                if any(x.startswith("std::option::Option<&") and "HeaderValue" in x for x in tys) and "u64" in tys:
                    return True
            return False
        out = [x for x in out if built_by_parser(*x)]
    if len(out) != 1:
        from ..check import FailClosed
        raise FailClosed("expected exactly one enum variant carrying the resolved Range<u64> list, found %r" % (out,))
    return out[0]


def find_parser(ctx):
    """the range parser: the function in which the satisfiable-list variant is constructed - or, when that is an inner stage
    of the parser (a private constructor `from_satisfiable(ranges)`, a per-set helper `resolve_set(text, len)` behind a
    dispatching `parse`), the outermost function of the same source file that alone calls it"""
    import re as _re
    adt, variant = range_enum(ctx)
    sites = aggregates(ctx.facts, adt, variant)
    fns = {b["name"] for b, _, _ in sites}

    def parent(n):
        return _re.sub(r"(::\{closure#\d+\})+$", "", n)

    def file_of(n):
        b = ctx.facts.bodies.get(n)
        sp = (b or {}).get("span") or {}
        return sp.get("file")
    for _ in range(3):
        nxt = set()
        for fn in fns:
            callers = {parent(b["name"]) for b in ctx.facts.bodies.values() if b["kind"] != "promoted" and parent(b["name"]) != fn and
                       any(t["callee"].get("res_path") == fn for i, t in ctx.facts.calls(b))}
            if len(callers) == 1 and file_of(next(iter(callers))) == file_of(fn) and file_of(fn) is not None:
                nxt |= callers
            else:
                nxt.add(fn)
        if nxt == fns:
            break
        fns = nxt
    return adt, variant, sorted(fns), sites


def fromstr_events(o, units=()):
    """the integer parses of this path: FromStr calls, and calls of a proven hand-written decimal parser (rules/decimal.py)"""
    out = []
    for ev in o.events:
        if ev["k"] == "call" and "std::str::FromStr::from_str" in ev["names"]:
            res = ev["callee"].get("res_path") or ""
            out.append(ev)
        elif ev["k"] == "call" and ev.get("opaque") and ev["callee"].get("res_path") in units:
            out.append(ev)
    return out


def seq_of_arg(ev, i=0):
    a = ev["args"][i]
    if a[0] == "ref":
        v = ev["snap"][i]
    else:
        v = a
    if isinstance(v, tuple) and v and v[0] == "slice_of":
        v = v[1]
    return v


def hyphen_term(o, base):
    """payload term of find(base, '-') on this path, if any"""
    for ev in o.events:
        if ev["k"] != "call":
            continue
        f = ev.get("found") if ev.get("found") is not None else ev.get("result")
        if isinstance(f, tuple) and f and f[0] == "found" and f[1] == base:
            needle = f[2]
            if is_agg(needle) and needle[1] == "closure":
                # `bytes().position(|b| b == b'-')`: the byte the predicate is true on
                from .common import pred_true_set
                ts_ = pred_true_set(_CTX[0], needle) if _CTX else None
                needle = const(next(iter(ts_))) if ts_ is not None and len(ts_) == 1 else needle
            if needle == const(45):
                return ("payload", f, "Some", "0")
    return None


_CTX = []


def classify_iteration(ctx, o, Lterm, units=()):
    _CTX[:] = [ctx]
    """-> dict describing what this path did in one loop iteration, or None if it never parsed a number"""
    evs = fromstr_events(o, units)
    nums = {}
    info = {"fromstr": evs, "nums": nums, "unrecognised": []}
    for ev in evs:
        seq = seq_of_arg(ev)
        res = ev.get("result")
        good = units[ev["callee"].get("res_path")] if ev["callee"].get("res_path") in units else "Ok"
        valterm = ("payload", res, good, "0")
        TY.setdefault(valterm, (64, False))
        ok = o.cons.variant_of(res)
        if ok is not None and good != "Ok":
            ok = "Ok" if ok == good else "Err"
        if not (isinstance(seq, tuple) and seq[0] == "slice"):
            info["unrecognised"].append((ev, "integer parsed from a value that is not a sub-slice of the range-spec"))
            continue
        base, s, e = seq[1], seq[2], seq[3]
        h = hyphen_term(o, base)
        if h is None:
            info["unrecognised"].append((ev, "no search for '-' in the string the number is sliced from"))
            continue
        TY.setdefault(h, (64, False))
        z = Zone(_cons_prefix(o, ev), extra_terms=(h, s) + ((e,) if e is not None else ()))
        role = None
        if e is not None and z.entails("Eq", s, const(0)) and z.entails("Eq", e, h):
            role = "first"
        elif e is None and z.entails("Eq", s, mk_binop("Add", h, const(1))):
            role = "suffix" if z.entails("Eq", h, const(0)) else "last"
        if role is None:
            info["unrecognised"].append((ev, "substring [%s..%s] is not r[0..h] / r[h+1..]" % (short(s, 40), short(e, 40) if e else "")))
            continue
        nums[role] = {"term": valterm, "ok": ok, "ev": ev, "base": base, "h": h}
    # digit checks that *failed* are parse attempts too (the integer parser is never reached)
    for ev in o.events:
        if ev["k"] != "call":
            continue
        from .common import all_digits_guard
        if all_digits_guard(ctx, o, ev) != "fail":
            continue
        it = ev["snap"][0] if ev["args"][0][0] == "ref" else ev["args"][0]
        sl = find_slice(it)
        if sl is None:
            continue
        base, s, e = sl[1], sl[2], sl[3]
        h = hyphen_term(o, base)
        if h is None:
            continue
        z = Zone(_cons_prefix(o, ev), extra_terms=(h, s) + ((e,) if e is not None else ()))
        role = None
        if e is not None and z.entails("Eq", s, const(0)) and z.entails("Eq", e, h):
            role = "first"
        elif e is None and z.entails("Eq", s, mk_binop("Add", h, const(1))):
            role = "suffix" if z.entails("Eq", h, const(0)) else "last"
        if role and role not in nums:
            nums[role] = {"term": None, "ok": "Err", "ev": ev, "base": base, "h": h}
    # ... and so is an established leading '+' (the one thing FromStr accepts beyond 1*DIGIT), tested before the parse
    for t, v in o.cons.known.items():
        if v != 1 or not isinstance(t, tuple) or not t:
            continue
        x = None
        if t[0] == "eq" and len(t) == 3:
            for a, b in ((t[1], t[2]), (t[2], t[1])):
                if isinstance(a, tuple) and a and a[0] == "first" and is_agg(b) and b[3] == "Some" and agg_get(b, "0") == const(43):
                    x = a[1]
        elif t[0] == "call" and t[1].endswith("::starts_with") and len(t[2]) == 2:
            lit = t[2][1]
            if isinstance(lit, tuple) and lit[0] in ("refconst", "&"):
                lit = lit[1]
            if lit == const(43) or (isinstance(lit, tuple) and lit[0] in ("str", "bytes") and lit[1] == "+"):
                x = t[2][0]
        sl = find_slice(x) if x is not None else None
        if sl is None:
            continue
        base, s, e = sl[1], sl[2], sl[3]
        h = hyphen_term(o, base)
        if h is None:
            continue
        z = Zone(_cons_all(o), extra_terms=(h, s) + ((e,) if e is not None else ()))
        role = None
        if e is not None and z.entails("Eq", s, const(0)) and z.entails("Eq", e, h):
            role = "first"
        elif e is None and z.entails("Eq", s, mk_binop("Add", h, const(1))):
            role = "suffix" if z.entails("Eq", h, const(0)) else "last"
        if role and role not in nums:
            nums[role] = {"term": None, "ok": "Err", "ev": None, "base": base, "h": h}
    return info


def find_slice(t, depth=0):
    if not isinstance(t, tuple) or not t or depth > 12:
        return None
    if t[0] == "slice" and len(t) == 4:
        return t
    items = t[1:] if isinstance(t[0], str) else t
    for x in items:
        r = find_slice(x, depth + 1)
        if r is not None:
            return r
    return None


def _cons_prefix(o, ev):
    cc = P.Cons()
    cc.rel = list(o.cons.rel[:ev.get("nrel", len(o.cons.rel))])
    return cc


def _cons_all(o):
    cc = P.Cons()
    cc.rel = list(o.cons.rel)
    return cc


def push_events(o):
    out = []
    for ev in o.events:
        if ev["k"] == "call" and method_name(ev["callee"]) in ("push",) and "Range<u64>" in (ev["callee"].get("res_full") or ev["callee"].get("full") or ""):
            out.append(ev)
        elif ev["k"] == "call" and method_name(ev["callee"]) == "extend" and len(ev["args"]) == 2 and is_agg(ev["args"][1]) and \
                ev["args"][1][2] == "std::option::Option" and "Range<u64>" in (ev["callee"].get("res_full") or ev["callee"].get("full") or ""):
            # `ranges.extend(Some(r))` pushes r; `extend(None)` pushes nothing
            if ev["args"][1][3] == "Some":
                e2 = dict(ev)
                e2["args"] = [ev["args"][0], agg_get(ev["args"][1], "0")]
                out.append(e2)
    return out


def spec_cases(form, nums, L):
    """list of (label, extra_rels, S, E) for the RFC terms of this form"""
    if form == "suffix":
        n = nums["suffix"]["term"]
        return [
            ("n<=L", [("Le", n, L)], mk_binop("Sub", L, n), L),
            ("n>L", [("Lt", L, n)], const(0), L),
        ]
    first = nums["first"]["term"]
    if form == "open":
        return [("open", [], first, L)]
    last = nums["last"]["term"]
    return [
        ("last=MAX", [("Eq", last, const(U64_MAX))], first, L),
        ("last+1<=L", [("Lt", last, const(U64_MAX)), ("Le", mk_binop("Add", last, const(1)), L)], first, mk_binop("Add", last, const(1))),
        ("last+1>L", [("Lt", last, const(U64_MAX)), ("Lt", L, mk_binop("Add", last, const(1)))], first, L),
    ]


def analyse(ctx):
    """run PX on the parser and return rows for the rules"""
    if hasattr(ctx, "_rp"):
        return ctx._rp
    ctx._rp = _analyse(ctx)
    return ctx._rp


def _analyse(ctx):
    adt, variant, fns, sites = find_parser(ctx)
    if len(fns) != 1:
        from ..check import FailClosed
        raise FailClosed("construction sites of %s::%s are in %d functions (%r); expected one parser" % (adt, variant, len(fns), fns))
    name = fns[0]
    from . import decimal
    units = decimal.units(ctx, name, "%s.NUM" % ctx.prop)
    if units:
        ctx.info("range parser: %s proven to be 1*DIGIT parser(s); their calls are the integer parses" % sorted(units))
    outs = ctx.px(name, inline=(lambda c, d, u=frozenset(units): c.get("res_path") not in u), key=("inline-all", tuple(sorted(units))))
    L = ("param", 2)
    TY.setdefault(L, (64, False))
    # the length parameter: the u64 parameter of the parser
    body = ctx.facts.bodies[name]
    u64_params = [i for i in range(1, body["arg_count"] + 1) if body["locals"][i]["s"] == "u64"]
    if len(u64_params) != 1:
        from ..check import FailClosed
        raise FailClosed("parser %s does not have exactly one u64 (length) parameter" % name)
    L = ("param", u64_params[0])
    TY.setdefault(L, (64, False))
    rows = []
    for o in outs:
        if o.kind in ("unreachable", "infeasible"):
            continue
        if not Zone(_cons_all(o)).feasible():
            continue  # the path's own comparisons contradict each other (e.g. len <= h although h < len): not a real row
        info = classify_iteration(ctx, o, L, units)
        pushes = push_events(o)
        row = {"o": o, "info": info, "pushes": pushes, "kind": o.kind, "value": o.value, "L": L, "fn": name}
        nums = info["nums"]
        form = None
        if "suffix" in nums:
            form = "suffix"
        elif "first" in nums and "last" in nums:
            form = "closed"
        elif "first" in nums:
            form = "open"
        row["form"] = form
        row["all_ok"] = bool(nums) and all(v["ok"] == "Ok" for v in nums.values())
        rows.append(row)
    return {"fn": name, "adt": adt, "variant": variant, "rows": rows, "outs": outs, "L": L, "sites": sites, "units": units}


def absent_variants(ctx):
    """refinement ABS: the variants the parser can answer with when its header argument is None (proven on the parser's own
    rows: every such path returns, never loops); None when that cannot be established"""
    A = analyse(ctx)
    body = ctx.facts.bodies[A["fn"]]
    hp = [i for i in range(1, body["arg_count"] + 1) if body["locals"][i]["s"].startswith("std::option::Option<&") and "HeaderValue" in body["locals"][i]["s"]]
    if len(hp) != 1:
        return None
    p = ("param", hp[0])
    out = set()
    n = 0
    for row in A["rows"]:
        o = row["o"]
        if o.cons.variant_of(p) != "None":
            continue
        n += 1
        if row["kind"] != "return" or value_variant(row["value"]) is None:
            return None
        out.add(value_variant(row["value"]))
    return out if n else None


def value_variant(v):
    if is_agg(v):
        return v[3]
    return None


def rng_refinement(ctx, rule):
    """refinement RNG: every Range pushed into the resolved list satisfies start < end <= len"""
    from .common import where, short
    A = analyse(ctx)
    L = A["L"]
    n = 0
    for idx, row in enumerate(A["rows"]):
        for pv in row["pushes"]:
            n += 1
            v = pv["args"][1]
            if not (is_agg(v) and v[2] and v[2].endswith("ops::Range")):
                ctx.violation(rule, rule + "|push-shape", "pushed value is not a Range aggregate", where=where(pv))
                continue
            s, e = agg_get(v, "start"), agg_get(v, "end")
            cc = P.Cons()
            cc.rel = list(row["o"].cons.rel[:pv.get("nrel", len(row["o"].cons.rel))])
            z = Zone(cc, extra_terms=(s, e, L))
            bad = []
            if not z.entails("Lt", s, e):
                bad.append("start < end is not implied (an empty or inverted range can be pushed)")
            if not z.entails("Le", e, L):
                bad.append("end <= len is not implied (a range can extend past the entity)")
            inst = "push#%d %s" % (idx, row["form"])
            if bad:
                ctx.violation(rule, "%s|%s" % (rule, row["form"]), "resolved range %s..%s: %s" % (short(s, 50), short(e, 50), "; ".join(bad)), where=where(pv))
            else:
                ctx.ok(rule, inst, where=where(pv), detail={"start": short(s, 60), "end": short(e, 60)})
    ctx.floor(rule, n, 3, what="push sites x paths of the range parser")
    # closed world: the resolved-list variant is constructed in the parser only
    ctx.ok(rule, "construction sites of %s::%s are all in %s" % (A["adt"], A["variant"], A["fn"]), detail={"sites": len(A["sites"])})
