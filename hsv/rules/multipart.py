"""Rules over the multipart preparation function and the multipart stream.

prepare (role: the crate-local function that takes the response Builder and a
slice of Range<u64>): per loop iteration the accumulator grows by exactly
len(buf) + (r.end - r.start) where `buf` is the very Vec pushed to the part-header
list; every addition is overflow-checked; the result is acc + len(trailer) and is
the term formatted into Content-Length.

stream (role: the struct holding Vec<Range<u64>> and a boxed dyn Entity): object
invariant Inv = `h <= n  and  (cur is Some => p = 1 and h < n)` with the position
field read as 2h+p.  PX assumes Inv at the loop head of poll_next (three cases),
checks it at every back edge and return, discharges the index sites under it,
checks the byte accounting of every emitted piece and that terminal post-states
are absorbing (a second analysis started from each terminal post-state)."""
import re
from ..px import const, is_const, is_agg, agg, agg_get, mk_binop, TY, fmt_term, pack
from .. import px as P
from .. import facts as F
from .. import census as CEN
from ..models import decode_template, some, NONE, len_term
from ..zone import Zone
from .common import (where, short, final_read, self_field, impl_fn, inherent_fn, poll_shape, cons_zone, method_name)
from . import serve_model as SM


# ------------------------------------------------------------------ prepare function

def find_prepare(ctx):
    from ..check import FailClosed
    out = []
    for n, b in ctx.facts.bodies.items():
        if b["kind"] != "fn":
            continue
        tys = [b["locals"][i]["s"] for i in range(1, b["arg_count"] + 1)]
        takes_ranges = any("[std::ops::Range<u64>]" in t or "Vec<std::ops::Range<u64>>" in t for t in tys)
        rs = b["locals"][0]["s"]
        renders = "Vec<std::vec::Vec<u8>>" in rs
        if not renders:
            # ... or a private record holding the rendered part headers (`Result<MultipartPlan, _>`)
            for adt_ in ctx.facts.adts.values():
                if adt_.get("local") and adt_["kind"] == "struct" and adt_["path"] in rs and \
                        any("Vec<std::vec::Vec<u8>>" in f_["ty"] for f_ in adt_["variants"][0]["fields"]):
                    renders = True
        if takes_ranges and (any("http::response::Builder" in t for t in tys) or renders) and "Stream" not in n:
            out.append(n)
    if len(out) != 1:
        raise FailClosed("multipart preparation function (Builder + ranges) not found uniquely: %r" % out)
    return out[0]


def prepare_rows(ctx):
    if hasattr(ctx, "_prep"):
        return ctx._prep
    name = find_prepare(ctx)
    # crate-local helpers (the integer-cast helper, anything a maintainer extracts from the loop body) are expanded
    from .common import helper_inline
    outs = ctx.px(name, inline=helper_inline(ctx), key="helpers")
    b = ctx.facts.bodies[name]
    params = {}
    for i in range(1, b["arg_count"] + 1):
        s = b["locals"][i]["s"]
        if "Builder" in s:
            params["builder"] = ("param", i)
        elif "Range<u64>" in s:
            params["ranges"] = ("param", i)
        elif s == "u64":
            params["len"] = ("param", i)
        elif "HeaderMap" in s:
            params["hdrs"] = ("param", i)
    ctx._prep = {"fn": name, "outs": outs, "params": params}
    return ctx._prep


def buf_pieces(v):
    pieces = []
    while isinstance(v, tuple) and v[0] == "appended":
        pieces.append(v[2])
        v = v[1]
    pieces.reverse()
    return v, pieces


def buf_layout(v, depth=0):
    """[("lit", text) | ("arg", fmtarg) | ("opaque", term)]: what a byte buffer value contains, in order"""
    base, pieces = buf_pieces(v)
    out = []

    def lit(sx):
        if out and out[-1][0] == "lit":
            out[-1] = ("lit", out[-1][1] + sx)
        else:
            out.append(("lit", sx))
    if isinstance(base, tuple) and base and base[0] not in ("newbuf", "default") and not (base[0] == "reserved"):
        if base[0] in ("bytes", "str"):
            lit(base[1])
        elif not (is_agg(base)):
            out.append(("opaque", base))
    for pc in pieces:
        if pc[0] == "fmt" and isinstance(pc[1], tuple) and pc[1][0] == "fmtargs" and isinstance(pc[1][1], str):
            tpl, args = SM._fold_literal_args(decode_template(pc[1][1]), list(pc[1][2]))
            for part in tpl:
                if part[0] == "lit":
                    lit(part[1])
                elif part[0] == "arg" and part[1] < len(args):
                    out.append(("arg", args[part[1]]))
                else:
                    out.append(("opaque", part))
        elif pc[0] == "slice":
            inner = pc[1]
            while isinstance(inner, tuple) and inner and inner[0] in ("slice_of", "refconst", "&"):
                inner = inner[1]
            if isinstance(inner, tuple) and inner and inner[0] in ("bytes", "str"):
                lit(inner[1])
            elif isinstance(inner, tuple) and inner and inner[0] == "appended" and depth < 4:
                for x in buf_layout(inner, depth + 1):
                    if x[0] == "lit":
                        lit(x[1])
                    else:
                        out.append(x)
            else:
                out.append(("opaque", inner))
        elif pc[0] == "byte" and is_const(pc[1]):
            lit(chr(pc[1][1]))
        else:
            out.append(("opaque", pc))
    return out


def _record_fields(v):
    """(name, value) of a record value: an aggregate, or a loop-carried record updated in place (`upd` chain)"""
    if is_agg(v):
        return list(v[4])
    seen, out = set(), []
    while isinstance(v, tuple) and v and v[0] == "upd" and v[2][0] == "f":
        if v[2][1] not in seen:
            seen.add(v[2][1])
            out.append((v[2][1], v[3]))
        v = v[1]
    if is_agg(v):
        out += [(n, x) for n, x in v[4] if n not in seen]
    return out


def _acc_parts(a):
    """(loop variable, field path) of the length accumulator: a loop-carried u64, or a field of a loop-carried record"""
    path = ()
    while isinstance(a, tuple) and a and a[0] == "field":
        path = (("f", a[2]),) + path
        a = a[1]
    if isinstance(a, tuple) and a and a[0] == "loopvar" and len(path) <= 1:
        return a, path
    return None


def _same_acc(t, acc):
    x, y = _acc_parts(t), _acc_parts(acc)
    return x is not None and y is not None and x[1] == y[1] and x[0][1:4] == y[0][1:4]


def length_sum(ctx, rule):
    R = prepare_rows(ctx)
    fn, outs = R["fn"], R["outs"]
    # exit rows: Ok((builder, part_headers, total))
    exits = [o for o in outs if o.kind == "return" and is_agg(o.value) and o.value[3] == "Ok"]
    if not exits:
        ctx.violation(rule, rule + "|no-ok-exit", "the multipart preparation function has no Ok exit")
        return
    acc_lv = None
    trailer_len = None
    for o in exits:
        tup = agg_get(o.value, "0")
        # the pieces by what they are, not by position: a tuple (builder, part headers, total) or a private record of them
        total = bld = None
        if is_agg(tup) or (isinstance(tup, tuple) and tup and tup[0] == "upd"):
            for _n, x_ in _record_fields(tup):
                if isinstance(x_, tuple) and x_ and (x_[0] == "builder" or (x_[0] == "call" and x_[1].startswith("http::response::Builder::"))):
                    bld = x_
                elif isinstance(x_, tuple) and x_ and (TY.get(x_, (0,))[0] == 64 or (x_[0] == "binop" and x_[1] == "Add")):
                    total = x_
        ok = False
        if isinstance(total, tuple) and total[0] == "binop" and total[1] == "Add":
            a, b = total[2], total[3]
            if _acc_parts(a) and is_const(b):
                acc_lv, trailer_len, ok = a, b[1], True
        if not ok:
            ctx.violation(rule, rule + "|total-shape", "UNRECOGNISED: returned multipart length %s is not <accumulator> + len(<trailer literal>)" % short(total, 100))
            return
        # the no-overflow edge was taken for this addition
        ovf = ("ovf", "Add", acc_lv, const(trailer_len))
        if o.cons.known.get(ovf) != 0:
            ctx.violation(rule, rule + "|trailer-add-unchecked", "the trailer length is added to the multipart length without an overflow check")
        # Content-Length value == total
        cl = None
        if isinstance(bld, tuple) and bld[0] == "builder":
            for h in bld[2]:
                if SM.hdr_name(h[0]) == "CONTENT_LENGTH":
                    cl = h[1]
        elif isinstance(bld, tuple):
            # builder passed as an opaque parameter: headers are nested opaque calls
            t = bld
            while isinstance(t, tuple) and t[0] == "call" and t[1].startswith("http::response::Builder::"):
                if t[1].endswith("::header") and SM.hdr_name(t[2][1]) == "CONTENT_LENGTH":
                    cl = t[2][2]
                t = t[2][0]
        if cl is None and bld is None and "builder" not in R["params"]:
            # the preparation function only computes (part headers, total): the caller announces the total. With the function
            # expanded in the serve analysis, the announced value must be this very total on every multipart row
            M_ = SM.analyse(ctx)
            nmp = 0
            for r_ in SM.ok_rows(M_):
                if r_.body["kind"] != "multipart" and not (r_.status == 206 and any(h[0] == "CONTENT_TYPE" for h in r_.headers)):
                    continue
                nmp += 1
                cls_ = [h for h in r_.headers if h[0] == "CONTENT_LENGTH"]
                fv_ = SM.fmt_value(cls_[0][1]) if len(cls_) == 1 else {"kind": "none"}
                args_ = SM.fmt_arg_values(fv_) if fv_["kind"] == "fmt" else []
                okcl = len(args_) == 1 and SM.template_text(fv_.get("template")) == "{}" and isinstance(args_[0][2], tuple) and \
                    args_[0][2][0] == "binop" and args_[0][2][1] == "Add" and _same_acc(args_[0][2][2], acc_lv) and args_[0][2][3] == const(trailer_len)
                if not okcl:
                    ctx.violation(rule, rule + "|cl-not-total", "multipart Content-Length announced by the caller is %s, not the body length the preparation computed" %
                                  (short(args_[0][2], 60) if args_ else fv_["kind"]), where=SM.row_where(r_))
                elif r_.body["kind"] == "multipart" and r_.body.get("len") != args_[0][2]:
                    ctx.violation(rule, rule + "|cl-not-stream-len", "multipart Content-Length differs from the length handed to the multipart stream", where=SM.row_where(r_))
            if nmp:
                ctx.ok(rule, "Content-Length of every multipart row (set by the caller) == accumulator + trailer", detail={"rows": nmp})
            else:
                ctx.violation(rule, rule + "|no-cl", "no multipart row announces a Content-Length")
        elif cl is None:
            ctx.violation(rule, rule + "|no-cl", "the multipart builder gets no Content-Length")
        else:
            fv = SM.fmt_value(cl)
            args = SM.fmt_arg_values(fv) if fv["kind"] == "fmt" else []
            if SM.template_text(fv.get("template")) != "{}" or len(args) != 1 or args[0][2] != total:
                ctx.violation(rule, rule + "|cl-not-total", "multipart Content-Length is formatted from %s, not from the computed body length %s" %
                              (short(args[0][2], 60) if args else fv["kind"], short(total, 60)))
            else:
                ctx.ok(rule, "Content-Length == returned total == acc + len(trailer)", detail={"trailer_len": trailer_len})
    # loop rows of the ranges loop
    acc_var, acc_path = _acc_parts(acc_lv)
    key = acc_var[3]
    header = acc_var[2]
    entry = None
    nloop = 0
    for o in outs:
        lev = o.state.extra.get("loop_entry_values", {})
        ev0 = lev.get((fn, header, key))
        if ev0 is not None:
            entry = ev0
            for e_ in acc_path:
                entry = agg_get(entry, e_[1]) if is_agg(entry) else None
        if o.kind == "backedge" and o.where == (fn, header):
            nloop += 1
            root = ("L", 0, key[1])
            newacc = final_read(ctx, o, root, tuple(key[2]) + acc_path)
            pushes = [e for e in o.events if e["k"] == "call" and method_name(e["callee"]) == "push" and "Vec<u8>" in (e["callee"].get("res_full") or e["callee"].get("full") or "")]
            if len(pushes) != 1:
                ctx.violation(rule, rule + "|push-count", "a loop iteration pushes %d part headers (expected exactly one)" % len(pushes))
                continue
            buf = pushes[0]["args"][1]
            r = None
            for e in o.events:
                if e["k"] == "call" and e["callee"].get("path") == "std::iter::Iterator::next" and "slice::Iter" in (e["callee"].get("res_full") or ""):
                    r = ("deref", ("payload", e["result"], "Some", "0"))
            if r is None:
                ctx.violation(rule, rule + "|no-range-iter", "UNRECOGNISED: the loop does not iterate a slice of ranges")
                continue
            want = mk_binop("Add", mk_binop("Add", acc_lv, len_term(buf)), mk_binop("Sub", ("field", r, "end"), ("field", r, "start")))
            alt = mk_binop("Add", mk_binop("Add", acc_lv, mk_binop("Sub", ("field", r, "end"), ("field", r, "start"))), len_term(buf))
            if newacc not in (want, alt):
                ctx.violation(rule, rule + "|summand", "per-part length update is %s; expected acc + len(pushed part header) + (r.end - r.start)" % short(newacc, 160),
                              where=where(pushes[0]))
                continue
            # both additions overflow-checked on this (continuing) path
            checked = [t for t, v in o.cons.known.items() if isinstance(t, tuple) and t[0] == "ovf" and t[1] == "Add" and v == 0]
            if len(checked) < 2:
                ctx.violation(rule, rule + "|unchecked-add", "a summand of the multipart length is added without an overflow check (%d checked additions on the path)" % len(checked),
                              where=where(pushes[0]))
                continue
            ctx.ok(rule, "iteration: acc' = acc + len(buf) + |r|, buf is the pushed part header, adds checked", where=where(pushes[0]))
            ctx.sample({"rule": rule, "acc_update": short(newacc, 200)})
    if entry != const(0):
        ctx.violation(rule, rule + "|acc-init", "the multipart length accumulator starts at %s, not 0" % short(entry, 40))
    else:
        ctx.ok(rule, "accumulator starts at 0")
    ctx.floor(rule, nloop, 1, what="loop-iteration rows of the multipart length sum")
    # overflow edges lead to Err
    for o in outs:
        if o.kind == "return" and any(isinstance(t, tuple) and t[0] == "ovf" and v == 1 for t, v in o.cons.known.items()):
            if not (is_agg(o.value) and o.value[3] == "Err"):
                ctx.violation(rule, rule + "|overflow-not-err", "an overflowing multipart length does not return an error")
    return {"trailer_len": trailer_len}


def part_template(ctx, rule, boundary_tokens):
    """C06.R2/R3: delimiter literal agreement, template arguments, blank line, entity header rendering"""
    R = prepare_rows(ctx)
    fn, outs, params = R["fn"], R["outs"], R["params"]
    n = 0
    with_block = 0
    toks = set(boundary_tokens)
    for o in outs:
        if o.kind != "backedge":
            continue
        pushes = [e for e in o.events if e["k"] == "call" and method_name(e["callee"]) == "push" and "Vec<u8>" in (e["callee"].get("res_full") or e["callee"].get("full") or "")]
        if not pushes:
            continue
        n += 1
        buf = pushes[0]["args"][1]
        bad = []
        # the rendered layout of the part header, whatever the number of write!/extend calls and intermediate buffers:
        # literal text, formatted arguments, and opaque byte blocks (the pre-rendered entity headers)
        lay = buf_layout(buf)
        text = "".join(x[1] if x[0] == "lit" else ("{}" if x[0] == "arg" else "<O>") for x in lay)
        m = re.fullmatch(r"\r\n--([^\r\n]+)\r\nContent-Range: bytes \{\}-\{\}/\{\}\r\n(<O>)?\r\n", text)
        if not m:
            if not text.startswith("\r\n--"):
                bad.append("part header does not start with the formatted delimiter line")
            if not text.endswith("\r\n\r\n") and not text.endswith("<O>\r\n"):
                bad.append("the part header does not end with the blank line CRLF")
            bad.append("part header layout %r is not `CRLF--<boundary>CRLF Content-Range: bytes {}-{}/{} CRLF [entity headers] CRLF`" % text[:120])
        else:
            toks.add(m.group(1))
            r = None
            for e_ in o.events:
                if e_["k"] == "call" and e_["callee"].get("path") == "std::iter::Iterator::next" and "slice::Iter" in (e_["callee"].get("res_full") or ""):
                    r = ("deref", ("payload", e_["result"], "Some", "0"))
            fargs = [x[1] for x in lay if x[0] == "arg"]
            args = [a[3] if isinstance(a, tuple) and a[0] == "fmtarg" else a for a in fargs]
            want = [("field", r, "start"), mk_binop("Sub", ("field", r, "end"), const(1)), params.get("len")]
            if args != want:
                bad.append("part Content-Range arguments are (%s), expected (r.start, r.end - 1, entity length)" % ", ".join(short(a, 40) for a in args))
            if any(not (isinstance(a, tuple) and a[0] == "fmtarg" and a[1] == "display" and a[2] == "u64") for a in fargs):
                bad.append("part Content-Range arguments are not Display of u64")
            if m.group(2):
                with_block += 1
        if bad:
            ctx.violation(rule, rule + "|" + bad[0][:40], "; ".join(bad), where=where(pushes[0]))
        else:
            ctx.ok(rule, "part header = delimiter/Content-Range(r.start, r.end-1, len) + entity headers + CRLF", where=where(pushes[0]))
    ctx.floor(rule, n, 1, what="part-header rendering rows")
    if n and not with_block:
        ctx.violation(rule, rule + "|no-entity-header-block", "no part-header row places the pre-rendered entity headers between the Content-Range line and the blank line")
    # entity header rendering loop: name ": " value CRLF
    nh = 0
    for o in outs:
        if o.kind != "backedge":
            continue
        wr = [e for e in o.events if e["k"] == "call" and method_name(e["callee"]) == "extend_from_slice"]
        pushes = [e for e in o.events if e["k"] == "call" and method_name(e["callee"]) == "push"]
        if pushes or len(wr) == 0:
            continue
        nh += 1
        vals = [e["args"][1] for e in wr]
        lits = [P.fmt_term(v) for v in vals]
        shape_ok = len(wr) == 4 and _is_lit(wr[1], ": ") and _is_lit(wr[3], "\r\n")
        if not shape_ok:
            ctx.violation(rule, rule + "|entity-header-rendering", "entity headers are not rendered as name ': ' value CRLF (appends: %s)" % [l[:30] for l in lits], where=where(wr[0]))
        else:
            ctx.ok(rule, "entity header rendered as name ': ' value CRLF", where=where(wr[0]))
    ctx.floor(rule + ".hdr", nh, 1, what="entity-header rendering rows")
    return toks


def _is_lit(ev, text):
    from ..models import seq_of
    a = ev["args"][1]
    v = ev["snap"][1] if a[0] == "ref" else a
    if isinstance(v, tuple) and v[0] == "slice_of":
        v = v[1]
    if isinstance(v, tuple) and v[0] == "refconst":
        v = v[1]
    return v == ("bytes", text)


# ------------------------------------------------------------------ stream

def _int_newtype(ctx, ty):
    a = ctx.facts.adts.get(ty.split("<")[0])
    return bool(a) and a.get("local") and a["kind"] == "struct" and len(a["variants"][0]["fields"]) == 1 and \
        a["variants"][0]["fields"][0]["ty"] == "usize" and a["variants"][0]["fields"][0]["name"] == "0"


def _state_enum(ctx, ty):
    """a crate-local position enum: two variants carrying a part index, two without payload"""
    a = ctx.facts.adts.get(ty.split("<")[0])
    if not (a and a.get("local") and a["kind"] == "enum" and len(a["variants"]) == 4):
        return None
    pay = [v for v in a["variants"] if len(v["fields"]) == 1 and v["fields"][0]["ty"] == "usize"]
    unit = [v for v in a["variants"] if not v["fields"]]
    return a if len(pay) == 2 and len(unit) == 2 else None


def find_stream(ctx):
    if hasattr(ctx, "_mp_stream"):
        return ctx._mp_stream
    ctx._mp_stream = _find_stream(ctx)
    return ctx._mp_stream


def _find_stream(ctx):
    from ..check import FailClosed
    cands = []
    for a in ctx.facts.adts.values():
        if not a["local"] or a["kind"] != "struct":
            continue
        fs = a["variants"][0]["fields"]
        if any("Vec<std::ops::Range<u64>>" in f["ty"] for f in fs) and any("dyn Entity" in f["ty"] for f in fs):
            cands.append(a)
    if len(cands) != 1:
        raise FailClosed("multipart stream struct not found uniquely")
    a = cands[0]
    roles = {}
    phase = []
    from . import bodyrules as _BR
    xlen_adt = _BR.find_exactlen(ctx)[0]
    for f in a["variants"][0]["fields"]:
        t = f["ty"]
        if t.startswith("std::option::Option<") and (t[len("std::option::Option<"):].split("<")[0] == xlen_adt or "Stream" in t):
            roles["cur"] = f["name"]
        elif t == "usize":
            roles["state"] = f["name"]
        elif _int_newtype(ctx, t):
            # the packed position wrapped in a private newtype (`struct State(usize)` with accessor methods)
            roles["state"] = f["name"]
            roles["state_wrap"] = t.split("<")[0]
        elif _state_enum(ctx, t) is not None:
            roles["state"] = f["name"]
            roles["state_adt"] = _state_enum(ctx, t)["path"]
        elif "Vec<std::vec::Vec<u8>>" in t:
            roles["part_headers"] = f["name"]
        elif "Vec<std::ops::Range<u64>>" in t:
            roles["ranges"] = f["name"]
        elif t == "u64":
            roles["remaining"] = f["name"]
        elif "dyn Entity" in t:
            roles["entity"] = f["name"]
        elif t == "bool" or _two_unit_variants(ctx, t):
            phase.append(f)
    if set(roles) - {"state_adt", "state_wrap"} != {"cur", "state", "part_headers", "ranges", "remaining", "entity"}:
        raise FailClosed("multipart stream fields not recognised by type: %r" % roles)
    # position representation: one packed integer 2h+p, a part index h plus a two-valued phase field p, or an enum
    # {headers(h), body(h), trailer, end} (the variants' roles are read off what the step does in each of them)
    if "state_adt" in roles:
        if phase:
            raise FailClosed("multipart stream has a position enum and two-valued fields: %r" % [f["name"] for f in phase])
        roles["rep"] = "enum"
        pn = impl_fn(ctx, "futures_core::Stream", a["path"], "poll_next")
        if len(pn) != 1:
            raise FailClosed("no unique poll_next for %s" % a["path"])
        roles["variants"] = _classify_variants(ctx, a["path"], roles, pn[0])
    elif len(phase) == 1:
        roles["part"] = roles["state"]
        roles["phase"] = phase[0]["name"]
        roles["phase_values"] = _phase_values(ctx, a["path"], roles, phase[0]["ty"])
        roles["rep"] = "split"
    elif phase:
        raise FailClosed("multipart stream has several two-valued fields: %r" % [f["name"] for f in phase])
    else:
        roles["rep"] = "packed"
    pn = impl_fn(ctx, "futures_core::Stream", a["path"], "poll_next")
    if len(pn) != 1:
        raise FailClosed("no unique poll_next for %s" % a["path"])
    return a["path"], roles, pn[0]


def _two_unit_variants(ctx, ty):
    a = ctx.facts.adts.get(ty)
    return bool(a) and a.get("local") and a["kind"] == "enum" and len(a["variants"]) == 2 and all(not v["fields"] for v in a["variants"])


def _phase_values(ctx, adt, roles, ty):
    """(value of the phase field at position 0 = what the constructor stores, the other value)"""
    from ..check import FailClosed
    from .common import aggregates
    v0 = set()
    for b, i, st in aggregates(ctx.facts, adt):
        for o in ctx.px(b["name"]):
            if o.kind == "return" and is_agg(o.value):
                v0.add(agg_get(o.value, roles["phase"]))
    if len(v0) != 1:
        raise FailClosed("multipart stream: initial phase value not found uniquely: %r" % (v0,))
    v0 = next(iter(v0))
    if is_const(v0):
        return v0, const(1 - v0[1])
    if is_agg(v0):
        other = [v["name"] for v in ctx.facts.adts[ty]["variants"] if v["name"] != v0[3]]
        return v0, agg(v0[1], v0[2], other[0], ())
    raise FailClosed("multipart stream: initial phase value %r not understood" % (v0,))


def _classify_variants(ctx, adt, roles, pn):
    """{role: variant name} for role in hdr / body / trailer / end, decided by what one step does when entered in that variant
    (no current part): takes a part header out of the list / builds or polls a part stream / emits literal bytes / ends"""
    from ..check import FailClosed
    sadt = roles["state_adt"]
    out = {}
    for v in ctx.facts.adts[sadt]["variants"]:
        stv = agg("adt", sadt, v["name"], (("0", H),) if v["fields"] else ())
        sv = agg("adt", adt, None, (
            (roles["cur"], NONE), (roles["state"], stv), (roles["part_headers"], PH), (roles["ranges"], RG),
            (roles["entity"], ("sym", "entity")), (roles["remaining"], REM)))
        rels = [("Eq", ("len", PH), N), ("Le", N, const(((1 << 63) - 1) // 16))] + ([("Lt", H, N)] if v["fields"] else [("Eq", H, N)])
        outs = run_case(ctx, adt, dict(roles, rep="enum-classify"), pn, None, False, selfval=sv, rels=rels)
        kinds = set()
        for o in outs:
            if o.kind in ("unreachable", "infeasible", "diverge") or not cons_zone(o).feasible():
                continue
            if any(e["k"] == "call" and e["callee"].get("path") == "Entity::get_range" for e in o.events):
                kinds.add("body")
                continue
            if o.kind != "return":
                continue
            kind, payload = poll_shape(o.value)
            if kind == "Ok":
                kinds.add("hdr" if repr(PH) in repr(payload) else ("trailer" if "'bytes'" in repr(payload)[:400] else "data"))
            elif kind == "None":
                kinds.add("end")
        if len(kinds) != 1 or next(iter(kinds)) not in ("hdr", "body", "trailer", "end") or (next(iter(kinds)) in ("hdr", "body")) != bool(v["fields"]):
            raise FailClosed("multipart stream: the role of position variant %s is not recognised (%s)" % (v["name"], sorted(kinds)))
        out[next(iter(kinds))] = v["name"]
    if set(out) != {"hdr", "body", "trailer", "end"}:
        raise FailClosed("multipart stream: position variants do not cover headers / body / trailer / end: %r" % out)
    return out


def pre_pos(roles, p):
    """the position a case is entered with, as pack(h, p)"""
    if p == "T":
        return pack(N, const(0))
    if p == "E":
        return pack(N, const(1))
    return pack(H, const(p))


def read_pos(ctx, o, roles):
    """the position at the end of path o as pack(h, p) (whatever the representation)"""
    if roles["rep"] == "enum":
        v = final_read(ctx, o, SELF, (("f", roles["state"]),))
        if is_agg(v) and v[2] == roles["state_adt"]:
            role = {n: r for r, n in roles["variants"].items()}.get(v[3])
            if role == "hdr":
                return pack(agg_get(v, "0"), const(0))
            if role == "body":
                return pack(agg_get(v, "0"), const(1))
            if role == "trailer":
                return pack(N, const(0))
            if role == "end":
                return pack(N, const(1))
        return ("unknown_position", v)
    if roles["rep"] == "packed":
        return final_read(ctx, o, SELF, (("f", roles["state"]),) + ((("f", "0"),) if "state_wrap" in roles else ()))
    part = final_read(ctx, o, SELF, (("f", roles["part"]),))
    ph = final_read(ctx, o, SELF, (("f", roles["phase"]),))
    v0, v1 = roles["phase_values"]
    if ph == v0:
        return pack(part, const(0))
    if ph == v1:
        return pack(part, const(1))
    return ("unknown_position", part, ph)


def pos_fields(roles, h, p):
    if roles["rep"] == "enum":
        vs = roles["variants"]
        name = {0: vs["hdr"], 1: vs["body"], "T": vs["trailer"], "E": vs["end"]}[p]
        return ((roles["state"], agg("adt", roles["state_adt"], name, (("0", h),) if p in (0, 1) else ())),)
    if roles["rep"] == "packed":
        if "state_wrap" in roles:
            return ((roles["state"], agg("adt", roles["state_wrap"], None, (("0", pack(h, const(p))),))),)
        return ((roles["state"], pack(h, const(p))),)
    return ((roles["part"], h), (roles["phase"], roles["phase_values"][p]))


SELF = ("H", ("param", 1))
H = ("sym", "h")
RG = ("sym", "ranges")
PH = ("sym", "part_headers")
REM = ("sym", "remaining")
CURS = ("sym", "cur_stream")
N = ("len", RG)


def stream_cases(roles=None):
    """(label, phase, current part installed?) - the symbolic part index h ranges over 0..=n in the integer representations
    (the code itself tests h == n); a position enum has separate variants for h == n, entered as their own cases"""
    cs = [("p=0,cur=None", 0, False), ("p=1,cur=None", 1, False), ("p=1,cur=Some", 1, True)]
    if roles is not None and roles.get("rep") == "enum":
        cs += [("trailer,cur=None", "T", False), ("end,cur=None", "E", False)]
    return cs


def mk_self(adt, roles, h, p, cur_some, rem=REM, ph=PH):
    return agg("adt", adt, None, (
        (roles["cur"], some(CURS) if cur_some else NONE),
    ) + pos_fields(roles, h, p) + (
        (roles["part_headers"], ph),
        (roles["ranges"], RG),
        (roles["entity"], ("sym", "entity")),
        (roles["remaining"], rem),
    ))


def base_rels(cur_some, h=H, roles=None, p=None):
    # a Vec<Range<u64>> has 16-byte elements, so its length is at most isize::MAX / 16
    rels = [("Le", h, N), ("Eq", ("len", PH), N), ("Le", N, const(((1 << 63) - 1) // 16))]
    if cur_some:
        rels.append(("Lt", h, N))
    if roles is not None and roles.get("rep") == "enum":
        # the enum's object invariant: an index-carrying variant holds an index below n (established by the constructor and
        # by every transition: inv_holds checks it on the post-states); the payload-free ones stand for h == n
        rels.append(("Lt", h, N) if p in (0, 1) else ("Eq", h, N))
    return rels


def run_case(ctx, adt, roles, pn, p, cur_some, selfval=None, rels=None, cons0=None):
    TY.setdefault(H, (64, False))
    TY.setdefault(REM, (64, False))
    TY.setdefault(N, (64, False))
    sv = selfval if selfval is not None else mk_self(adt, roles, H, p, cur_some)
    rl = rels if rels is not None else base_rels(cur_some, roles=roles, p=p)

    def setup(st, px):
        st.env[SELF] = sv
        if cons0 is not None:
            st.cons = cons0.copy()
        for r in rl:
            st.cons.rel.append(r)

    def loop_assume(px, st, fr, header):
        # the loop head is reached from the entry with the same object state: re-impose it on the havocked fields
        if fr.fid == 0:
            st.env[SELF] = sv
    # crate-local helpers (integer casts, a position-advancing method, ...) are expanded
    from .common import helper_inline
    return ctx.px(pn, inline=helper_inline(ctx, own=(adt,)), setup=setup, loop_assume=loop_assume, key="mp")


def inv_holds(ctx, o, roles):
    """-> (ok, why, (h', p', cur'))"""
    sv = final_read(ctx, o, SELF, ())
    stt = read_pos(ctx, o, roles)
    cur = final_read(ctx, o, SELF, (("f", roles["cur"]),))
    if not (isinstance(stt, tuple) and stt[0] == "pack" and is_const(stt[2])):
        return False, "position field %s is not of the form 2h+p with a known parity" % short(stt, 60), (None, None, None)
    h2, p2 = stt[1], stt[2][1]
    cv = o.cons.variant_of(cur)
    if cv is None:
        return False, "current-part field has no definite variant", (h2, p2, None)
    z = cons_zone(o, terms=(h2, N))
    if not z.entails("Le", h2, N):
        return False, "h' = %s <= n not implied" % short(h2, 40), (h2, p2, cv)
    if roles["rep"] == "enum" and not (h2 == N) and not z.entails("Lt", h2, N):
        return False, "an index-carrying position variant is stored with h' = %s, which may equal n" % short(h2, 40), (h2, p2, cv)
    if cv == "Some":
        if p2 != 1:
            return False, "a part stream is installed while the position says 'header/trailer next' (p=0)", (h2, p2, cv)
        if not z.entails("Lt", h2, N):
            return False, "a part stream is installed while h' = %s may equal n (no part left): the next poll indexes out of bounds" % short(h2, 40), (h2, p2, cv)
    return True, "", (h2, p2, cv)


def stream_invariant(ctx, rule):
    """C20.R4 / R5: Inv inductive, index sites discharged, terminal post-states absorbing"""
    adt, roles, pn = find_stream(ctx)
    nrows = 0
    terminal = []
    for label, p, cs in stream_cases(roles):
        outs = run_case(ctx, adt, roles, pn, p, cs)
        # census under Inv
        sites = CEN.census(ctx, outs)
        for key, s in sorted(sites.items()):
            acct = s.kind == "assert" and s.op.startswith("Overflow(Sub)")
            dbg = s.kind == "panic-call" and "assert_failed" in s.op
            if s.failed and not (acct or dbg):
                ctx.violation(rule, "%s|%s|%s" % (rule, label, key), "case %s: %s (%s)" % (label, s.failed[0][0], s.failed[0][1][:120]), where=F.loc(s.span))
            elif s.failed:
                ctx.ok(rule, "%s %s: byte-accounting site (discharged by the accounting rules C01.R4-R6)" % (label, key), nontrivial=False)
            else:
                ctx.ok(rule, "%s %s" % (label, key), detail=sorted(s.how), where=F.loc(s.span))
        for o in outs:
            if o.kind in ("unreachable", "infeasible", "diverge"):
                continue
            if not cons_zone(o).feasible():
                continue
            nrows += 1
            okk, why, (h2, p2, cv) = inv_holds(ctx, o, roles)
            kind, payload = poll_shape(o.value) if o.kind == "return" else ("loop", None)
            inst = "%s -> %s" % (label, kind)
            if not okk:
                ctx.violation(rule, "%s|inv|%s" % (rule, inst), "object invariant not preserved on %s: %s" % (inst, why),
                              where=_last_where(o))
            else:
                ctx.ok(rule, "Inv preserved: %s (h'=%s, p'=%s, cur'=%s)" % (inst, short(h2, 30), p2, cv))
            if o.kind == "return" and kind in ("Err", "None"):
                terminal.append((label, kind, o))
    ctx.floor(rule, nrows, 8, what="rows of the multipart stream step")
    # absorption: analyse again from each terminal post-state
    nt = 0
    for label, kind, o in terminal:
        nt += 1
        sv = final_read(ctx, o, SELF, ())
        outs2 = run_case(ctx, adt, roles, pn, None, None, selfval=sv, rels=[], cons0=o.cons)
        bad = None
        for o2 in outs2:
            if not cons_zone(o2).feasible():
                continue
            if o2.kind == "return":
                k2, pl = poll_shape(o2.value)
                # premise: a part stream that already failed/finished yields no further data (C20.R3)
                if k2 == "Ok":
                    src = fmt_term(pl)
                    if "poll_next" in src:
                        continue
                    bad = "after %s the next poll yields data (%s)" % (kind, short(pl, 60))
            elif o2.kind == "backedge":
                # one more loop turn from the terminal state: installing another part stream means data will follow
                c2 = final_read(ctx, o2, SELF, (("f", roles["cur"]),))
                if is_agg(c2) and c2[3] == "Some" and isinstance(agg_get(c2, "0"), tuple) and agg_get(c2, "0")[0] == "call" and "::new" in agg_get(c2, "0")[1]:
                    bad = "after %s the next poll installs another part stream (the response continues after its terminal event)" % kind
        sites = CEN.census(ctx, outs2)
        for key, s in sites.items():
            if s.failed and s.kind in ("index", "slice") and bad is None:
                bad = "after %s the next poll can reach an unprovable index operation (%s): %s" % (kind, key.split("|")[-2] if "|" in key else key, s.failed[0][0])
            if s.failed and s.kind == "panic-call" and "assert_failed" in s.op and bad is None:
                bad = ("after %s the next poll reaches a debug assertion that is not implied by the terminal state (it panics in debug builds: "
                       "the owed-bytes counter is not known to be 0 there)" % kind)
            if s.failed and s.kind == "assert" and s.op.startswith("Overflow(Sub)") and bad is None and "ops=0," in s.failed[0][1]:
                bad = ("after %s the next poll subtracts a piece length from the exhausted owed-bytes counter: it panics in debug builds and "
                       "emits the piece (data after the terminal event) in release builds" % kind)
        inst = "after %s (%s)" % (kind, label)
        if bad:
            ctx.violation(rule, "%s|absorb|%s" % (rule, inst), "terminal state is not absorbing: " + bad, where=_last_where(o))
        else:
            ctx.ok(rule, "absorbing: %s" % inst)
    ctx.floor(rule + ".terminal", nt, 2, what="terminal rows (error and end)")


def _last_where(o):
    for e in reversed(o.events):
        if "span" in e:
            return F.loc(e["span"])
    return None


def stream_accounting(ctx, rule):
    """C01.R5: every emitted piece is subtracted from the owed-bytes field exactly once"""
    adt, roles, pn = find_stream(ctx)
    nok = 0
    for label, p, cs in stream_cases(roles):
        outs = run_case(ctx, adt, roles, pn, p, cs)
        for o in outs:
            if o.kind != "return" or not cons_zone(o).feasible():
                continue
            kind, payload = poll_shape(o.value)
            rem2 = final_read(ctx, o, SELF, (("f", roles["remaining"]),))
            inst = "%s -> %s" % (label, kind)
            if kind == "Ok":
                nok += 1
                ln = piece_len(o, payload)
                if ln is None:
                    ctx.violation(rule, "%s|%s|len" % (rule, inst), "a piece is emitted whose length is never measured: %s" % short(payload, 80), where=_last_where(o))
                    continue
                want = mk_binop("Sub", REM, ln)
                if rem2 != want:
                    ctx.violation(rule, "%s|%s" % (rule, inst), "owed bytes after emitting a piece are %s, expected remaining - len(piece) = %s" % (short(rem2, 80), short(want, 80)),
                                  where=_last_where(o))
                else:
                    ctx.ok(rule, "%s: remaining' = remaining - len(piece)" % inst)
            elif kind in ("Pending", "None"):
                if rem2 != REM:
                    ctx.violation(rule, "%s|%s" % (rule, inst), "owed bytes change on a %s return" % kind, where=_last_where(o))
            elif kind == "Err":
                if rem2 not in (REM, const(0)):
                    ctx.violation(rule, "%s|%s" % (rule, inst), "owed bytes after an error are %s (expected unchanged or 0)" % short(rem2, 60), where=_last_where(o))
    ctx.floor(rule, nok, 3, what="data-emitting rows (part header, part body chunk, trailer)")


def piece_len(o, payload):
    """the length term the code subtracted for this piece"""
    # chunk from the current part: Buf::remaining(&d)
    for e in o.events:
        if e["k"] == "call" and e["callee"].get("path") == "bytes::Buf::remaining":
            a = e["snap"][0] if e["args"][0][0] == "ref" else e["args"][0]
            if a == payload:
                TY.setdefault(e["result"], (64, False))
                return e["result"]
    # D::from(x) / x.into(): length of x
    if isinstance(payload, tuple) and payload[0] == "call" and (payload[1].endswith("::into") or payload[1].endswith("::from")):
        x = payload[2][0]
        if isinstance(x, tuple) and x[0] == "&":
            x = x[1]
        return len_term(x)
    return None


def correspondence(ctx, rule):
    """C01.R6: the pieces emitted are the summands of the pre-computed length"""
    adt, roles, pn = find_stream(ctx)
    R = prepare_rows(ctx)
    seen = set()
    for label, p, cs in stream_cases(roles):
        outs = run_case(ctx, adt, roles, pn, p, cs)
        for o in outs:
            if not cons_zone(o).feasible():
                continue
            # installing a part stream: the value stored into the current-part field on this path (it may be polled in the
            # same turn, so the field's final value is not necessarily the freshly built stream any more)
            cur2 = final_read(ctx, o, SELF, (("f", roles["cur"]),))
            installs = [e["value"] for e in o.events if e["k"] == "write" and e.get("root") == SELF and e.get("path") == (("f", roles["cur"]),)
                        and is_agg(e.get("value")) and e["value"][3] == "Some"]
            if not (is_agg(cur2) and cur2[3] == "Some" and isinstance(agg_get(cur2, "0"), tuple) and agg_get(cur2, "0")[0] == "call"
                    and "::new" in agg_get(cur2, "0")[1]) and installs:
                cur2 = installs[-1]
            if is_agg(cur2) and cur2[3] == "Some" and isinstance(agg_get(cur2, "0"), tuple) and agg_get(cur2, "0")[0] == "call" \
                    and "::new" in agg_get(cur2, "0")[1]:
                els = agg_get(cur2, "0")
                stt = read_pos(ctx, o, roles)
                hcur = stt[1] if isinstance(stt, tuple) and stt[0] == "pack" else None
                if installs and not cs and p == 1:
                    hcur = H      # installed at the position the step was entered with
                ok = False
                if isinstance(els, tuple) and els[0] == "call" and "::new" in els[1]:
                    budget, stream = els[2][0], els[2][1]
                    if isinstance(stream, tuple) and stream[0] == "call" and stream[1] == "Entity::get_range":
                        rng = stream[2][1]
                        src = owner_elem(rng)
                        if src is not None and src[1] == RG and src[2] == hcur and budget == mk_binop("Sub", ("field", rng, "end"), ("field", rng, "start")):
                            ok = True
                seen.add("part-body")
                if ok:
                    ctx.ok(rule, "part body = length-checked get_range(ranges[h]) with budget end-start")
                else:
                    ctx.violation(rule, rule + "|part-body", "the part body installed is %s; expected the length-checked stream over get_range(ranges[h]) with budget end-start" % short(els, 160),
                                  where=_last_where(o))
            if o.kind != "return":
                continue
            kind, payload = poll_shape(o.value)
            if kind != "Ok":
                continue
            # progress: a piece that is not a chunk of the current part (a part header or the trailer) is emitted once:
            # the position must move on, otherwise the next poll emits the same piece again
            if not (isinstance(payload, tuple) and payload[0] == "payload"):
                stt = read_pos(ctx, o, roles)
                if stt == pre_pos(roles, p):
                    ctx.violation(rule, rule + "|no-progress|p=%s" % p, "after emitting %s the position is unchanged (%s): the next poll emits the same piece again" %
                                  ("a part header" if "elem" in repr(payload)[:300] else "the trailer", short(stt, 30)), where=_last_where(o))
            src = fmt_term(payload)
            if isinstance(payload, tuple) and payload[0] == "call" and (payload[1].endswith("::into") or payload[1].endswith("::from")):
                x = payload[2][0]
                if isinstance(x, tuple) and x[0] == "&":
                    x = x[1]
                if x[0] == "bytes":
                    seen.add("trailer")
                    m = re.fullmatch(r"\r\n--([^\r\n]+)--\r\n", x[1])
                    if not m:
                        ctx.violation(rule, rule + "|trailer-shape", "the closing delimiter %r is not CRLF--<boundary>--CRLF" % x[1])
                    else:
                        ctx.ok(rule, "trailer literal %r" % x[1], detail={"boundary": m.group(1)})
                        ctx.__dict__.setdefault("_boundaries", set()).add(m.group(1))
                        ctx.__dict__["_trailer_len"] = len(x[1])
                elif x[0] == "deref" and isinstance(x[1], tuple) and x[1][0] == "elem" and x[1][1] == PH and \
                        x[1][2] == _post_h(ctx, o, roles):
                    seen.add("part-header")
                    # taken: the slot is left empty so it cannot be emitted twice
                    took = any(e["k"] == "write" and e.get("via") in ("mem::take", "mem::replace", "Option::take") and _is_empty_seq(e.get("value"))
                               for e in o.events)
                    if took:
                        ctx.ok(rule, "part header h is taken out of the list (emitted once)")
                    else:
                        ctx.violation(rule, rule + "|part-header-copy", "the part header is emitted without being taken out of the list")
                else:
                    ctx.violation(rule, rule + "|unknown-piece", "a piece that is not a summand of the pre-computed length is emitted: %s" % short(x, 100), where=_last_where(o))
    for need in ("part-header", "part-body", "trailer"):
        if need not in seen:
            ctx.violation(rule, rule + "|missing|" + need, "the multipart stream never emits the %s" % need)
    ctx.floor(rule, len(seen), 3, what="kinds of pieces emitted")


def _is_empty_seq(v):
    """the value written back into the slot is an empty buffer (Default::default(), Vec::new(), Vec::with_capacity(..))"""
    return isinstance(v, tuple) and bool(v) and (v[0] in ("default", "newbuf") or (is_agg(v) and v[3] == "None"))


def _post_h(ctx, o, roles):
    stt = read_pos(ctx, o, roles)
    return stt[1] if isinstance(stt, tuple) and stt[0] == "pack" else None


def owner_elem(rng):
    """ranges[h] element: ("deref", ("elem", seq, idx))"""
    if isinstance(rng, tuple) and rng[0] == "deref" and isinstance(rng[1], tuple) and rng[1][0] == "elem":
        return rng[1]
    return None


def constructor_inv(ctx, rule):
    """the only construction site of the stream establishes Inv: position 0, no current part"""
    adt, roles, pn = find_stream(ctx)
    from .common import aggregates
    sites = aggregates(ctx.facts, adt)
    n = 0
    for b, i, st in sites:
        n += 1
        ops = dict(zip(st["rv"].get("fields", []), st["rv"]["ops"]))
        s = ops.get(roles["state"])
        c = ops.get(roles["cur"])
        ok = s is not None and s.get("int") == 0     # (in the split representation the phase stored here is p=0 by definition)
        from .common import helper_inline
        outs = ctx.px(b["name"], inline=helper_inline(ctx, own=(adt,)), key="helpers") if roles["rep"] == "enum" else ctx.px(b["name"])
        curv = None
        if roles["rep"] == "enum":
            # position 0: headers(0), or the trailer when the path knows that there is no part at all
            ok = True
            for o in outs:
                if o.kind == "return" and is_agg(o.value):
                    sv_ = agg_get(o.value, roles["state"])
                    role = {n_: r_ for r_, n_ in roles["variants"].items()}.get(sv_[3]) if is_agg(sv_) else None
                    rg_ = agg_get(o.value, roles["ranges"])
                    if role == "hdr" and agg_get(sv_, "0") == const(0):
                        continue
                    if role == "trailer" and cons_zone(o, terms=(len_term(rg_),)).entails("Eq", len_term(rg_), const(0)):
                        continue
                    ok = False
        for o in outs:
            if o.kind == "return" and is_agg(o.value):
                curv = agg_get(o.value, roles["cur"])
        ok = ok and is_agg(curv) and curv[3] == "None"
        if ok:
            ctx.ok(rule, "constructor %s: position 0, no current part" % b["name"])
        else:
            ctx.violation(rule, rule + "|ctor", "the stream constructor %s does not start at position 0 with no current part" % b["name"], where=F.loc(st["span"]))
    ctx.floor(rule + ".ctor", n, 1, what="construction sites of the multipart stream")
    if n > 1:
        ctx.violation(rule, rule + "|ctor-count", "the multipart stream is constructed at %d sites; Inv was established for one constructor only" % n)


def stream_frame(ctx, rule):
    """frame rule of the multipart stream's step: a poll of the current part that returns Pending or a data chunk leaves
    that same part stream installed and the position unchanged (otherwise the next poll restarts the part from its
    first byte: duplicated data, or a livelock on a stream that is Pending before every chunk)"""
    adt, roles, pn = find_stream(ctx)
    outs = run_case(ctx, adt, roles, pn, 1, True)
    n = 0
    nend = 0
    for o in outs:
        if o.kind not in ("return", "backedge") or not cons_zone(o).feasible():
            continue
        kind, payload = poll_shape(o.value) if o.kind == "return" else ("loop", None)
        polls = [e for e in o.events if e["k"] == "call" and "poll_next" in (e["callee"].get("path") or "") and e["fn"] == pn]
        if not polls:
            continue
        pr = polls[0]["result"]
        if o.cons.variant_of(pr) == "Ready" and o.cons.variant_of(("payload", pr, "Ready", "0")) == "None":
            # the current part ended: the position must advance, otherwise the same part is installed and sent again
            stt = read_pos(ctx, o, roles)
            adv = isinstance(stt, tuple) and stt[0] == "pack" and stt[1] != H
            nend += 1
            if not adv:
                ctx.violation(rule, "%s|part-end-no-advance" % rule, "when the current part's stream ends the position stays at %s: the same part is installed and streamed again" % short(stt, 40),
                              where=_last_where(o))
            elif kind != "Err":
                # (a turn that goes on and fails - fused to the end state - is the error rules' business)
                # ... and it advances to the start of the *next* part (or to the trailer when that was the last one): h' = h + 1
                # (p' = 0, or 1 when the same turn went on to emit that part's header / the trailer)
                nxt = mk_binop("Add", H, const(1))
                TY.setdefault(nxt, (64, False))
                succ = is_const(stt[2]) and (stt[1] == nxt or cons_zone(o, terms=(stt[1], nxt)).entails("Eq", stt[1], nxt)) and \
                    (stt[2][1] == 0 or o.kind == "return")
                if not succ:
                    ctx.violation(rule, "%s|part-end-skips" % rule, "when part h's stream ends the position becomes %s, not the start of part h+1: a part (or its header) is skipped" % short(stt, 40),
                                  where=_last_where(o))
            continue
        chunk = ("payload", ("payload", ("payload", pr, "Ready", "0"), "Some", "0"), "Ok", "0")
        from_cur = (kind == "Pending" and o.cons.variant_of(pr) == "Pending") or (kind == "Ok" and payload == chunk)
        if not from_cur:
            continue
        n += 1
        cur2 = final_read(ctx, o, SELF, (("f", roles["cur"]),))
        stt = read_pos(ctx, o, roles)
        rem2 = final_read(ctx, o, SELF, (("f", roles["remaining"]),))
        bad = []
        same = False
        if is_agg(cur2) and cur2[3] == "Some":
            x = agg_get(cur2, "0")
            same = x == CURS or (isinstance(x, tuple) and x[0] == "havoc" and repr(CURS) in repr(x))
        if not same:
            bad.append("the part stream being polled is not kept installed (current-part field afterwards: %s)" % short(cur2, 60))
        if stt != pack(H, const(1)):
            bad.append("the position changes (%s)" % short(stt, 40))
        if kind == "Pending" and rem2 != REM:
            bad.append("the owed-bytes counter changes on Pending")
        inst = "poll of the current part -> %s" % kind
        if bad:
            ctx.violation(rule, "%s|%s|%s" % (rule, kind, bad[0][:40]), "%s: %s; the next poll would restart the part" % (inst, "; ".join(bad)), where=_last_where(o))
        else:
            ctx.ok(rule, "%s keeps the same part stream installed and the position unchanged" % inst)
    ctx.floor(rule, n, 2, what="rows that poll the current part and return Pending / data")
    ctx.floor(rule + ".end", nend, 1, what="rows on which the current part ends")
    if nend:
        ctx.ok(rule, "end of the current part advances the position", detail={"rows": nend})
