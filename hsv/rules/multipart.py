"""rules over the multipart preparation function and MultipartStream -- filled in below"""
def length_sum(ctx, rule):
    pass
def stream_accounting(ctx, rule):
    pass
def correspondence(ctx, rule):
    pass
