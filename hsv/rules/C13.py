"""C13 — `serve` is total on untrusted input.  Decides: (R1) a census of every
panic-capable construct (overflow/bounds asserts, str/slice indexing, split_at,
unwrap/expect, never-returning calls, deny-listed callees, unsafe constructors) in
every crate-local function reachable from `serve` and from polling / inspecting a
body that `serve` builds; each site is discharged by the zone solver on every
path reaching it, by a type-level rule (infallible Builder arguments, literal
header values, integer-only formatted header values), by the refinement RNG
(start < end for ranges read out of the resolved list, established in C02.R1) or
by the byte-accounting rules; (R2) the status set over all exits is within
{200,206,304,400,405,412,413,416}; (R3) 405 iff the method is neither GET nor
HEAD, with an Allow header naming both, before any entity call; (R4) every
`from_maybe_shared_unchecked` header value is a printable-ASCII template with
integer Display/LowerHex arguments only; (R5) Builder unwraps are discharged by
infallible argument types.  Does not decide: panics inside dependencies beyond the
model table (httpdate::fmt_http_date panics for a pre-1970 / post-9999
modification time: entity-side precondition, listed as assumption)."""
from ..px import const, is_const, is_agg, agg_get, mk_binop, TY, fmt_term
from .. import px as P
from .. import facts as F
from .. import census as CEN
from ..models import decode_template
from . import serve_model as SM
from . import rangeparse as RP
from . import multipart as MP
from . import bodyrules as BR
from .common import where, short, reachable_bodies, impl_fn

CONFIGS_QUICK = ["dir"]


def rng_hypotheses(o, ev):
    """start < end for every Range<u64> value that is not a locally built aggregate (closed world: such values are
    read out of the resolved range list, whose elements satisfy RNG by C02.R1)"""
    terms = list(ev.get("ops", []))
    if ev.get("cond") is not None:
        terms.append(ev["cond"])
    owners = set()

    def walk(t, d=0):
        if not isinstance(t, tuple) or d > 10 or not t:
            return
        if isinstance(t[0], str):
            if t[0] == "field" and t[2] in ("start", "end") and isinstance(t[1], tuple):
                owners.add(t[1])
            for x in t[1:]:
                walk(x, d + 1)
        else:
            for x in t:
                walk(x, d + 1)
    for t in terms:
        walk(t)
    rels = []
    for X in owners:
        s, e = ("field", X, "start"), ("field", X, "end")
        TY.setdefault(s, (64, False))
        TY.setdefault(e, (64, False))
        rels.append(("Lt", s, e))
    return rels


def printable(s):
    return all(32 <= ord(c) < 127 for c in s)


def make_typelevel(ctx, M, notes):
    tainted_mp = any(getattr(r, "tainted", False) for r in SM.ok_rows(M) if r.body["kind"] == "multipart")

    def tl(ev, o):
        k = ev["k"]
        if k == "assert":
            cond = ev["cond"]
            if cond[0] == "ovf" and cond[1] == "Sub":
                from ..zone import Zone
                cc = P.Cons()
                cc.rel = list(o.cons.rel[:ev.get("nrel", len(o.cons.rel))]) + rng_hypotheses(o, ev)
                z = Zone(cc, extra_terms=tuple(ev["ops"]))
                if z.entails("Le", cond[3], cond[2]):
                    return "RNG refinement (C02.R1) + zone"
            return None
        if k != "call":
            return None
        names = ev["names"]
        if "panic_if" in ev:
            _, t, bad = ev["panic_if"]
            s = repr(t)
            if "http::response::Builder::body" in s:
                if not tainted_mp:
                    return "Builder::body is Ok: every status/header argument on this builder has an infallible type (typestate rows)"
                return None
            if "TryFrom" in s and "usize" in s and "u64" in s:
                return "usize -> u64 conversion is infallible on this 64-bit target"
            if "write_fmt" in s:
                return "formatting integers into a growable buffer cannot fail"
            return None
        if "http::HeaderValue::from_static" in names:
            a = ev["args"][0]
            if isinstance(a, tuple) and a[0] == "str" and printable(a[1]):
                return "literal header value is visible ASCII"
            return None
        if "httpdate::fmt_http_date" in names:
            notes.add("httpdate::fmt_http_date panics for times before 1970 or after year 9999: the entity's modification time is assumed representable as an HTTP-date")
            return "entity-side precondition (assumption)"
        if "http::HeaderValue::from_maybe_shared_unchecked" in names:
            v = ("hv", ev["args"][0])
            fv = SM.fmt_value(v)
            if fv["kind"] == "fmt" and fv["template"] is not None:
                lit_ok = all(printable(p[1]) for p in fv["template"] if p[0] == "lit") and all(p[0] in ("lit", "arg") for p in fv["template"])
                args_ok = all(isinstance(a, tuple) and a[0] == "fmtarg" and a[1] in ("display", "lower_hex") and a[2] in ("u64", "usize", "u32", "u16", "u8") for a in fv["args"])
                if lit_ok and args_ok:
                    return "header value = printable-ASCII template with integer arguments only"
            return None
        return None
    return tl


def r1_census(ctx, M):
    serve, inner = M["serve"], M["inner"]
    e, bpn = BR.find_bodystream(ctx)
    roots = [serve]
    body_adt = None
    for a in ctx.facts.adts.values():
        if a["local"] and a["kind"] == "struct" and any(f["ty"].startswith(e["path"]) for f in a["variants"][0]["fields"]) and "Proj" not in a["path"]:
            for m in ("poll_frame", "size_hint", "is_end_stream"):
                roots += impl_fn(ctx, "http_body::Body", a["path"], m)
    from . import chunker as CH
    CR = CH.roles(ctx)
    reach = reachable_bodies(ctx.facts, roots)
    entry_excl = {n for n in reach if n.split("::{closure")[0] in (CR["poll_next"], CR["size_hint"], CR["is_end_stream"]) or
                  n.startswith("<" + CR["reader"])}
    # the chunk reader's entry points and whatever only they reach (private helpers of the reader)
    excluded = reach - reachable_bodies(ctx.facts, roots, stop=entry_excl) | entry_excl
    notes = set()
    tl = make_typelevel(ctx, M, notes)
    import json, os
    with open(os.path.join(os.path.dirname(os.path.dirname(__file__)), "tables", "allow.json")) as f:
        allow = {a["key"]: a["reason"] for a in json.load(f)["allow"] if a["property"] == "C13"}
    sadt, sroles, spn = MP.find_stream(ctx)
    total = 0
    fns = sorted(reach - excluded)
    parser = RP.find_parser(ctx)[2][0]
    # a tag-list iterator that keeps (input, cursor) needs its object invariant cursor <= len(input): censused by the
    # tokeniser rule under that invariant (below), like the multipart stream
    from . import etaglist as EL
    list_next_under_inv = None
    try:
        ladt, lnx, _, _ = EL.find_list(ctx)
        if EL.cursor_field(ctx, ladt) is not None:
            list_next_under_inv = lnx
    except Exception:
        pass
    covered_inline = set()
    ordered = [f for f in fns if ctx.facts.bodies[f]["kind"] != "closure"] + [f for f in fns if ctx.facts.bodies[f]["kind"] == "closure"]
    # pass 1: analyse every function once; remember which callees each analysis expanded in context
    outs_of = {}
    expanded_in = {}     # callee -> set of analysed functions that visited its sites in their own context
    for fn in ordered:
        b = ctx.facts.bodies[fn]
        if b["kind"] == "promoted":
            continue
        if fn == spn:
            outs = []
            for label, p, cs in MP.stream_cases(sroles):
                outs += MP.run_case(ctx, sadt, sroles, spn, p, cs)
        elif fn == inner:
            outs = M["outs"]
        elif fn == parser:
            outs = RP.analyse(ctx)["outs"]
        else:
            outs = ctx.px(fn)
            # when the function-local analysis leaves a site undischarged, expand the function's crate-local helpers
            # (free functions, closures, methods of its own type / of helper types) and analyse again: more precise, same sites
            if any(s.failed and k not in allow for k, s in CEN.census(ctx, outs, typelevel=tl).items()):
                from .common import helper_inline
                own = (ctx.facts.fns.get(fn, {}).get("impl_self") or "").split("<")[0]
                try:
                    outs2 = ctx.px(fn, inline=helper_inline(ctx, own=(own,) if own else ()), key="helpers")
                    if sum(1 for s in CEN.census(ctx, outs2, typelevel=tl).values() if s.failed) < \
                            sum(1 for s in CEN.census(ctx, outs, typelevel=tl).values() if s.failed):
                        outs = outs2
                except Exception:
                    pass
        outs_of[fn] = outs
        for o in outs:
            for ev in o.events:
                if ev.get("fn") and ev["fn"] != fn:
                    expanded_in.setdefault(ev["fn"], set()).add(fn)
    # a closure that no analysis expanded (e.g. one handed to a crate-local helper, which calls it): analyse its parent with the
    # parent's helpers expanded, so that the closure's sites are censused under the conditions of the call
    from .common import helper_inline as _hi
    for fn in ordered:
        b = ctx.facts.bodies[fn]
        if b["kind"] != "closure" or fn in expanded_in:
            continue
        parent = fn.split("::{closure")[0]
        if parent not in outs_of or parent in (spn, inner, parser):
            continue
        own = (ctx.facts.fns.get(parent, {}).get("impl_self") or "").split("<")[0]
        try:
            outs2 = ctx.px(parent, inline=_hi(ctx, own=(own,) if own else ()), key="helpers")
        except Exception:
            continue
        seen2 = {ev["fn"] for o in outs2 for ev in o.events if ev.get("fn") and ev["fn"] != parent}
        if fn in seen2:
            nf1 = sum(1 for s in CEN.census(ctx, outs_of[parent], typelevel=tl).values() if s.failed)
            nf2 = sum(1 for s in CEN.census(ctx, outs2, typelevel=tl).values() if s.failed and s.fn == parent)
            if nf2 <= nf1:
                outs_of[parent] = outs2
                for f2 in seen2:
                    expanded_in.setdefault(f2, set()).add(parent)
    # static callers (by resolved call edges) of every local function
    callers = {}
    for cb, ci, ct in ctx.facts.all_calls():
        for k in ("res_path", "path"):
            nm = ct["callee"].get(k)
            if nm in ctx.facts.bodies:
                callers.setdefault(nm, set()).add(cb["name"])
                break
    for fn in ordered:
        b = ctx.facts.bodies[fn]
        if b["kind"] == "promoted":
            continue
        if fn == spn or fn == list_next_under_inv:
            continue  # analysed under its object invariant below
        if b["kind"] == "closure" and fn in expanded_in:
            continue  # its sites were visited in context (expanded at its unique call site by a combinator model)
        cs = callers.get(fn, set())
        if b["kind"] != "closure" and cs and cs <= set(outs_of) and all(c in expanded_in.get(fn, ()) for c in cs):
            # a helper whose every call site was expanded inside its caller's analysis: its sites are censused there,
            # under the caller's path conditions (and, for the multipart stream, under the object invariant)
            ctx.ok("C13.R1", "%s: censused in context at its call sites in %s" % (fn, sorted(cs)), nontrivial=False)
            continue
        outs = outs_of[fn]
        sites = CEN.census(ctx, outs, typelevel=tl)
        for key, s in sorted(sites.items()):
            total += 1
            if s.failed and key in allow:
                ctx.ok("C13.R1", key + " [allowlisted: %s]" % allow[key][:80], nontrivial=False, where=F.loc(s.span))
                ctx.assume("allowlisted site %s: %s" % (key, allow[key]))
            elif s.failed:
                ctx.violation("C13.R1", "C13.R1|" + key, "panic site reachable from serve() not discharged: %s (%s)" % (s.failed[0][0], s.failed[0][1][:140]),
                              where=F.loc(s.span), detail={"paths": s.paths})
            else:
                ctx.ok("C13.R1", key, detail={"paths": s.paths, "how": sorted(s.how)[:3]}, where=F.loc(s.span))
    if list_next_under_inv is not None:
        EL.tokeniser(ctx, "C13.R1.list")
        EL.list_constructor(ctx, "C13.R1.list")
    # the multipart stream under its invariant (same rule as C20.R4)
    MP.constructor_inv(ctx, "C13.R1.mp")
    MP.stream_invariant(ctx, "C13.R1.mp")
    MP.stream_accounting(ctx, "C13.R1.mp.acct")
    for n in sorted(notes):
        ctx.assume(n)
    ctx.assume("functions excluded from the serve() census because serve never constructs the streaming-body variant: %s" % ", ".join(sorted(excluded)))
    ctx.info("census over %d functions reachable from serve()/Body, %d sites" % (len(fns), total))
    ctx.floor("C13.R1", total, 25, what="panic-capable sites reachable from serve()")
    ctx.floor("C13.R1.fns", len(fns), 20, what="functions reachable from serve()")
    # completeness cross-check: static sites in analysed functions that no path visited
    stat = CEN.static_sites(ctx.facts, fns)
    ctx.ok("C13.R1", "static enumeration: %d panic-capable terminators in the analysed functions" % len(stat), nontrivial=False)


def r4_formatted_values(ctx, M):
    n = 0
    for r in SM.ok_rows(M):
        for name, v, uid in r.headers:
            if isinstance(v, tuple) and v[0] == "hv":
                n += 1
                fv = SM.fmt_value(v)
                okk = fv["kind"] == "fmt" and fv["template"] is not None and \
                    all(p[0] in ("lit", "arg") and (p[0] == "arg" or printable(p[1])) for p in fv["template"]) and \
                    all(isinstance(a, tuple) and a[0] == "fmtarg" and a[1] in ("display", "lower_hex") and a[2] in ("u64", "usize", "u32") for a in fv["args"])
                if not okk:
                    ctx.violation("C13.R4", "C13.R4|%s" % name, "header %s is built with from_maybe_shared_unchecked from something other than a printable template with integer arguments: %s" %
                                  (name, short(v, 100)))
    ctx.ok("C13.R4", "unchecked header values are printable templates with integer arguments", detail={"uses_on_rows": n})
    ctx.floor("C13.R4", n, 100, what="formatted header values over all exit rows")


def run(ctx):
    M = SM.analyse(ctx)
    SM.fail_unrecognised(ctx, "C13.R5", M)
    SM.c13_status_set(ctx, M)
    SM.c13_method_gate(ctx, M)
    r1_census(ctx, M)
    r4_formatted_values(ctx, M)
