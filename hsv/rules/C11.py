"""C11 — abort and disconnect are signalled, never swallowed.  Decides:
(R1) BodyWriter::abort ends in the dead state on every row and reaches the chunk
writer's abort for both live arms (for gzip through get_mut, i.e. without
finishing the stream); (R2) the chunk writer's abort on a live state stores the
caller's error, takes and wakes the parked waker; on other states the state stays
non-live; (R3) is_end_stream is false while the error is pending and true only
when the consumer finished or (nothing queued and producer finished), and - on the
whole entry state - never in a state from which the next poll yields an error; (R4) write /
flush on a dead writer fail without delegating and an inner error marks the writer
dead; (R5) the consumer half has a Drop impl whose every path leaves the shared
state non-live (releasing the queue); (R6) flush returns Ok only after observing a
live consumer under the lock, so a dropped body is reported even with an empty
buffer; (R7) only pop_front removes single chunks.  Does not decide: interleavings
with a concurrently polling consumer beyond the lock discipline of C10."""
from . import chunker as CH
from . import streaming as ST

CONFIGS_QUICK = ["dir"]


def run(ctx):
    ST.abort_table(ctx, "C11.R1")
    outs = CH.abort_rows(ctx, "C11.R2")
    CH.wake_discipline(ctx, "C11.R2.wake", [("abort", outs), ("flush", CH.flush_rows(ctx, False)[1]), ("drop", CH.flush_rows(ctx, True)[1])])
    CH.end_stream_table(ctx, "C11.R3")
    CH.eos_implies_end(ctx, "C11.R3.cross")
    ST.writer_delegation(ctx, "C11.R4")
    CH.consumer_drop(ctx, "C11.R5")
    CH.flush_reports_gone_consumer(ctx, "C11.R6")
    CH.queue_api(ctx, "C11.R7")
