"""Recognition of the entity-tag comparison functions by their decision table.

The function's PX rows are evaluated over the abstract tag domain
{W/"x", "x", W/"y", "y"}^2 (16 inputs) under the interpretation
starts_with / strip_prefix / == on byte strings, and compared with RFC 7232's
strong (`a == b and a is not weak`) and weak (`opaque(a) == opaque(b)`) tables."""
from ..tabeval import Evaluator, Opt, Stuck, NoRow, Ambiguous, select_row

TAGS = ['W/"x"', '"x"', 'W/"y"', '"y"']


def _calls(name, args, term):
    last = name.split("::")[-1]
    if last == "starts_with":
        return int(args[0].startswith(args[1]))
    if last == "strip_prefix":
        if args[0].startswith(args[1]):
            return Opt(True, args[0][len(args[1]):])
        return Opt(False)
    if last == "ends_with":
        return int(args[0].endswith(args[1]))
    raise Stuck("call %s" % name)


def opaque(t):
    return t[2:] if t.startswith("W/") else t


def table(ctx, fn):
    outs = ctx.px(fn, inline=lambda c, d: True, key="all")
    tab = {}
    for a in TAGS:
        for b in TAGS:
            ev = Evaluator({1: a, 2: b}, calls=_calls)
            o, e = select_row(outs, ev)
            tab[(a, b)] = int(bool(e.ev(o.value)))
    return tab


def comparator_kind(ctx, fn):
    """-> ('strong'|'weak'|'other'|'unknown', explanation)"""
    cache = ctx.__dict__.setdefault("_cmpkind", {})
    if fn in cache:
        return cache[fn]
    try:
        tab = table(ctx, fn)
    except (Stuck, NoRow, Ambiguous) as e:
        cache[fn] = ("unknown", "table not extractable: %s %s" % (type(e).__name__, e))
        return cache[fn]
    strong = {(a, b): int(a == b and not a.startswith("W/")) for a in TAGS for b in TAGS}
    weak = {(a, b): int(opaque(a) == opaque(b)) for a in TAGS for b in TAGS}
    if tab == strong:
        r = ("strong", "")
    elif tab == weak:
        r = ("weak", "")
    else:
        diff_s = [k for k in tab if tab[k] != strong[k]]
        diff_w = [k for k in tab if tab[k] != weak[k]]
        r = ("other", "differs from strong on %s and from weak on %s" % (diff_s[:2], diff_w[:2]))
    cache[fn] = r
    return r
