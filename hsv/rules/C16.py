"""C16 — should_gzip.  Decides: (R1) the qvalue parser's decision table, evaluated
on every string over the alphabet {0,1,2,5,9,.,+,x} up to 6 characters plus the
quantifier's weights: grammatical qvalues map to 1000*q exactly, and every
non-grammatical one is rejected or (for the one known laxity, digits preceded by
'+') is flagged; (R2) per list element: no `;` -> weight 1000, unparseable weight
-> false, the coding literal `gzip` / `identity` / `*` selects the slot that
receives Some(weight), other codings touch no slot (the slots are three locals of a
`for` loop, captures of a try_for_each closure, or the components of a try_fold
accumulator); the coding compared can keep neither leading nor trailing optional
whitespace and the weight is trimmed on both sides (computed structurally from the
trim / sub-slice operations on the way from the element); header absent or not
visible ASCII -> false; (R3) the loop-free tail computing the answer from the three
Option<u16> slots, evaluated on all 125 order types of (gzip, identity, *) over
{None, 0, 1, 500, 1000}, equals RFC 7231 5.3.4 (gzip: own, else *, else
unacceptable; identity: own, else *, else least-preferred acceptable; true iff
g > 0 and g >= i); (R4) no reachable panic site in either function.
Does not decide: case-insensitivity and the full OWS grammar of the header."""
import itertools
import re
from ..px import const, is_const, is_agg, agg_get, fmt_term, TY
from .. import px as P
from .. import facts as F
from .. import census as CEN
from ..tabeval import Evaluator, Opt, Stuck, Trie
from .common import where, short

CONFIGS_QUICK = ["dir"]

QGRAMMAR = re.compile(r"^(0(\.[0-9]{0,3})?|1(\.0{0,3})?)$")


def qspec(s):
    if not QGRAMMAR.match(s):
        return None
    if s.startswith("1"):
        return 1000
    frac = s[2:] if len(s) > 2 else ""
    return int((frac + "000")[:3]) if frac else 0


def find_fns(ctx):
    from ..check import FailClosed
    sg = [f for f in ctx.facts.fns.values() if f["kind"] == "fn" and f["path"].split("::")[-1] == "should_gzip" and f.get("vis") == "Public"]
    if len(sg) != 1:
        raise FailClosed("pub fn should_gzip not found uniquely")
    sgn = sg[0]["path"]
    # the qvalue parser: crate-local callee (possibly via a closure) with signature (&str) -> Result<u16, _>
    qv = [n for n, b in ctx.facts.bodies.items() if b["kind"] == "fn" and b["arg_count"] == 1 and b["locals"][1]["s"] == "&str"
          and b["locals"][0]["s"].startswith("std::result::Result<u16")]
    if len(qv) != 1:
        raise FailClosed("qvalue parser (&str -> Result<u16, _>) not found uniquely: %r" % qv)
    return sgn, qv[0]


def _calls(name, args, term):
    last = name.split("::")[-1]
    if last == "starts_with":
        return int(args[0].startswith(args[1]))
    if last == "from_str":
        s = args[0]
        if re.match(r"^\+?[0-9]+$", s) and int(s) <= 65535:
            return ("Ok", int(s))
        return ("Err", "parse")
    if last == "len":
        return len(args[0])
    if last == "strip_prefix":
        return Opt(True, args[0][len(args[1]):]) if args[0].startswith(args[1]) else Opt(False)
    raise Stuck("call %s" % name)


def _extra(ev, t):
    k = t[0]
    if k == "len":
        return len(ev.ev(t[1]))
    if k == "slice":
        s = ev.ev(t[1])
        a = ev.ev(t[2])
        b = ev.ev(t[3]) if t[3] is not None else len(s)
        return s[a:b]
    if k == "from":
        return ev.ev(t[1])
    return NotImplemented


def r1_qvalue(ctx, qfn):
    outs = [o for o in ctx.px(qfn, inline=lambda c, d: True, key="all") if o.kind == "return"]
    trie = Trie(outs)
    alphabet = "01259.+x"
    strings = set(["0", "0.", "0.0", "0.000", "0.001", "0.5", "0.999", "1", "1.", "1.000", "1.0", "1.00", "", "1.001", "0.0000", "2", "0.12", "0.123", "1.0000", "0.1234"])
    for n in range(0, 6):
        for tup in itertools.product(alphabet, repeat=n):
            strings.add("".join(tup))
    for d in range(1000):
        for w in (1, 2, 3):
            strings.add("0." + ("%03d" % d)[:w])
    ngram = nbad = nlax = 0
    reported = set()
    for s in sorted(strings):
        ev = Evaluator({1: s}, calls=_calls, extra=_extra)
        try:
            hits = trie.select(ev)
            if len(hits) != 1:
                raise Stuck("%d rows" % len(hits))
            got = ev.ev(hits[0].value)
        except Stuck as e:
            key = "C16.R1|stuck|%s" % str(e)[:50]
            if key not in reported:
                reported.add(key)
                ctx.violation("C16.R1", key, "UNRECOGNISED: qvalue table cannot be evaluated on %r (%s)" % (s, e))
            continue
        want = qspec(s)
        if want is not None:
            ngram += 1
            if got != ("Ok", want):
                nbad += 1
                key = "C16.R1|value|len%d" % len(s)
                if key not in reported:
                    reported.add(key)
                    ctx.violation("C16.R1", key, "qvalue %r parses to %r, RFC 7231 5.3.1 gives %d" % (s, got, want))
        else:
            if isinstance(got, tuple) and got[0] == "Ok":
                nlax += 1
    if nbad == 0:
        ctx.ok("C16.R1", "qvalue table: %d grammatical strings map to 1000*q (of %d strings evaluated; %d non-grammatical strings accepted, outside the quantifier)" %
               (ngram, len(strings), nlax), detail={"rows": trie.n})
    ctx.floor("C16.R1", ngram, 1000, what="grammatical qvalue strings evaluated")


def ows_free(t, depth=0):
    """(no leading optional whitespace, no trailing optional whitespace) established for the string a term denotes, by the
    trim operations applied on the way from the list element: trim -> both; trim_start / trim_end -> one side, the other
    inherited; a sub-slice keeps the side it shares with its base (the part before `;` keeps the start, the part after it the
    end); anything else - the raw element of `split(',')` in particular - neither"""
    while isinstance(t, tuple) and t and t[0] in ("deref", "&", "slice_of", "refconst") and depth < 40:
        t = t[1]
        depth += 1
    if not isinstance(t, tuple) or not t or depth >= 40:
        return (False, False)
    if t[0] == "call" and len(t[2]) >= 1:
        last = t[1].split("::")[-1]
        if last == "trim" and len(t[2]) == 1:
            return (True, True)
        if last == "trim_start" and len(t[2]) == 1:
            return (True, ows_free(t[2][0], depth + 1)[1])
        if last == "trim_end" and len(t[2]) == 1:
            return (ows_free(t[2][0], depth + 1)[0], True)
        return (False, False)
    if t[0] == "slice" and len(t) == 4:
        b = ows_free(t[1], depth + 1)
        return (b[0] and t[2] == const(0), b[1] and t[3] is None)
    if t[0] == "payload" and isinstance(t[1], tuple) and t[1] and t[1][0] == "call" and t[1][1].endswith("strip_prefix") and t[2] == "Some":
        return (False, ows_free(t[1][2][0], depth + 1)[1])       # what follows a stripped literal prefix: the end is the receiver's end
    return (False, False)


def r2_slots(ctx, sgn, qfn):
    from .. import models as _MM
    outs = ctx.px(sgn, inline=lambda c, d: c.get("res_path") != qfn, key="all-but-qvalue", extra_models=_MM.TRY_FOLD)
    info = P.BodyInfo(ctx.facts.bodies[sgn])
    slots = {}      # coding literal -> place key
    quality_terms = {}
    nrows = 0
    entry = {}
    header = None
    for o in outs:
        if o.kind != "backedge":
            continue
        header = o.where[1]
        nrows += 1
        lev = o.state.extra.get("loop_entry_values", {})
        coding = None
        for t, v in o.cons.known.items():
            if isinstance(t, tuple) and t[0] == "eq" and v == 1:
                for x in (t[1], t[2]):
                    if isinstance(x, tuple) and x[0] == "str":
                        coding = x[1]
        changed = []
        lfn = o.where[0]        # the function holding the element loop: should_gzip itself or a helper it was moved into
        sigs = {k4[:3]: k4[3] for k4 in lev if len(k4) == 4}
        for k4, init in lev.items():
            if len(k4) != 3:
                continue
            fn, h, key = k4
            if fn == lfn and h == header and key[0] == "F" and is_agg(init) and \
                    (init[1] == "tuple" or (init[1] == "adt" and (ctx.facts.adts.get(init[2]) or {}).get("local"))):
                # the slots are the components of a try_fold accumulator - a tuple `(gzip, identity, *)` or a private record -:
                # each starts as None, one turn returns the new accumulator (rebuilt, or updated in place)
                accv = ("loopvar", fn, h, key, 0) + ((sigs[k4],) if k4 in sigs else ())
                for name, comp in init[4]:
                    if not (is_agg(comp) and comp[2] == "std::option::Option"):
                        continue
                    skey = ("F", 0, name)
                    entry[skey] = comp
                    nv = o.value
                    while isinstance(nv, tuple) and nv and nv[0] == "upd" and nv[2] != ("f", name):
                        nv = nv[1]
                    new = agg_get(nv, name) if is_agg(nv) else (nv[3] if isinstance(nv, tuple) and nv and nv[0] == "upd" else
                                                               (("field", accv, name) if nv == accv else None))
                    if new != ("field", accv, name):
                        changed.append((skey, new))
                continue
            if fn != sgn or key[0] != "L" or key[2]:
                continue
            ty = ctx.facts.bodies[sgn]["locals"][key[1]]["s"]
            if ty != "std::option::Option<u16>" or (isinstance(init, tuple) and init[0] == "uninit"):
                continue  # only loop-carried slots initialised before the loop (temporaries are uninitialised there)
            entry[key] = init
            new = o.state.env.get(("L", 0, key[1]))
            lv = ("loopvar", sgn, h, key, 0)
            if new != lv:
                changed.append((key, new))
        if coding is None:
            if changed:
                ctx.violation("C16.R2", "C16.R2|other-coding-writes", "an element whose coding is none of the recognised literals changes a slot")
            continue
        if len(changed) != 1:
            ctx.violation("C16.R2", "C16.R2|slot-count|%s" % coding, "an element with coding %r changes %d slots (expected exactly one)" % (coding, len(changed)))
            continue
        # optional whitespace: the compared coding is trim() of the element (or of the part before ';')
        ct = None
        for tt, vv in o.cons.known.items():
            if isinstance(tt, tuple) and tt[0] == "eq" and vv == 1:
                for x in (tt[1], tt[2]):
                    if not (isinstance(x, tuple) and x[0] == "str"):
                        ct = x
        if ct is not None and ows_free(ct) != (True, True):
            lt = ows_free(ct)
            ctx.violation("C16.R2", "C16.R2|coding-not-trimmed", "the coding name compared with %r can keep %s optional whitespace: blanks around `,` / `;` would hide it" %
                          (coding, "leading and trailing" if lt == (False, False) else ("leading" if not lt[0] else "trailing")))
        key, new = changed[0]
        if slots.setdefault(coding, key) != key:
            ctx.violation("C16.R2", "C16.R2|slot-ambiguous|%s" % coding, "coding %r writes different slots on different paths" % coding)
        if not (is_agg(new) and new[3] == "Some"):
            ctx.violation("C16.R2", "C16.R2|slot-value|%s" % coding, "coding %r stores %s, not Some(weight)" % (coding, short(new, 60)))
            continue
        q = agg_get(new, "0")
        # weight: 1000 without ';' else payload of the qvalue parser
        semi = None
        for t, v in o.cons.variant.items():
            if isinstance(t, tuple) and ((t[0] == "call" and t[1].endswith("split_once")) or
                                         (t[0] == "found" and len(t) > 4 and t[4] == "str::split_once" and t[2] == const(59))):
                semi = v
        if semi == "None":
            if q != const(1000):
                ctx.violation("C16.R2", "C16.R2|default-weight", "an element without `;` gets weight %s, not 1000" % short(q, 40))
        elif semi == "Some":
            s = repr(q)
            # the weight text: trim() of the part after ';', then the literal prefix `q=`
            for tt, vv in o.cons.variant.items():
                if isinstance(tt, tuple) and tt[0] == "call" and tt[1].endswith("strip_prefix") and vv == "Some":
                    ss = repr(tt)
                    if "'q='" not in ss:
                        ctx.violation("C16.R2", "C16.R2|weight-prefix", "the weight parameter is not introduced by the literal `q=`")
                    elif not ows_free(tt[2][0])[0]:
                        ctx.violation("C16.R2", "C16.R2|weight-not-trimmed", "the weight parameter is not trimmed before `q=` is matched (whitespace after `;` would make the header unparseable)")
                    elif not ows_free(tt[2][0])[1]:
                        ctx.violation("C16.R2", "C16.R2|weight-not-trimmed-end", "the weight's end is not trimmed before it is parsed (whitespace before the next `,` would make the header unparseable)")
            from_parser = qfn in s
            if not from_parser and is_const(q):
                # the path may have tested the parsed weight against a constant (then the value is folded): accept if so
                from_parser = any(isinstance(t, tuple) and qfn in repr(t) and v == q[1] for t, v in o.cons.known.items())
            if not from_parser:
                ctx.violation("C16.R2", "C16.R2|weight-source", "a weighted element's quality does not come from the qvalue parser: %s" % short(q, 80))
    want = {"gzip", "identity", "*"}
    if set(slots) != want:
        ctx.violation("C16.R2", "C16.R2|codings", "the recognised coding literals are %s, expected exactly %s" % (sorted(slots), sorted(want)))
    elif len(set(slots.values())) != 3:
        ctx.violation("C16.R2", "C16.R2|slot-shared", "two codings share a slot: %r" % slots)
    else:
        ctx.ok("C16.R2", "codings gzip / identity / * each write their own slot with Some(weight)", detail={"rows": nrows})
    for key, init in entry.items():
        if not (is_agg(init) and init[3] == "None"):
            ctx.violation("C16.R2", "C16.R2|slot-init", "a weight slot is not None before the loop")
    # unparseable weight / absent header -> false
    for o in outs:
        if o.kind == "return" and not any(e["k"] == "loop_enter" for e in o.events):
            if o.value != const(0):
                ctx.violation("C16.R2", "C16.R2|early-true", "should_gzip answers %s before reading any element" % short(o.value, 40))
    nfalse = 0
    for o in outs:
        if o.kind == "return" and _turn_state(o) == "turn":
            nfalse += 1
            # a return from inside the element loop is only allowed when the element's weight is unparseable
            failed = any((isinstance(t, tuple) and v in ("None", "Err") and (qfn in repr(t) or "strip_prefix" in repr(t)[:200]))
                         for t, v in o.cons.variant.items())
            if o.value != const(0):
                ctx.violation("C16.R2", "C16.R2|unparseable-true", "should_gzip answers %s for a header with an unparseable element: gzip could be chosen for a client that did not allow it" % short(o.value, 20),
                              where=_row_where(o))
            if not failed:
                ctx.violation("C16.R2", "C16.R2|early-return", "should_gzip returns %s from inside the element loop although the element parsed: "
                              "elements later in the header can no longer override it (the answer depends on element order)" % short(o.value, 20),
                              where=_row_where(o))
    ctx.ok("C16.R2", "absent / non-ASCII header and unparseable weights answer false", detail={"rows": nfalse})
    ctx.floor("C16.R2", nrows, 6, what="per-element rows")
    return outs, slots, header


def _row_where(o):
    for e in reversed(o.events):
        if "span" in e:
            return F.loc(e["span"])
    return None


def _next_term(o):
    for e in o.events:
        if e["k"] == "call" and e["callee"].get("path") == "std::iter::Iterator::next":
            return e.get("result")
    return None


def _turn_state(o):
    """where a path that entered the element loop left it: "exit" (the iterator was exhausted: the loop-free tail follows) or
    "turn" (inside one element's turn) - for a `for` loop by the first `next()`, for a summarised try_fold / try_for_each by
    the outcome the model took"""
    if not any(e["k"] == "loop_enter" for e in o.events):
        return None
    for e in o.events:
        if e["k"] == "call" and e.get("label") in ("fold-exit", "fold-step"):
            return "exit" if e["label"] == "fold-exit" else "turn"
    v = o.cons.variant_of(_next_term(o))
    return {"None": "exit", "Some": "turn"}.get(v)


def r3_decision(ctx, sgn, outs, slots, header):
    exits = [o for o in outs if o.kind == "return" and _turn_state(o) == "exit"]
    trie = Trie(exits)
    vals = [None, 0, 1, 500, 1000]
    keyname = {v: k for k, v in slots.items()}
    n = bad = 0
    for g, i, s in itertools.product(vals, repeat=3):
        env = {"gzip": g, "identity": i, "*": s}

        def extra(ev, t, env=env):
            if t[0] == "loopvar" and t[3] in keyname:
                v = env[keyname[t[3]]]
                return Opt(v is not None, v)
            if t[0] == "field" and isinstance(t[1], tuple) and t[1][0] == "loopvar" and isinstance(t[1][3], tuple) and t[1][3][0] == "F" and ("F", 0, t[2]) in keyname:
                v = env[keyname[("F", 0, t[2])]]
                return Opt(v is not None, v)
            return NotImplemented

        def calls(name, args, term):
            last = name.split("::")[-1]
            if last == "next":
                return Opt(False)
            if last == "get":
                return Opt(True, "<header>")   # the header is present ...
            if last == "to_str":
                return ("Ok", "<text>")        # ... and visible ASCII on the rows that reach the final decision
            if last == "is_empty":
                return 0                       # ... and not empty (the abstract header lists at least the weighted codings)
            raise Stuck("call %s" % name)
        ev = Evaluator({}, calls=calls, extra=extra)
        try:
            hits = trie.select(ev)
            if len(hits) != 1:
                raise Stuck("%d rows" % len(hits))
            got = bool(ev.ev(hits[0].value))
        except Stuck as e:
            ctx.violation("C16.R3", "C16.R3|stuck", "UNRECOGNISED: the final decision cannot be evaluated (%s)" % e)
            return
        gq = g if g is not None else (s if s is not None else 0)
        iq = i if i is not None else (s if s is not None else 1)
        want = gq > 0 and gq >= iq
        n += 1
        if got != want:
            bad += 1
            ctx.violation("C16.R3", "C16.R3|decision|g=%s,i=%s,star=%s" % (_cls(g), _cls(i), _cls(s)),
                          "weights gzip=%s identity=%s *=%s: should_gzip answers %s, RFC 7231 5.3.4 gives %s" % (g, i, s, got, want))
    if bad == 0:
        ctx.ok("C16.R3", "final decision equals RFC 7231 5.3.4 on all 125 (gzip, identity, *) weight combinations")
    ctx.floor("C16.R3", n, 125, what="weight combinations evaluated")


def _cls(v):
    return "none" if v is None else ("0" if v == 0 else ("max" if v == 1000 else "mid"))


def r4_nopanic(ctx, sgn, qfn):
    for fn in (sgn, qfn):
        outs = ctx.px(fn, inline=lambda c, d: True, key="all")
        sites = CEN.census(ctx, outs)
        for key, s in sorted(sites.items()):
            if s.failed:
                ctx.violation("C16.R4", "C16.R4|" + key, "panic site in %s not discharged: %s (%s)" % (fn, s.failed[0][0], s.failed[0][1][:100]), where=F.loc(s.span))
            else:
                ctx.ok("C16.R4", key, detail=sorted(s.how), where=F.loc(s.span))


def run(ctx):
    sgn, qfn = find_fns(ctx)
    r1_qvalue(ctx, qfn)
    outs, slots, header = r2_slots(ctx, sgn, qfn)
    if len(slots) == 3:
        r3_decision(ctx, sgn, outs, slots, header)
    r4_nopanic(ctx, sgn, qfn)
    ctx.assume("u16::from_str accepts an optional '+' and ASCII digits up to 65535")
