"""Hand-written decimal parsers as verified units.

The range parser obtains its numbers from `u64::from_str` behind a digits-only guard.  A maintainer may replace that pair by
a single pass that accumulates the digits itself (`for b in s.bytes() { v = v.checked_mul(10)?.checked_add(b - b'0')?; }`, or
the same as a `try_fold`).  Such a function is recognised by its *type* (`fn(&str | &[u8]) -> Option<uN> | Result<uN, _>`,
reachable from the parser, reaching no FromStr) and must then be proven to be exactly the grammar's 1*DIGIT:

  entry       the accumulator starts at 0 and the loop runs over the bytes of the whole argument
  turn        every path that goes round the loop has established '0' <= b <= '9' for the byte b yielded in this turn (and only
              that byte was taken from the iterator) and leaves acc*10 + (b - '0'), computed without wrap-around, in the accumulator
  reject      every None / Err is justified by: the argument is empty | the byte is not a digit | acc*10 or + digit overflows
  accept      Some / Ok carries the accumulator, only when the iterator is exhausted and the argument is known non-empty

Together: the result is Some(n) iff the argument is 1*DIGIT denoting n <= MAX - what the guard + from_str pair computes.  The
loop is summarised (havoc + back-edge cut), try_fold through models.m_try_fold; nothing is executed.
A proven unit is not expanded by the parser analysis: its calls are the parser's "integer parse" events.
"""
import re
from ..px import const, is_const, is_agg, agg_get, mk_binop, TY, fmt_term
from .. import px as P
from .. import models as MM
from .common import reachable_bodies, short, known_empty, cons_zone

_SIG_RET = re.compile(r"^std::(option::Option<(u8|u16|u32|u64|usize|u128)>|result::Result<(u8|u16|u32|u64|usize|u128), )")


def _calls_fromstr(facts, name):
    for n in reachable_bodies(facts, [name]):
        for blk in facts.bodies[n]["blocks"]:
            t = blk["term"]
            if t and t["k"] == "call":
                c = t["callee"]
                for k in ("res_path", "path"):
                    nm = c.get(k) or ""
                    if nm.endswith("FromStr::from_str") or nm.endswith("::from_str") or nm == "core::str::<impl str>::parse" \
                            or nm.endswith("::from_str_radix"):
                        return True
    return False


def candidates(ctx, root):
    """crate-local functions reachable from `root` that turn one string / byte-slice argument into an optional unsigned
    integer without going through FromStr"""
    out = []
    for n in sorted(reachable_bodies(ctx.facts, [root])):
        if n == root:
            continue
        b = ctx.facts.bodies[n]
        if b.get("kind") not in (None, "fn") and b.get("kind") != "fn":
            continue
        if b["arg_count"] != 1:
            continue
        pty = b["locals"][1]["s"]
        rty = b["locals"][0]["s"]
        if pty.replace("'_ ", "").replace("'static ", "") not in ("&str", "&[u8]"):
            continue
        m = _SIG_RET.match(rty)
        if not m:
            continue
        if _calls_fromstr(ctx.facts, n):
            continue
        out.append((n, "Some" if "option::Option" in rty else "Ok", m.group(2) or m.group(3)))
    return out


def _strip_iter(t):
    """the sequence a byte iterator runs over: bytes(S) / into_iter(bytes(S)) -> S"""
    for _ in range(4):
        if isinstance(t, tuple) and t and t[0] == "call" and "IntoIterator" in t[1] and t[1].endswith("::into_iter") and len(t[2]) == 1:
            t = t[2][0]
        elif isinstance(t, tuple) and t and t[0] == "&":
            t = t[1]
        else:
            break
    if isinstance(t, tuple) and t and t[0] == "call" and t[1] == "core::str::<impl str>::bytes" and len(t[2]) == 1:
        s = t[2][0]
        return s[1] if isinstance(s, tuple) and s and s[0] == "&" else s
    return None


def _is_none(v, good):
    return is_agg(v) and v[3] in ("None", "Err") and v[3] != good


def prove(ctx, rule, name, good, ity):
    """-> True when `name` is proven to be the 1*DIGIT parser; every obligation is recorded under `rule`"""
    mx = (1 << {"u8": 8, "u16": 16, "u32": 32, "u64": 64, "usize": 64, "u128": 128}[ity]) - 1
    outs = ctx.px(name, inline=lambda c, d: True, key="decimal-unit", extra_models=MM.TRY_FOLD)
    S = ("deref", ("param", 1))
    tag = "%s|decimal" % name
    bad = []

    def fail(key, msg, o=None):
        bad.append(key)
        ctx.violation(rule, "%s|%s|%s" % (rule, name, key), "hand-written number parser %s: %s" % (name, msg))

    from . import accloop
    loops = accloop.loops_of(outs)
    if len(loops) != 1:
        fail("loops", "UNRECOGNISED: %d loops (expected one pass over the bytes)" % len(loops))
        return False
    LP = accloop.summarise(ctx, outs, next(iter(loops)))
    lfn, lbb = LP["fn"], LP["bb"]
    entry = LP["entry"]
    # ---- entry: accumulator and iterator
    acc_keys = [k for k, vs in entry.items() if vs == {const(0)} and (k[0] == "F" or (k[0] == "L" and not k[2] and
                ctx.facts.bodies[lfn]["locals"][k[1]]["s"] == ity))]
    if len(acc_keys) != 1:
        fail("accumulator", "UNRECOGNISED: no unique %s accumulator that starts at 0 (%s)" % (ity, sorted(map(str, entry))))
        return False
    ikey = LP["iter_key"]
    if ikey is None or len(entry.get(ikey, ())) != 1 or _strip_iter(next(iter(entry[ikey]))) is None:
        fail("iterator", "UNRECOGNISED: the loop does not run over `bytes()` of the argument")
        return False
    akey = acc_keys[0]
    src = _strip_iter(next(iter(entry[ikey])))
    if src != S:
        fail("source", "the digits are read from %s, not from the whole argument" % short(src, 60))
    acc = LP["lv"](akey)
    n_turn = n_rej = n_acc = 0
    why_seen = set()
    for T in LP["turns"]:
        o, entered, item, exhausted = T.o, T.entered, T.item, T.exhausted
        if entered and not LP["is_fold"] and len(T.nexts) > 1:
            fail("skips", "more than one byte is taken from the iterator in one turn", o)
            continue
        if item is not None:
            TY.setdefault(item, (8, False))
        z = cons_zone(o, terms=((item,) if item is not None else ()))
        digit = item is not None and z.entails("Le", const(48), item) and z.entails("Le", item, const(57))
        nondigit = item is not None and (z.entails("Lt", item, const(48)) or z.entails("Lt", const(57), item)
                                         or any(k == "eq" and v == 0 and isinstance(t, tuple) and t[0] == "call" and
                                                t[1].endswith("<impl u8>::is_ascii_digit") and t[2] and
                                                (t[2][0] == ("&", item) or t[2][0] == item) for k, t, v in o.cons.log))
        mul = mk_binop("Mul", acc, const(10))
        if o.kind == "backedge":
            if o.where != (lfn, lbb):
                fail("nested", "UNRECOGNISED: a back edge of another loop")
                continue
            n_turn += 1
            new = T.new.get(akey)
            if item is None or not digit:
                fail("turn-not-digit", "a byte that is not known to be '0'..='9' can be accumulated (turn value %s)" % short(new, 80))
                continue
            want = mk_binop("Add", mul, mk_binop("Sub", item, const(48)))
            if new != want:
                fail("turn-value", "one turn leaves %s in the accumulator, not acc*10 + (byte - '0')" % short(new, 100))
                continue
            if not (z.entails("Le", mul, const(mx)) and z.entails("Le", want, const(mx))):
                fail("turn-wraps", "acc*10 + digit is not known to stay within %s (unchecked arithmetic)" % ity)
                continue
            ctx.ok(rule, tag + "|turn: digit established, acc' = acc*10 + (b - '0') without wrap-around")
            continue
        if o.kind != "return":
            continue        # panics are the census's business
        v = o.value
        if _is_none(v, good):
            why = None
            if not entered and known_empty(o.cons.log, S):
                why = "empty"
            elif item is not None and nondigit:
                why = "non-digit"
            elif item is not None and digit and o.cons.known.get(("ovf", "Mul", acc, const(10))) == 1:
                why = "mul-overflow"
            elif item is not None and digit and o.cons.known.get(("ovf", "Add", mul, mk_binop("Sub", item, const(48)))) == 1:
                why = "add-overflow"
            if why is None:
                fail("reject-other", "a string can be rejected for a reason other than empty / non-digit / overflow")
                continue
            n_rej += 1
            why_seen.add(why)
            ctx.ok(rule, tag + "|reject: " + why)
            continue
        if is_agg(v) and v[3] == good:
            x = agg_get(v, "0")
            nonempty = any((k == "notin" and t == ("len", S) and 0 in vv) or
                           (k == "eq" and t == mk_binop("Eq", ("len", S), const(0)) and vv == 0) for k, t, vv in o.cons.log)
            if x != acc or not exhausted:
                fail("accept-early", "a number can be returned (%s) before every byte was examined" % short(x, 60))
                continue
            if not nonempty:
                fail("accept-empty", "the empty string can be accepted as a number")
                continue
            n_acc += 1
            ctx.ok(rule, tag + "|accept: the accumulator, iterator exhausted, argument non-empty")
            continue
        fail("result-shape", "UNRECOGNISED result %s" % short(v, 80))
    for k in ("empty", "non-digit", "mul-overflow", "add-overflow"):
        if k not in why_seen:
            fail("missing|" + k, "no rejecting path for: %s" % k)
    if not n_turn:
        fail("missing|turn", "no path goes round the digit loop")
    if not n_acc:
        fail("missing|accept", "no path returns a number")
    ctx.assume("str::bytes() yields the bytes of the string in order, each once (std documentation); a for loop / try_fold "
               "visits every item until the iterator is exhausted or the body leaves the loop")
    return not bad


def units(ctx, root, rule):
    """{fn: good-variant} of the proven decimal units reachable from root (violations recorded for unproven candidates)"""
    cache = getattr(ctx, "_decimal_units", None)
    if cache is None:
        cache = ctx._decimal_units = {}
    if (root, rule) in cache:
        return cache[(root, rule)]
    out = {}
    for name, good, ity in candidates(ctx, root):
        if prove(ctx, rule, name, good, ity):
            out[name] = good
    cache[(root, rule)] = out
    return out
