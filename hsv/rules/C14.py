"""C14 — validators exposed faithfully, round trip.  Decides over all exits of
`serve`: (R1) 200/206/304/412/416 carry `Accept-Ranges: bytes`, the ETag header
iff the entity has one with the entity's value unchanged, Date and Last-Modified
whenever the entity has a modification time; (R2) Last-Modified is
fmt(min(mtime, now)) and Date is fmt of the same `now`; (R3) Entity::add_headers
is applied once to 200 and to 206-without-If-Range responses and never to
304/412/416, and the crate's own file entity keeps the caller's header map and
appends every (name, value) of it (repeated names included); (R4) date conditions compare the modification time truncated to the
second (rows of C04.R1 with a sub-second mtime); (R5) the round-trip clauses are
rows of the C04 / C05 tables with the request validator equal to the served one
(reflexivity of the extracted comparator tables: weak(x,x) always, strong(x,x)
iff x is strong) and the tag-list tokeniser that has to find the served tag again in the
echoed list ends an element at the next quote - entity-tags have no escapes - (R5.list).  Does not decide: the clock; httpdate's formatting."""
from . import serve_model as SM
from . import C04
from . import etagcmp

CONFIGS_QUICK = ["dir"]


def r5_roundtrip(ctx):
    """reflexivity of the comparators actually used (read off their extracted tables)"""
    summ = getattr(ctx, "_c04_summ", {})      # the tag-list loop summaries computed by C04.r1_table (run just before)
    for fn, s in sorted(summ.items(), key=lambda kv: str(kv[0])):
        tab = etagcmp.table(ctx, s["cmpfn"])
        strong_refl = tab[('"x"', '"x"')] == 1
        weak_refl = tab[('W/"x"', 'W/"x"')] == 1
        if s["cmpkind"] == "weak":
            if strong_refl and weak_refl:
                ctx.ok("C14.R5", "If-None-Match with the served ETag matches (weak comparison is reflexive) -> 304")
            else:
                ctx.violation("C14.R5", "C14.R5|inm-reflexive", "the If-None-Match comparator does not equate a tag with itself")
        elif s["cmpkind"] == "strong":
            if strong_refl:
                ctx.ok("C14.R5", "If-Match with a served strong ETag matches (strong comparison is reflexive on strong tags) -> no 412")
            else:
                ctx.violation("C14.R5", "C14.R5|im-reflexive", "the If-Match comparator does not equate a strong tag with itself")
    ctx.floor("C14.R5", len(summ), 2, what="comparators used by the tag-list functions")


def run(ctx):
    M = SM.analyse(ctx)
    SM.fail_unrecognised(ctx, "C14.R1", M)
    SM.c14_matrix(ctx, M)
    SM.c14_clamp(ctx, M)
    SM.c14_entity_headers(ctx, M)
    # ... and the crate's own entity hands on every header it was constructed with
    from . import C18
    C18.headers_complete(ctx, "C14.R3.file")
    # R4: the date rows of the conditional table (includes sub-second modification times and the equal-second requests)
    C04.r1_table(ctx)
    r5_roundtrip(ctx)
    # ... and the served tag is found again in the list the client echoes: the tag-list tokeniser ends an element at the next
    # '"' (entity-tags know no escapes), skips only OWS and commas (C04.R5's rules, run here for the round-trip clause)
    from . import etaglist
    etaglist.tokeniser(ctx, "C14.R5.list")
    etaglist.list_constructor(ctx, "C14.R5.list")
    SM.c05_gate(ctx, M)
