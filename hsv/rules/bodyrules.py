"""Rules over the body module: the length-checking stream (decision table and
post-states), `Body::size_hint` / `is_end_stream` dispatch tables, one-shot bodies."""
from ..px import const, is_const, is_agg, agg_get, mk_binop, TY, fmt_term
from .. import px as P
from .. import facts as F
from .common import (where, short, final_read, self_field, entry_field, impl_fn, inherent_fn, poll_shape, cons_zone,
                     aggregates, calls_named, method_name, poll_shape_on)


def find_exactlen(ctx):
    """the struct wrapped around Entity::get_range results: (adt path, budget field, poll_next body, ctor body)"""
    from ..check import FailClosed
    cands = []
    for a in ctx.facts.adts.values():
        if not a["local"] or a["kind"] != "struct":
            continue
        fs = a["variants"][0]["fields"]
        if any("dyn futures_core::Stream" in f["ty"] or "dyn Stream" in f["ty"] for f in fs) and sum(1 for f in fs if f["ty"] == "u64") == 1:
            cands.append(a)
    if len(cands) != 1:
        raise FailClosed("length-checking stream struct (a boxed dyn Stream + one u64 budget) not found uniquely: %r" % [a["path"] for a in cands])
    a = cands[0]
    budget = [f["name"] for f in a["variants"][0]["fields"] if f["ty"] == "u64"][0]
    inner = [f["name"] for f in a["variants"][0]["fields"] if "Stream" in f["ty"]][0]
    pn = impl_fn(ctx, "futures_core::Stream", a["path"], "poll_next")
    if len(pn) != 1:
        raise FailClosed("no unique Stream::poll_next impl for %s" % a["path"])
    return a["path"], budget, inner, pn[0]


def exactlen_rows(ctx):
    adt, budget, inner, pn = find_exactlen(ctx)
    outs = ctx.px(pn, inline=lambda c, d: True, key="all")
    B = entry_field(budget)
    TY.setdefault(B, (64, False))
    rows = []
    for o in outs:
        if o.kind != "return":
            rows.append({"o": o, "kind": o.kind})
            continue
        # the inner poll
        pe = [e for e in o.events if e["k"] == "call" and e["callee"].get("path") == "futures_core::Stream::poll_next"]
        if len(pe) == 0:
            out_kind, payload = poll_shape(o.value)
            rows.append({"o": o, "kind": "return", "inner": "not-polled", "d": None, "out": out_kind, "payload": payload,
                         "budget_after": self_field(ctx, o, budget), "B": B, "poll_ev": {"span": ctx.facts.bodies[pn]["span"]}})
            continue
        if len(pe) != 1:
            rows.append({"o": o, "kind": "unrecognised", "why": "%d inner polls" % len(pe)})
            continue
        I = pe[0]["result"]
        iv = o.cons.variant_of(I)
        inner_kind, d = None, None
        if iv == "Pending":
            inner_kind = "Pending"
        elif iv == "Ready":
            opt = ("payload", I, "Ready", "0")
            ov = o.cons.variant_of(opt)
            if ov == "None":
                inner_kind = "None"
            elif ov == "Some":
                res = ("payload", opt, "Some", "0")
                rv = o.cons.variant_of(res)
                if rv in ("Ok", "Err"):
                    inner_kind = rv
                    d = ("payload", res, rv, "0")
        out_kind, payload = poll_shape_on(o, o.value)
        Bf = self_field(ctx, o, budget)
        rows.append({"o": o, "kind": "return", "inner": inner_kind, "d": d, "out": out_kind, "payload": payload, "budget_after": Bf,
                     "B": B, "poll_ev": pe[0]})
    return {"adt": adt, "budget": budget, "pn": pn, "rows": rows}


def chunk_len_term(o, d):
    """the term the code uses for the byte length of chunk d on this path: Buf::remaining(&d)"""
    for e in o.events:
        if e["k"] == "call" and e["callee"].get("path") == "bytes::Buf::remaining":
            a = e["snap"][0] if e["args"][0][0] == "ref" else e["args"][0]
            if a == d:
                t = e["result"]
                TY.setdefault(t, (64, False))
                return t
    return None


def exactlen_table(ctx, rule, eos_clause=False):
    """eos_clause (C12): additionally, an error of the entity's stream may not zero the budget - a zero budget is what the
    body reports as end-of-stream, and an error does not terminate the entity's stream, which the next poll consults again"""
    X = exactlen_rows(ctx)
    seen = {}
    for r in X["rows"]:
        o = r["o"]
        if r["kind"] in ("diverge",):
            if not cons_zone(o).feasible():
                ctx.ok(rule, "a panicking path (assertion) is infeasible: its condition contradicts the path's own relations", nontrivial=False)
                continue
            ctx.violation(rule, rule + "|panic-path", "a path of the length-checking stream's poll ends in a panic", where=None)
            continue
        if r["kind"] != "return":
            ctx.violation(rule, rule + "|" + r["kind"], "UNRECOGNISED path in the length-checking stream: %s" % r.get("why", r["kind"]))
            continue
        B, Bf = r["B"], r["budget_after"]
        ik, ok = r["inner"], r["out"]
        inst = "%s->%s" % (ik, ok)
        bad = None
        if ik == "not-polled":
            if ok in ("None", "Ok"):
                bad = ("the stream %s without consulting the entity's stream: an over-long entity stream (extra chunk exactly at the announced length) "
                       "would look like a complete body" % ("ends cleanly" if ok == "None" else "yields data"))
        elif ik is None:
            bad = "inner poll result not fully matched"
        elif ik == "Pending":
            if ok != "Pending":
                bad = "inner Pending must give Pending (gives %s)" % ok
            elif Bf != B:
                bad = "budget changed on Pending"
        elif ik == "Err":
            if ok != "Err":
                bad = "inner error must surface as an error (gives %s)" % ok
            elif eos_clause and Bf != B:
                z = cons_zone(o, terms=(B, Bf))
                if z.entails("Eq", Bf, const(0)) and not z.entails("Eq", B, const(0)):
                    bad = ("the budget is zeroed when the entity's stream reports an error: the body then says end-of-stream (exact hint 0) although an "
                           "error does not end the entity's stream - the next poll consults it again and passes on what it answers (a second "
                           "error, or a too-long verdict)")
        elif ik == "Ok":
            ln = chunk_len_term(o, r["d"])
            if ln is None:
                bad = "chunk passed on without measuring it (no Buf::remaining on the chunk)"
            else:
                z = cons_zone(o, terms=(B, ln))
                fits = z.entails("Le", ln, B)
                toolong = z.entails("Lt", B, ln)
                if fits:
                    inst = "Ok(fits)->%s" % ok
                    if ok != "Ok" or r["payload"] != r["d"]:
                        bad = "a fitting chunk must be passed on unchanged (gives %s)" % ok
                    else:
                        z2 = cons_zone(o, terms=(B, ln, Bf))
                        if not z2.entails("Eq", Bf, mk_binop("Sub", B, ln)):
                            bad = "budget after a fitting chunk is %s, not budget - len(chunk)" % short(Bf, 80)
                elif toolong:
                    inst = "Ok(too long)->%s" % ok
                    if ok != "Err":
                        bad = "a chunk longer than the budget must give an error (gives %s)" % ok
                    elif Bf != const(0):
                        bad = "budget after a too-long chunk is %s, not 0: a later poll could pass data on" % short(Bf, 80)
                else:
                    bad = "chunk outcome %s reached without comparing len(chunk) with the budget" % ok
        elif ik == "None":
            z = cons_zone(o, terms=(B,))
            zero = z.entails("Eq", B, const(0))
            nonzero = z.entails("Lt", const(0), B)
            if zero:
                inst = "None(budget=0)->%s" % ok
                if ok != "None":
                    bad = "inner end with nothing owed must end the stream (gives %s)" % ok
            elif nonzero:
                inst = "None(budget>0)->%s" % ok
                if ok != "Err":
                    bad = "inner end with bytes still owed must give an error, not %s" % ok
            else:
                bad = "inner end handled without testing the budget (gives %s)" % ok
        seen[inst] = seen.get(inst, 0) + 1
        if bad:
            ctx.violation(rule, "%s|%s" % (rule, inst), "length-checking stream, row %s: %s" % (inst, bad), where=where(r["poll_ev"]))
        else:
            ctx.ok(rule, "row %s" % inst, where=where(r["poll_ev"]))
            ctx.sample({"rule": rule, "row": inst, "budget_after": short(Bf, 60)})
    need = ["Pending->Pending", "Err->Err", "Ok(fits)->Ok", "Ok(too long)->Err", "None(budget=0)->None", "None(budget>0)->Err"]
    missing = [n for n in need if n not in seen]
    ctx.floor(rule, len(need) - len(missing), len(need), what="table rows %r" % need)
    return X


def exactlen_fused(ctx, rule):
    """C20.R3: from the post-state of every terminal row, with an inner stream that stays finished (None),
    only None / Err can follow, never data"""
    X = exactlen_rows(ctx)
    n = 0
    for r in X["rows"]:
        if r["kind"] != "return" or r["out"] not in ("Err", "None"):
            continue
        n += 1
        Bf = r["budget_after"]
        # next poll with inner None: rows None(budget=0)->None or None(budget>0)->Err, never Ok.  That is the table above;
        # the only way to yield data is an inner Ok chunk, which the premise (inner stays finished) excludes.
        ctx.ok(rule, "after %s->%s (budget %s): inner None can only give None/Err" % (r["inner"], r["out"], short(Bf, 30)))
    ctx.floor(rule, n, 3, what="terminal rows of the length-checking stream")


def error_injection(ctx, rule):
    """the two injected errors are boxed error structs converted with From<Box<dyn Error + Send + Sync>>"""
    X = exactlen_rows(ctx)
    n = 0
    for r in X["rows"]:
        if r["kind"] != "return" or r["out"] != "Err" or r["inner"] == "Err":
            continue
        n += 1
        p = r["payload"]
        okk = isinstance(p, tuple) and p[0] == "call" and p[1].endswith("From::from") and isinstance(p[2][0], tuple) and p[2][0][0] == "alloc"
        if okk:
            ctx.ok(rule, "injected error on row %s->Err is E::from(Box::new(..))" % r["inner"])
        else:
            ctx.violation(rule, "%s|%s" % (rule, r["inner"]), "injected error is not built with E::from(Box<dyn Error>): %s" % short(p, 100))
    ctx.floor(rule, n, 2, what="error-injecting rows")


def find_bodystream(ctx):
    from ..check import FailClosed
    adt, budget, inner, pn = find_exactlen(ctx)
    cands = [a for a in ctx.facts.adts.values() if a["local"] and a["kind"] == "enum" and
             any(any(f["ty"].startswith(adt) for f in v["fields"]) for v in a["variants"])]
    if len(cands) != 1:
        raise FailClosed("body stream enum not found uniquely")
    e = cands[0]
    pn2 = impl_fn(ctx, "futures_core::Stream", e["path"], "poll_next")
    if not pn2:
        # no hand-written Stream impl: the enum's poll function is the inherent method with a poll signature
        # (Pin<&mut Enum>, &mut Context) -> Poll<..>, whatever it is called (it may already wrap chunks as data frames)
        pn2 = [f["path"] for f in ctx.facts.fns.values()
               if not f.get("impl_trait") and f.get("kind") == "assocfn" and (f.get("impl_self") or "").split("<")[0] == e["path"]
               and f["path"] in ctx.facts.bodies and "mut std::task::Context<" in (f.get("sig") or "")
               and ") -> std::task::Poll<" in (f.get("sig") or "") and "fn(std::pin::Pin<&" in (f.get("sig") or "")]
        if len(pn2) > 1:
            raise FailClosed("several inherent poll functions on the body stream enum: %s" % pn2)
        if not pn2:
            # the variant dispatch written directly into the public body's `poll_frame` (one layer instead of two)
            for a in ctx.facts.adts.values():
                if a["local"] and a["kind"] == "struct" and "Proj" not in a["path"] and \
                        any(f["ty"].startswith(e["path"]) for f in a["variants"][0]["fields"]):
                    pn2 += impl_fn(ctx, "http_body::Body", a["path"], "poll_frame")
            if len(pn2) != 1:
                pn2 = []
    return e, pn2[0] if pn2 else None


def once_payload_kind(ctx, ty):
    """the one-shot variant's slot: an Option of the data type itself ("plain", an infallible one-shot) or of Result<data, _>
    ("result"); None for any other type"""
    from .common import option_payload_type
    p = option_payload_type(ctx, ty)
    if p is None:
        return None
    if p.startswith("std::result::Result<D"):
        return "result"
    if p == "D":
        return "plain"
    return None


def once_variants(ctx, e):
    return [v for v in e["variants"] if len(v["fields"]) == 1 and once_payload_kind(ctx, v["fields"][0]["ty"])]


def once_taken(ctx, rule):
    """the one-shot variant's payload is an Option that poll takes (so a second poll yields None)"""
    e, pn = find_bodystream(ctx)
    once = once_variants(ctx, e)
    if len(once) != 1 or pn is None:
        ctx.violation(rule, rule + "|shape", "UNRECOGNISED: no one-shot variant Option<Result<D, E>> in %s" % e["path"])
        return
    from .common import helper_inline
    outs = ctx.px(pn, inline=helper_inline(ctx, own=(e["path"],)), key="helpers")
    n = 0
    for o in outs:
        if o.kind != "return":
            continue
        # the slot is emptied (Option::take, mem::take, mem::replace(.., None)) and the old contents are what is returned
        takes = [ev for ev in o.events if ev["k"] == "write" and ev.get("via") in ("Option::take", "mem::take", "mem::replace")
                 and ((is_agg(ev.get("value")) and ev["value"][3] == "None") or (isinstance(ev.get("value"), tuple) and ev["value"][:1] == ("default",)))]
        if not takes:
            continue
        n += 1
        kind, payload = poll_shape(o.value)
        v = o.value
        old_vals = [ev.get("result") for ev in o.events if ev["k"] == "call" and ev.get("result") is not None and
                    (ev["callee"].get("path") or "") in ("std::option::Option::<T>::take", "std::mem::take", "std::mem::replace")]
        got = agg_get(v, "0") if is_agg(v) and v[3] == "Ready" else None
        plain = once_payload_kind(ctx, once[0]["fields"][0]["ty"]) == "plain"

        def same_item(g, ov):
            want = ("payload", ov, "Some", "0")
            if g == want:
                return True
            # the taken Result re-wrapped arm by arm on the way out (`.map(|r| r.map(Frame::data))`): Ok(x) -> Ok(x) or
            # Ok(data frame of x), Err(e) -> Err(e)
            if is_agg(g) and g[3] in ("Ok", "Err") and o.cons.variant_of(want) == g[3]:
                inner_, p_ = agg_get(g, "0"), ("payload", want, g[3], "0")
                if inner_ == p_ or (g[3] == "Ok" and isinstance(inner_, tuple) and inner_ and inner_[0] == "call" and
                                    inner_[1].endswith("Frame::<T>::data") and len(inner_[2]) == 1 and inner_[2][0] == p_):
                    return True
            # an infallible one-shot stores the data itself and wraps it on the way out: Some(Ok(data))
            return plain and is_agg(g) and g[3] == "Ok" and agg_get(g, "0") == want
        okk = got is not None and (got in old_vals or any(
            (is_agg(got) and got[3] == "Some" and same_item(agg_get(got, "0"), ov) and o.cons.variant_of(ov) == "Some") or
            (is_agg(got) and got[3] == "None" and o.cons.variant_of(ov) == "None") for ov in old_vals))
        if okk:
            ctx.ok(rule, "one-shot body: poll returns Ready(payload.take())", where=where(takes[0]))
        else:
            ctx.violation(rule, rule + "|not-taken", "the one-shot body's poll does not return the taken payload", where=where(takes[0]))
    ctx.floor(rule, n, 1, what="one-shot poll rows")


def body_hint_tables(ctx, r1, r3):
    """C12.R1 / R3: Body::size_hint and is_end_stream dispatch per body kind"""
    e, pn = find_bodystream(ctx)
    xadt, budget, inner, xpn = find_exactlen(ctx)
    from . import multipart as MP
    from . import chunker as CH
    sadt, sroles, spn = MP.find_stream(ctx)
    CR = CH.roles(ctx)
    # the public Body struct: local struct with a field of the stream enum type
    body = [a for a in ctx.facts.adts.values() if a["local"] and a["kind"] == "struct" and
            any(f["ty"].startswith(e["path"]) for f in a["variants"][0]["fields"]) and "Proj" not in a["path"]]
    body = [a for a in body if impl_fn(ctx, "http_body::Body", a["path"], "size_hint")]
    if len(body) != 1:
        ctx.violation(r1, r1 + "|body", "UNRECOGNISED: public Body type not found uniquely")
        return
    bp = body[0]["path"]
    kinds = {}
    for v in e["variants"]:
        ty = v["fields"][0]["ty"] if v["fields"] else ""
        if once_payload_kind(ctx, ty):
            kinds[v["name"]] = "once"
            once_plain = once_payload_kind(ctx, ty) == "plain"
        elif ty.startswith(xadt):
            kinds[v["name"]] = "exactlen"
        elif ty.startswith(sadt):
            kinds[v["name"]] = "multipart"
        elif ty.startswith(CR["reader"]):
            kinds[v["name"]] = "chunker"
    if set(kinds.values()) != {"once", "exactlen", "multipart", "chunker"}:
        ctx.violation(r1, r1 + "|variants", "UNRECOGNISED body stream variants: %r" % kinds)
        return
    sh = impl_fn(ctx, "http_body::Body", bp, "size_hint")[0]
    es = impl_fn(ctx, "http_body::Body", bp, "is_end_stream")[0]
    S0 = ("field", ("deref", ("param", 1)), "0")
    # --- size_hint
    outs = [o for o in ctx.px(sh, inline=lambda c, d: c.get("res_path") not in (CR["size_hint"],), key="hint") if o.kind == "return"]
    seen = set()
    for o in outs:
        var = o.cons.variant_of(S0)
        k = kinds.get(var)
        v = o.value
        exact = v[2][0] if isinstance(v, tuple) and v[0] == "call" and v[1].endswith("SizeHint::with_exact") else None
        pl = ("payload", S0, var, "0")
        if k == "once":
            pv = o.cons.variant_of(pl)
            if pv == "Some" and (once_plain or o.cons.variant_of(("payload", pl, "Some", "0")) == "Ok"):
                d = ("payload", pl, "Some", "0") if once_plain else ("payload", ("payload", pl, "Some", "0"), "Ok", "0")
                rem = None
                for ev in o.events:
                    if ev["k"] == "call" and ev["callee"].get("path") == "bytes::Buf::remaining":
                        a = ev["snap"][0] if ev["args"][0][0] == "ref" else ev["args"][0]
                        if a == d:
                            rem = ev["result"]
                okk = exact is not None and rem is not None and (exact == rem or (isinstance(exact, tuple) and exact[0] == "payload" and rem in exact[1][2]) or repr(rem) in repr(exact))
                seen.add("once-pending")
                if okk:
                    ctx.ok(r1, "one-shot with pending payload: exact remaining(payload)")
                else:
                    ctx.violation(r1, r1 + "|once-pending", "a one-shot body with a pending payload does not give the exact hint remaining(payload): %s" % short(v, 100))
            else:
                seen.add("once-other")
                if exact != const(0):
                    ctx.violation(r1, r1 + "|once-consumed", "a consumed / failed one-shot body gives %s, not exact 0" % short(v, 60))
                else:
                    ctx.ok(r1, "one-shot consumed/err: exact 0")
        elif k == "exactlen":
            seen.add(k)
            want = ("field", pl, budget)
            if exact != want:
                ctx.violation(r1, r1 + "|exactlen", "the length-checked body's hint is %s, not its owed-bytes field" % short(v, 80))
            else:
                ctx.ok(r1, "length-checked stream: exact owed bytes")
        elif k == "multipart":
            seen.add(k)
            okk = isinstance(exact, tuple) and ((exact[0] == "call" and exact[1].endswith("::%s" % sroles["remaining"])) or exact == ("field", pl, sroles["remaining"]))
            if okk and exact[0] == "call":
                # the accessor must return the owed-bytes field
                acc = exact[1]
                ao = [x for x in ctx.px(acc) if x.kind == "return"]
                okk = len(ao) == 1 and ao[0].value == ("field", ("deref", ("param", 1)), sroles["remaining"])
            if not okk:
                ctx.violation(r1, r1 + "|multipart", "the multipart body's hint is %s, not its owed-bytes field" % short(v, 80))
            else:
                ctx.ok(r1, "multipart stream: exact owed bytes")
        elif k == "chunker":
            seen.add(k)
            if not (isinstance(v, tuple) and v[0] == "call" and v[1] == CR["size_hint"]):
                ctx.violation(r1, r1 + "|chunker", "the streaming body's hint does not come from the chunk reader: %s" % short(v, 80))
            else:
                ctx.ok(r1, "chunk reader: delegated")
    ctx.floor(r1, len(seen), 5, what="size_hint rows (one-shot pending/consumed, length-checked, multipart, chunk reader)")
    # --- is_end_stream
    outs = [o for o in ctx.px(es, inline=lambda c, d: c.get("res_path") not in (CR["is_end_stream"],), key="end") if o.kind == "return"]
    seen = set()
    for o in outs:
        var = o.cons.variant_of(S0)
        k = kinds.get(var)
        v = o.value
        pl = ("payload", S0, var, "0")
        if is_const(v) and v[1] == 0:
            seen.add(k)
            ctx.ok(r3, "%s: false (always allowed)" % k)
            continue
        if k == "once":
            pv = o.cons.variant_of(pl)
            okk = (is_const(v) and v[1] == 1 and pv == "None")
            if okk:
                ctx.ok(r3, "one-shot: true only when the payload was taken")
            else:
                ctx.violation(r3, r3 + "|once", "a one-shot body reports end-of-stream while its payload is still pending (%s, payload %s)" % (short(v, 40), pv))
        elif k in ("exactlen", "multipart"):
            fld = ("field", pl, budget) if k == "exactlen" else None
            okk = False
            if isinstance(v, tuple) and v[0] == "binop" and v[1] == "Eq" and v[3] == const(0):
                lhs = v[2]
                if k == "exactlen":
                    okk = lhs == fld
                else:
                    okk = lhs == ("field", pl, sroles["remaining"]) or (isinstance(lhs, tuple) and lhs[0] == "call" and lhs[1].endswith("::%s" % sroles["remaining"]))
            if okk:
                ctx.ok(r3, "%s: true iff owed bytes == 0" % k)
            else:
                ctx.violation(r3, r3 + "|" + k, "the %s body's end-of-stream answer is %s, not `owed bytes == 0`" % (k, short(v, 80)))
        elif k == "chunker":
            if isinstance(v, tuple) and v[0] == "call" and v[1] == CR["is_end_stream"]:
                ctx.ok(r3, "chunk reader: delegated")
            else:
                ctx.violation(r3, r3 + "|chunker", "the streaming body's end-of-stream answer does not come from the chunk reader")
        seen.add(k)
    ctx.floor(r3, len(seen), 4, what="is_end_stream rows per body kind")


def body_constructors(ctx, rule):
    """C12.R5: construction sites of the body stream enum"""
    e, pn = find_bodystream(ctx)
    sites = aggregates(ctx.facts, e["path"])
    by = {}
    for b, i, st in sites:
        by.setdefault(st["rv"]["variant"], set()).add(b["name"])
    n = 0
    for var, fns in sorted(by.items()):
        for fn in sorted(fns):
            n += 1
            f = ctx.facts.fns.get(fn, {})
            ctx.ok(rule, "%s constructed in %s" % (var, fn))
    # the enum and the Body's field are not public
    vis = e.get("vis")
    if vis and vis.startswith("Public"):
        ctx.violation(rule, rule + "|public-enum", "the body stream enum is public: bodies can be constructed outside the crate")
    # (how many functions construct a variant is not a quality of the code: every variant has at least one construction site)
    ctx.floor(rule, len(by), len(e["variants"]), what="variants of the body stream enum with a construction site")


def exactlen_ctor_passthrough(ctx, rule):
    """the length-checking stream polls the entity's own stream: its constructor stores the given stream (through
    transparent wrappers only) and the given length; an adaptor in between (take_while, filter, map ...) could drop
    or rewrite items before the length check sees them"""
    adt, budget, inner, pn = find_exactlen(ctx)
    sites = aggregates(ctx.facts, adt)
    fns = sorted({b["name"] for b, i, st in sites})
    n = 0
    for fn in fns:
        b = ctx.facts.bodies[fn]
        params = {}
        for i in range(1, b["arg_count"] + 1):
            s = b["locals"][i]["s"]
            if s == "u64":
                params["len"] = ("param", i)
            elif "Stream" in s:
                params["stream"] = ("param", i)
        for o in ctx.px(fn):
            if o.kind != "return" or not is_agg(o.value):
                continue
            n += 1
            sv = agg_get(o.value, inner)
            bv = agg_get(o.value, budget)
            bad = []
            if sv != params.get("stream"):
                bad.append("the stream polled is %s, not the entity's stream as given" % short(sv, 100))
            if bv != params.get("len"):
                bad.append("the budget is %s, not the length given" % short(bv, 60))
            if bad:
                ctx.violation(rule, "%s|%s" % (rule, bad[0][:40]), "%s: %s" % (fn, "; ".join(bad)), where=F.loc(b["span"]))
            else:
                ctx.ok(rule, "%s stores the entity stream and the length unchanged" % fn)
    ctx.floor(rule, n, 1, what="constructor paths of the length-checking stream")


def layers_transparent(ctx, rule):
    """the layers between the length-checking streams and the consumer add and remove nothing: `Body::poll_frame` and the
    body stream enum's `poll_next` poll the wrapped stream exactly once on every path (they never answer from their own
    bookkeeping) and hand its answer on unchanged - Pending as Pending, the end as the end, an error as that error, a chunk
    as (a data frame of) that chunk. The one-shot variant, which wraps no stream, answers from its slot."""
    from .common import helper_inline
    e, pn = find_bodystream(ctx)
    once = [v["name"] for v in once_variants(ctx, e)]
    body = [a for a in ctx.facts.adts.values() if a["local"] and a["kind"] == "struct" and
            any(f["ty"].startswith(e["path"]) for f in a["variants"][0]["fields"]) and "Proj" not in a["path"]]
    pfs = []
    for a in body:
        pfs += impl_fn(ctx, "http_body::Body", a["path"], "poll_frame")
    if not pfs or pn is None:
        ctx.violation(rule, rule + "|shape", "UNRECOGNISED: no http_body::Body::poll_frame over the body stream enum %s" % e["path"])
        return
    nstream = len(e["variants"]) - len(once)
    for layer, fn in [("frame", f) for f in pfs] + [("stream", pn)]:
        outs = ctx.px(fn, inline=helper_inline(ctx, own=(e["path"],) + tuple(a["path"] for a in body)), key="helpers")
        polled = set()
        nrows = 0
        for o in outs:
            if o.kind != "return":
                if o.kind not in ("panic", "unreachable"):
                    ctx.violation(rule, rule + "|%s|exit" % layer, "%s leaves by a %s exit" % (fn, o.kind))
                continue
            nrows += 1
            polls = [ev for ev in o.events if ev["k"] == "call" and method_name(ev["callee"]) in ("poll_next", "poll_next_unpin", "poll_frame", "try_poll_next")
                     and (ev["callee"].get("res_path") or "") != pn]
            takes = [ev for ev in o.events if ev["k"] == "write" and ev.get("via") in ("Option::take", "mem::take", "mem::replace")]
            kind, payload = poll_shape(o.value)
            if len(polls) > 1:
                ctx.violation(rule, rule + "|%s|polled-twice" % layer, "%s polls the wrapped stream %d times on one path: an answer is dropped" % (fn, len(polls)),
                              where=where(polls[1]))
                continue
            if not polls:
                # only the one-shot variant may answer without polling: from its slot (C20.R2 reads how), or the end when the
                # slot is known to be empty
                slot_none = any(isinstance(t, tuple) and t and t[0] == "payload" and t[2] in once and vn == "None" for t, vn in o.cons.variant.items())
                slot_known = any(isinstance(t, tuple) and t and t[0] == "payload" and t[2] in once for t in o.cons.variant) or \
                    any(vn in once for vn in o.cons.variant.values())
                if takes and (slot_known or layer == "stream"):
                    ctx.ok(rule, "%s layer, one-shot row: answers from the slot it empties (%s)" % (layer, kind))
                elif slot_none and kind == "None":
                    ctx.ok(rule, "%s layer, one-shot row with an empty slot: the end" % layer)
                else:
                    ctx.violation(rule, rule + "|%s|unpolled|%s" % (layer, kind),
                                  "%s answers %s without polling the wrapped stream: what the stream would deliver next (data, an error, the "
                                  "too-short / too-long verdict) is lost" % (fn, kind if kind != "?" else short(o.value, 60)))
                continue
            ev = polls[0]
            r = ev["result"]
            polled.add(ev["callee"].get("res_path") or ev["callee"].get("path"))
            if o.value == r:
                ctx.ok(rule, "%s layer: returns the wrapped stream's answer itself" % layer, where=where(ev))
                continue
            pv = o.cons.variant_of(r)
            want = wantp = None
            if pv == "Pending":
                want = "Pending"
            elif pv == "Ready":
                p1 = ("payload", r, "Ready", "0")
                ov = o.cons.variant_of(p1)
                if ov == "None":
                    want = "None"
                elif ov == "Some":
                    p2 = ("payload", p1, "Some", "0")
                    rv = o.cons.variant_of(p2)
                    if rv in ("Ok", "Err"):
                        want, wantp = rv, ("payload", p2, rv, "0")
            if want is None:
                ctx.violation(rule, rule + "|%s|undecided" % layer, "UNRECOGNISED: %s returns %s without having inspected the wrapped stream's answer" % (fn, short(o.value, 80)),
                              where=where(ev))
                continue
            good = kind == want
            if good and want == "Err":
                good = payload == wantp
            if good and want == "Ok":
                good = payload == wantp or (isinstance(payload, tuple) and payload and payload[0] == "call" and payload[1].endswith("Frame::<T>::data") and
                                            len(payload[2]) == 1 and payload[2][0] == wantp)
            if good:
                ctx.ok(rule, "%s layer: the wrapped stream's %s is handed on as %s" % (layer, want, kind), where=where(ev))
            else:
                ctx.violation(rule, rule + "|%s|%s-as-%s" % (layer, want, kind),
                              "%s turns the wrapped stream's answer %s into %s" % (fn, want, kind if good or kind != want else "%s of something else (%s)" % (kind, short(payload, 60))),
                              where=where(ev))
        ctx.floor(rule, len(polled), nstream, what="wrapped stream types polled by the %s layer" % layer)
