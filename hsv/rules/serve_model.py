"""analysis of serve()/serve_inner (shared by C01-C06, C13-C15)"""
def c03_r5(ctx):
    pass
