"""Analysis of `serve` / its trait-object inner function (shared by C01-C06, C13-C15).

PX enumerates every path of the inner function (callees that take a response
Builder are expanded; the conditional-header function, the range parser and the
entity are uninterpreted atoms).  Each path becomes an *exit row*:
  status, ordered header list (name, value term), body kind, and the valuation of
  the recognised atoms (method tests, conditional result, If-Range gate, range
  resolution, estimate test ...).
Rules then read properties off the rows (typestate matrix, value identity of
Content-Length / Content-Range / get_range arguments, decision tables)."""
from ..px import const, is_const, is_agg, agg_get, mk_binop, TY, fmt_term
from ..zone import Zone
from .. import px as P
from .. import facts as F
from ..models import decode_template, payload
from .common import where, short, method_name, arg_type, aggregates

HDR = "http::header::"


def find_serve(ctx):
    from ..check import FailClosed
    cands = [f for f in ctx.facts.fns.values() if f["kind"] == "fn" and f["path"].split("::")[-1] == "serve" and f.get("vis") == "Public"]
    if len(cands) != 1:
        raise FailClosed("public entry point `serve` not found uniquely (%d candidates)" % len(cands))
    serve = cands[0]["path"]
    # the inner function: reachable from `serve` through crate-local calls, takes the request's method and header map, and
    # returns a crate-local enum one of whose variants carries a finished http::Response (the "instruction" for serve)
    from .common import reachable_bodies
    inner = []
    for n in sorted(reachable_bodies(ctx.facts, [serve])):
        b = ctx.facts.bodies[n]
        if b["kind"] not in ("fn", "assocfn") or n == serve:
            continue
        tys = [b["locals"][i]["s"] for i in range(1, b["arg_count"] + 1)]
        if not (any("http::Method" in x for x in tys) and any("HeaderMap" in x for x in tys)):
            continue
        a = ctx.facts.adts.get(b["locals"][0]["s"].split("<")[0])
        if a and a.get("local") and a["kind"] == "enum" and any(any(f["ty"].startswith("http::Response<") for f in v["fields"]) for v in a["variants"]):
            inner.append(n)
    if len(inner) != 1:
        raise FailClosed("expected one crate-local function (method, headers) -> instruction enum reachable from `serve`, found %r" % inner)
    return serve, inner[0]


def takes_builder(ctx, name):
    b = ctx.facts.bodies.get(name)
    if not b:
        return False
    return any("http::response::Builder" in b["locals"][i]["s"] for i in range(1, b["arg_count"] + 1))


def is_cast_helper(ctx, name):
    """a one-block function whose body is a single integer cast of its argument (e.g. usize -> u64)"""
    b = ctx.facts.bodies.get(name)
    if not b or b["arg_count"] != 1:
        return False
    blks = [x for x in b["blocks"] if not x["cleanup"]]
    if len(blks) != 1 or blks[0]["term"]["k"] != "return":
        return False
    sts = [s for s in blks[0]["stmts"] if s["k"] == "assign"]
    return len(sts) >= 1 and all(s["rv"]["k"] in ("cast", "use") for s in sts) and any(s["rv"]["k"] == "cast" for s in sts)


def hdr_name(t):
    if isinstance(t, tuple) and t[0] == "named":
        n = t[1]
        return n.split("::")[-1]
    if t == ("ENTITY",):
        return "ENTITY"
    return fmt_term(t)


def fmt_value(v):
    """decode a header value term -> dict(kind=..., ...)"""
    if not isinstance(v, tuple):
        return {"kind": "other", "term": v}
    if v[0] == "hv_static":
        return {"kind": "static", "text": v[1][1] if isinstance(v[1], tuple) and v[1][0] == "str" else None}
    if v[0] == "hv" and isinstance(v[1], tuple) and v[1][0] == "frozen":
        buf = v[1][1]
        pieces = []
        while isinstance(buf, tuple) and buf[0] == "appended":
            pieces.append(buf[2])
            buf = buf[1]
        pieces.reverse()
        if len(pieces) == 1 and pieces[0][0] == "fmt" and isinstance(pieces[0][1], tuple) and pieces[0][1][0] == "fmtargs":
            fa = pieces[0][1]
            tpl = decode_template(fa[1]) if isinstance(fa[1], str) else None
            args = list(fa[2])
            if tpl is not None:
                tpl, args = _fold_literal_args(tpl, args)
            return {"kind": "fmt", "template": tpl, "args": args, "cap": buf[2] if buf[0] == "newbuf" else None}
        return {"kind": "bytes", "pieces": pieces}
    if v[0] == "call" and v[1].endswith("fmt_http_date"):
        return {"kind": "httpdate", "time": v[2][0]}
    return {"kind": "term", "term": v}


def _fold_literal_args(tpl, args):
    """a `{}` whose argument is a string literal known on this path (Display of a constant &str) is part of the literal text"""
    out = []
    keep = []
    remap = {}
    for p in tpl:
        if p[0] == "arg" and p[1] < len(args):
            a = args[p[1]]
            if isinstance(a, tuple) and a[0] == "fmtarg" and a[1] == "display" and isinstance(a[3], tuple) and a[3][0] == "str":
                if out and out[-1][0] == "lit":
                    out[-1] = ("lit", out[-1][1] + a[3][1])
                else:
                    out.append(("lit", a[3][1]))
                continue
            if p[1] not in remap:
                remap[p[1]] = len(keep)
                keep.append(a)
            out.append(("arg", remap[p[1]]))
        else:
            if p[0] == "lit" and out and out[-1][0] == "lit":
                out[-1] = ("lit", out[-1][1] + p[1])
            else:
                out.append(p)
    if len(keep) != len(args) and any(i not in remap for i in range(len(args)) if not (
            isinstance(args[i], tuple) and args[i][0] == "fmtarg" and args[i][1] == "display" and isinstance(args[i][3], tuple) and args[i][3][0] == "str")):
        return tpl, args     # an argument is not referenced by the template: leave everything as it is
    return out, keep


def template_text(tpl):
    if tpl is None:
        return None
    return "".join(p[1] if p[0] == "lit" else "{}" for p in tpl)


def body_kind(b):
    if not isinstance(b, tuple):
        return {"kind": "?"}
    if b[0] == "call" and b[1].endswith("Body::<D, E>::empty"):
        return {"kind": "empty", "len": 0}
    if b[0] == "call" and "From<" in b[1] and "Body<" in b[1]:
        a = b[2][0]
        if isinstance(a, tuple) and a[0] in ("str", "bytes"):
            return {"kind": "literal", "len": len(a[1]), "text": a[1]}
        return {"kind": "once-dynamic", "arg": a}
    if is_agg(b) and b[2] and b[2].endswith("Body"):
        inner = agg_get(b, "0")
        if is_agg(inner):
            v = inner[3]
            els0 = agg_get(inner, "0")
            if isinstance(els0, tuple) and els0 and els0[0] == "call" and els0[1] in _EXACTLEN_CTORS:
                els = agg_get(inner, "0")
                if isinstance(els, tuple) and els[0] == "call" and els[1] in _EXACTLEN_CTORS:
                    budget, stream = els[2][0], els[2][1]
                    d = {"kind": "exactlen", "budget": budget, "stream": stream}
                    if isinstance(stream, tuple) and stream[0] == "call" and stream[1].endswith("get_range"):
                        d["range"] = stream[2][1]
                        d["entity"] = stream[2][0]
                    return d
                return {"kind": "exactlen-unrecognised", "term": els}
            if is_agg(els0) and els0[2] == "std::option::Option":
                return {"kind": "once-agg", "term": inner}
            return {"kind": "stream:" + str(v), "term": inner}
    return {"kind": "unrecognised", "term": b}


_EXACTLEN_CTORS = set()      # constructor functions of the length-checking stream (found by type in analyse())


class Row:
    pass


def atoms_of(ctx, o):
    """name the branch decisions of a path"""
    at = {}
    other = []
    c = o.cons
    for ent in c.log:
        kind, t, v = ent
        nm = atom_name(t)
        if nm is None:
            other.append((kind, t, v))
            continue
        if kind == "eq":
            at[nm] = v
        elif kind == "variant":
            at[nm] = v
        elif kind == "notvariant":
            at[nm] = ("not", v)
        elif kind == "notin":
            at[nm] = ("notin", v)
    return at, other


METHOD_PARAMS = set()
METHODS = {"http::Method::GET": "GET", "http::Method::HEAD": "HEAD"}


def _is_method_const(t):
    if isinstance(t, tuple) and t[0] == "named" and t[1] in METHODS:
        return METHODS[t[1]]
    return None


def atom_name(t):
    if not isinstance(t, tuple):
        return None
    k = t[0]
    if k == "eq":
        for a, b in ((t[1], t[2]), (t[2], t[1])):
            m = _is_method_const(b)
            if m:
                return "method==" + m
        return None
    if k == "field" and t[2] == "0" and isinstance(t[1], tuple) and t[1][0] == "deref" and t[1][1][0] == "param" \
            and t[1][1][1] in METHOD_PARAMS:
        return "method.inner"
    if k == "call":
        nm = t[1]
        if nm.endswith("HeaderMap::<T>::get"):
            h = t[2][1]
            if isinstance(h, tuple) and h[0] == "named":
                return "get(%s)" % h[1].split("::")[-1]
        if nm.endswith("Entity::etag"):
            return "etag"
        if nm.endswith("Entity::last_modified"):
            return "last_modified"
        if nm.endswith("::starts_with"):
            lit = t[2][1]
            if isinstance(lit, tuple) and lit[0] in ("refconst", "&"):
                lit = lit[1]
            if isinstance(lit, tuple) and lit[0] in ("str", "bytes"):
                return "starts_with(%r)" % lit[1]
            return "starts_with(?)"
        for key, label in (("strong_eq", "strong_eq"), ("weak_eq", "weak_eq")):
            if nm.endswith(key):
                return label
        return "call:" + nm.split("::")[-1]
    if k == "payload":
        inner = atom_name(t[1])
        if inner:
            return "%s.%s" % (inner, t[3])
    if k == "field":
        inner = atom_name(t[1])
        if inner:
            return "%s.%s" % (inner, t[2])
    if k == "binop":
        return None
    if k == "discr":
        inner = atom_name(t[1])
        if inner:
            return inner
    return None


def typed_leaves(ctx, v, depth=0):
    """[(declared field type, term)] of an aggregate of a crate-local type, looking through nested crate-local records"""
    out = []
    a = ctx.facts.adts.get(v[2]) if is_agg(v) and v[1] == "adt" else None
    if not a or not a.get("local") or depth > 3:
        return [("?", v)]
    var = None
    for vv in a["variants"]:
        if a["kind"] != "enum" or vv["name"] == v[3]:
            var = vv
    if var is None:
        return [("?", v)]
    tys = {f["name"]: f["ty"] for f in var["fields"]}
    for name, x in v[4]:
        ty = tys.get(name, "?")
        sub = ctx.facts.adts.get(ty.split("<")[0])
        if is_agg(x) and x[1] == "adt" and sub and sub.get("local") and sub["kind"] == "struct":
            out += typed_leaves(ctx, x, depth + 1)
        else:
            out.append((ty, x))
    return out


def analyse(ctx):
    if hasattr(ctx, "_serve_model"):
        return ctx._serve_model
    serve, inner = find_serve(ctx)
    # crate-local helpers are expanded (builder-taking helpers, cast helpers, anything a maintainer extracts); the units
    # with rules of their own stay calls: the conditional-header function, the range parser, the tag comparators
    from .common import helper_inline
    from . import rangeparse as RP
    never = set(RP.find_parser(ctx)[2])
    never_parsers = frozenset(never)
    for n_, b_ in ctx.facts.bodies.items():
        rs = b_["locals"][0]["s"]
        if n_ in cond_fns(ctx):
            never.add(n_)
        if rs == "bool" and b_["arg_count"] == 2 and all(b_["locals"][i]["s"].endswith("[u8]") for i in (1, 2)):
            never.add(n_)
    inl0 = helper_inline(ctx, never=never)
    from . import bodyrules as _BR
    xadt = _BR.find_exactlen(ctx)[0]
    # crate-private constructors of the public body type (`Body::exact_len(len, stream)`, `Body::multipart(..)`) are wrappers
    # around the stream constructors: expanded, so that what they build is seen where it is built
    try:
        _benum = _BR.find_bodystream(ctx)[0]["path"]
        _body_ty = {a["path"] for a in ctx.facts.adts.values() if a["local"] and a["kind"] == "struct" and
                    any(f["ty"].startswith(_benum) for f in a["variants"][0]["fields"]) and "Proj" not in a["path"]}
    except Exception:
        _body_ty = set()
    _body_ctors = {n_ for n_, b_ in ctx.facts.bodies.items() if b_["kind"] in ("fn", "assocfn") and b_["locals"][0]["s"].split("<")[0] in _body_ty and
                   (ctx.facts.fns.get(n_, {}).get("impl_self") or "").split("<")[0] in _body_ty and not ctx.facts.fns.get(n_, {}).get("impl_trait") and
                   ctx.facts.fns.get(n_, {}).get("vis") != "Public"}

    def inl(c, d, inl0=inl0, _body_ctors=_body_ctors):
        return inl0(c, d) or (c.get("res_path") in _body_ctors)
    _EXACTLEN_CTORS.clear()
    for n_, b_ in ctx.facts.bodies.items():
        f_ = ctx.facts.fns.get(n_, {})
        if b_["kind"] in ("fn", "assocfn") and b_["locals"][0]["s"].split("<")[0] == xadt and (f_.get("impl_self") or "").split("<")[0] == xadt and not f_.get("impl_trait"):
            _EXACTLEN_CTORS.add(n_)
    ib = ctx.facts.bodies[inner]
    METHOD_PARAMS.clear()
    for i in range(1, ib["arg_count"] + 1):
        if "http::Method" in ib["locals"][i]["s"]:
            METHOD_PARAMS.add(i)
    outs = ctx.px(inner, inline=inl, key="builder-takers")
    ctx.assume("http::Method::GET / HEAD are Method(Inner::Get) / Method(Inner::Head) and Method equality is structural: paths on which `== Method::HEAD` "
               "and the `Inner::Head` discriminant test disagree are infeasible and dropped")
    rows = []
    for o in outs:
        if o.kind != "return":
            r = Row()
            r.o, r.kind, r.ok = o, o.kind, False
            rows.append(r)
            continue
        r = Row()
        r.o = o
        r.kind = "return"
        r.ok = True
        v = o.value
        r.variant = v[3] if is_agg(v) else None
        r.atoms, r.other = atoms_of(ctx, o)
        mi = r.atoms.get("method.inner")
        # what the path knows about the method: from `== Method::GET/HEAD` tests and from the discriminant of Method's inner enum
        # (a `match *method { Method::GET | Method::HEAD => .. }` is lowered to the latter)
        inner_is = mi if isinstance(mi, str) else None
        inner_not = set(mi[1]) if isinstance(mi, tuple) and mi and mi[0] in ("not", "notin") and isinstance(mi[1], (tuple, list, set)) else \
            ({mi[1]} if isinstance(mi, tuple) and mi and mi[0] in ("not", "notin") else set())
        facts_m = {}
        for name, variant in (("GET", "Get"), ("HEAD", "Head")):
            eqv = r.atoms.get("method==" + name)
            vals = set()
            if eqv is not None:
                vals.add(bool(eqv))
            if inner_is is not None:
                vals.add(inner_is == variant)
            elif variant in inner_not:
                vals.add(False)
            facts_m[name] = vals
        if any(len(v) > 1 for v in facts_m.values()) or (facts_m["GET"] == {True} and facts_m["HEAD"] == {True}):
            continue    # contradictory under the stated assumption: infeasible
        # refinement ABS (proven on the parser each run): with no header to parse, the range parser answers one fixed variant
        # ("ignore"); a path that hands it an absent header and continues with another answer is infeasible
        absent = RP.absent_variants(ctx)
        if absent:
            infeasible = False
            for e in o.events:
                if e["k"] == "call" and e["callee"].get("res_path") in never_parsers and e["args"]:
                    a0 = e["args"][0]
                    gone = (is_agg(a0) and a0[3] == "None") or (isinstance(a0, tuple) and not is_agg(a0) and o.cons.variant_of(a0) == "None")
                    rv = o.cons.variant_of(e.get("result")) if e.get("result") is not None else None
                    if gone and rv is not None and rv not in absent:
                        infeasible = True
            if infeasible:
                continue
        if facts_m["GET"] == {True}:
            r.method = "GET"
        elif facts_m["HEAD"] == {True}:
            r.method = "HEAD"
        elif facts_m["GET"] == {False} and facts_m["HEAD"] == {False}:
            r.method = "OTHER"
        else:
            r.method = "?"
        r.multipart = None
        resp = None
        # the instruction's kind by what it carries, not by its name: a finished http::Response, or a response Builder plus
        # the pieces of a multipart body (possibly grouped in a private record)
        leaves = typed_leaves(ctx, v) if is_agg(v) else []
        is_simple = len(leaves) == 1 and is_agg(leaves[0][1]) and leaves[0][1][2] == "http::Response" or \
            (len(leaves) == 1 and leaves[0][0].startswith("http::Response<"))
        is_multi = any(isinstance(x, tuple) and x and x[0] == "builder" for _, x in leaves) or any(ty == "http::response::Builder" for ty, _ in leaves)
        if is_simple:
            resp = leaves[0][1]
            if not (is_agg(resp) and resp[2] == "http::Response"):
                r.ok = False
                r.why = "response is not built from a recognised Builder chain: %s" % short(resp, 200)
                rows.append(r)
                continue
            st = agg_get(resp, "status")
            r.status = 200 if st == ("default_status",) else (st[1] if is_const(st) else st)
            hd = agg_get(resp, "headers")
            if not (isinstance(hd, tuple) and hd and hd[0] == "hdrs"):
                r.ok = False
                r.why = "the response's header map is modified in a way the model does not follow (not Builder::header / insert / append / the entity's add_headers): %s" % short(hd, 160)
                rows.append(r)
                continue
            r.headers = [(hdr_name(h[0]), h[1], h[2]) for h in hd[1]]
            r.body = body_kind(agg_get(resp, "body"))
        elif is_multi:
            def leaf(pred):
                xs = [x for ty, x in leaves if pred(ty)]
                return xs[0] if len(xs) == 1 else None
            b = leaf(lambda ty: ty == "http::response::Builder")
            if not (isinstance(b, tuple) and b[0] == "builder"):
                r.ok = False
                r.why = "multipart response builder not recognised: %s" % short(b, 200)
                rows.append(r)
                continue
            r.status = 200 if b[1] is None else (b[1][1] if is_const(b[1]) else b[1])
            r.headers = [(hdr_name(h[0]), h[1], h[2]) for h in b[2]]
            r.body = {"kind": "multipart", "part_headers": leaf(lambda ty: "Vec<std::vec::Vec<u8>>" in ty),
                      "ranges": leaf(lambda ty: "Vec<std::ops::Range<u64>>" in ty), "len": leaf(lambda ty: ty == "u64")}
            r.tainted = b[3]
        else:
            r.ok = False
            r.why = "return value is not a recognised instruction variant: %s" % short(v, 200)
        rows.append(r)
    M = {"serve": serve, "inner": inner, "rows": rows, "outs": outs}
    ctx._serve_model = M
    bad = [r for r in rows if not r.ok]
    return M


def hdr_names(r):
    return [h[0] for h in r.headers]


def get_hdr(r, name):
    return [h for h in r.headers if h[0] == name]


def fail_unrecognised(ctx, rule, M):
    n = 0
    for r in M["rows"]:
        if not r.ok:
            n += 1
            if r.kind != "return":
                if r.kind in ("diverge", "infeasible", "unreachable"):
                    continue
                if r.kind == "backedge":
                    # one turn of a loop (in an expanded callee, or in the serve function itself, e.g. a size estimate written
                    # as a loop): everything the loop writes is havocked at its header, so the rows that leave the loop already
                    # cover every number of turns - a turn that touched the response would surface there as an unknown value
                    continue
                ctx.violation(rule, rule + "|path-" + r.kind, "a path of the serve inner function ends in %s" % r.kind)
            else:
                ctx.violation(rule, rule + "|unrecognised-exit", "UNRECOGNISED exit: %s" % r.why)
    return n


# ------------------------------------------------------------------ helpers over rows

ALLOWED_STATUS = {200, 206, 304, 400, 405, 412, 413, 416}


def ok_rows(M):
    return [r for r in M["rows"] if r.ok]


def events(r, pred):
    return [e for e in r.o.events if e["k"] == "call" and pred(e)]


def callee_last(e):
    return (e["callee"].get("res_path") or e["callee"].get("path") or "").split("::")[-1]


def dyn_entity_calls(r):
    return events(r, lambda e: (e["callee"].get("path") or "").startswith("Entity::"))


def cond_fns(ctx):
    """the conditional-header function(s): crate-local fn taking (the entity's ETag, the request headers, the modification
    time) and returning Result<decision, message>; the decision is the pair (precondition failed, not modified) or a
    crate-local enum with three field-less variants"""
    cache = ctx.__dict__.setdefault("_cond_fns", None)
    if cache is not None:
        return cache
    out = {}
    for n, b in ctx.facts.bodies.items():
        if b["kind"] not in ("fn", "assocfn"):
            continue
        tys = [b["locals"][i]["s"] for i in range(1, b["arg_count"] + 1)]
        rs = b["locals"][0]["s"]
        # (the ETag may arrive as &Option<HeaderValue>, Option<&HeaderValue> or as its bytes Option<&[u8]>)
        if not (any("HeaderMap" in x for x in tys) and any("SystemTime" in x for x in tys) and
                any("HeaderValue" in x or x == "std::option::Option<&[u8]>" for x in tys)):
            continue
        if not rs.startswith("std::result::Result<"):
            continue
        inner = rs[len("std::result::Result<"):].rsplit(", ", 1)[0]
        if inner == "(bool, bool)":
            out[n] = ("pair", None)
        else:
            a = ctx.facts.adts.get(inner.split("<")[0])
            if a and a.get("local") and a["kind"] == "enum" and len(a["variants"]) == 3 and all(not v["fields"] for v in a["variants"]):
                out[n] = ("enum", a["path"])
    ctx.__dict__["_cond_fns"] = out
    return out


def cond_fn_event(ctx, r):
    """the call to the conditional-header function"""
    cf = cond_fns(ctx)
    for e in r.o.events:
        if e["k"] == "call" and e["callee"].get("res_path") in cf:
            return e
    return None


def cond_decisions(ctx, M):
    """for an enum-valued conditional function: which variant means 412 / 304 / proceed, read off what `serve` does with it
    (the variant all of whose rows answer 412, resp. 304; the remaining one)"""
    if "cond_decisions" in M:
        return M["cond_decisions"]
    by = {}
    for r in ok_rows(M):
        e = cond_fn_event(ctx, r)
        if e is None or cond_fns(ctx).get(e["callee"].get("res_path"), ("pair",))[0] != "enum":
            continue
        res = e.get("result")
        if r.o.cons.variant_of(res) != "Ok":
            continue
        v = r.o.cons.variant_of(("payload", res, "Ok", "0"))
        by.setdefault(v, set()).add(r.status)
    d = {}
    for v, sts in by.items():
        if v is None:
            continue
        if sts == {412}:
            d[v] = "412"
        elif sts == {304}:
            d[v] = "304"
        else:
            d[v] = "proceed"
    M["cond_decisions"] = d
    return d


def parser_event(ctx, r):
    from . import rangeparse as RP
    _, _, fns, _ = RP.find_parser(ctx)
    for e in r.o.events:
        if e["k"] == "call" and e["callee"].get("res_path") in fns:
            return e
    return None


def cond_state(ctx, r):
    """-> ('err'|'ok', pf, nm) or None if the function was not called on this path"""
    e = cond_fn_event(ctx, r)
    if e is None:
        return None
    res = e.get("result")
    v = r.o.cons.variant_of(res)
    if v == "Err":
        return ("err", None, None)
    tup = ("payload", res, "Ok", "0")
    if cond_fns(ctx).get(e["callee"].get("res_path"), ("pair",))[0] == "enum":
        M = getattr(ctx, "_serve_model", None)
        dec = cond_decisions(ctx, M).get(r.o.cons.variant_of(tup)) if M else None
        if dec is None:
            return ("ok", None, None)
        return ("ok", int(dec == "412"), int(dec == "304"))
    pf = r.o.cons.known.get(("field", tup, "0"))
    nm = r.o.cons.known.get(("field", tup, "1"))
    return ("ok", pf, nm)


def fmt_arg_values(fv):
    out = []
    for a in fv.get("args", []):
        if isinstance(a, tuple) and a[0] == "fmtarg":
            out.append((a[1], a[2], a[3]))
        else:
            out.append(("?", "?", a))
    return out


def entity_len_term(r):
    for e in r.o.events:
        if e["k"] == "call" and e["callee"].get("path") == "Entity::len":
            return e.get("result")
    return None


def strip_uid(headers):
    return [(h[0], h[1]) for h in headers]


def row_where(r):
    # last branch site of the path as a location hint
    for e in reversed(r.o.events):
        if "span" in e:
            return F.loc(e["span"])
    return None


# ------------------------------------------------------------------ C13.R2 / R3

def c13_status_set(ctx, M):
    seen = {}
    for r in ok_rows(M):
        seen[r.status] = seen.get(r.status, 0) + 1
    for s, n in sorted(seen.items(), key=lambda kv: str(kv[0])):
        if s in ALLOWED_STATUS:
            ctx.ok("C13.R2", "status %s" % s, detail={"rows": n})
        else:
            ctx.violation("C13.R2", "C13.R2|status|%s" % (s,), "serve can answer with status %s, outside {200,206,304,400,405,412,413,416}" % (s,))
    ctx.floor("C13.R2", len(seen), 6, confirmed=8, what="distinct statuses over all exits")


def c13_method_gate(ctx, M):
    n405 = 0
    for r in ok_rows(M):
        if r.status == 405:
            n405 += 1
            if r.method != "OTHER":
                ctx.violation("C13.R3", "C13.R3|405-for-%s" % r.method, "405 is returned on a path where the method is %s" % r.method, where=row_where(r))
            allow = get_hdr(r, "ALLOW")
            txt = (fmt_value(allow[0][1]).get("text") or "") if allow else ""
            if not allow or "get" not in txt.lower() or "head" not in txt.lower():
                ctx.violation("C13.R3", "C13.R3|allow", "the 405 response lacks an Allow header naming GET and HEAD (found %r)" % txt, where=row_where(r))
            else:
                ctx.ok("C13.R3", "405 Allow=%r" % txt)
            if dyn_entity_calls(r):
                ctx.violation("C13.R3", "C13.R3|entity-before-gate", "the entity is consulted (%s) before a non-GET/HEAD method is rejected" %
                              callee_last(dyn_entity_calls(r)[0]), where=where(dyn_entity_calls(r)[0]))
        elif r.method == "OTHER":
            ctx.violation("C13.R3", "C13.R3|other-method-%s" % r.status, "a method other than GET/HEAD reaches a %s response" % r.status, where=row_where(r))
        elif r.method == "?":
            ctx.violation("C13.R3", "C13.R3|ungated", "an exit (status %s) is reachable without the method having been tested against GET and HEAD" % r.status, where=row_where(r))
    ctx.floor("C13.R3", n405, 1, what="405 exits")
    if n405:
        ctx.ok("C13.R3", "405 iff method not in {GET, HEAD}", detail={"rows_405": n405})


# ------------------------------------------------------------------ C01.R1 / R2

def c01_typestate(ctx, M):
    n2xx = nother = 0
    for r in ok_rows(M):
        cl = get_hdr(r, "CONTENT_LENGTH")
        if r.status in (200, 206):
            n2xx += 1
            if len(cl) != 1:
                ctx.violation("C01.R1", "C01.R1|content-length|%s|%s|%d" % (r.status, r.body["kind"], len(cl)),
                              "a %s exit (%s body, %s) carries %d Content-Length headers; exactly one is required" % (r.status, r.body["kind"], r.method, len(cl)),
                              where=row_where(r))
        else:
            nother += 1
            if r.body["kind"] not in ("empty", "literal", "once-dynamic"):
                ctx.violation("C01.R1", "C01.R1|non-2xx-streams|%s" % r.status,
                              "a %s exit has a %s body: only one-shot bodies advertise an exact size without Content-Length" % (r.status, r.body["kind"]), where=row_where(r))
            if cl:
                fv = fmt_value(cl[0][1])
                okv = False
                if r.body["kind"] in ("empty", "literal") and fv["kind"] == "static":
                    okv = fv.get("text") == str(r.body["len"])
                if not okv:
                    ctx.violation("C01.R1", "C01.R1|cl-on-%s" % r.status, "a %s exit sets a Content-Length that is not the literal body's length" % r.status, where=row_where(r))
    ctx.ok("C01.R1", "2xx exits carry exactly one Content-Length", detail={"rows": n2xx})
    ctx.ok("C01.R1", "non-2xx exits use one-shot bodies", detail={"rows": nother})
    ctx.floor("C01.R1", n2xx, 4, what="200/206 exit rows")


def cl_value_term(r):
    cl = get_hdr(r, "CONTENT_LENGTH")
    if len(cl) != 1:
        return None, "no single Content-Length"
    fv = fmt_value(cl[0][1])
    if fv["kind"] != "fmt" or template_text(fv["template"]) != "{}":
        return None, "Content-Length is not formatted from one integer with `{}` (found %s)" % (template_text(fv.get("template")) if fv["kind"] == "fmt" else fv["kind"])
    args = fmt_arg_values(fv)
    if len(args) != 1 or args[0][0] != "display" or args[0][1] not in ("u64", "usize"):
        return None, "Content-Length argument is not a Display of an unsigned integer"
    return args[0][2], None


def c01_single_source(ctx, M):
    n = 0
    for r in ok_rows(M):
        if r.status not in (200, 206) or r.body["kind"] == "multipart":
            continue
        if r.body["kind"] not in ("exactlen", "empty"):
            ctx.violation("C01.R2", "C01.R2|body-kind|%s" % r.body["kind"],
                          "a %s exit streams entity data through %s, not through the length-checked stream" % (r.status, r.body["kind"]), where=row_where(r))
            continue
        if r.body["kind"] != "exactlen":
            continue
        n += 1
        v, why = cl_value_term(r)
        if v is None:
            ctx.violation("C01.R2", "C01.R2|cl-shape", why, where=row_where(r))
            continue
        budget = r.body["budget"]
        rng = r.body.get("range")
        if rng is None:
            ctx.violation("C01.R2", "C01.R2|stream-source", "the length-checked stream does not wrap Entity::get_range", where=row_where(r))
            continue
        rl = range_len(rng)
        bad = []
        if v != budget:
            bad.append("Content-Length value %s differs from the stream budget %s" % (short(v, 80), short(budget, 80)))
        if rl is None or not same_len(budget, rl):
            bad.append("stream budget %s is not end-start of the range %s passed to get_range" % (short(budget, 80), short(rng, 80)))
        if bad:
            ctx.violation("C01.R2", "C01.R2|mismatch|%s" % r.status, "; ".join(bad), where=row_where(r))
    ctx.ok("C01.R2", "Content-Length == ExactLen budget == |get_range argument|", detail={"rows": n})
    ctx.floor("C01.R2", n, 2, what="GET rows with a streamed body")


def range_parts(rng):
    """(start, end) terms of a Range<u64> value term"""
    if is_agg(rng) and rng[2] and rng[2].endswith("ops::Range"):
        return agg_get(rng, "start"), agg_get(rng, "end")
    return ("field", rng, "start"), ("field", rng, "end")


def range_len(rng):
    s, e = range_parts(rng)
    return mk_binop("Sub", e, s)


def same_len(a, b):
    if a == b:
        return True
    return False


# ------------------------------------------------------------------ C02.R2

def c02_content_range(ctx, M):
    n206 = n200 = 0
    for r in ok_rows(M):
        if r.body["kind"] == "multipart" or r.status not in (200, 206):
            continue
        cr = get_hdr(r, "CONTENT_RANGE")
        pe = parser_event(ctx, r)
        L = entity_len_term(r)
        if r.status == 206 and any(h[0] == "CONTENT_TYPE" and "multipart" in str(fmt_value(h[1]).get("text")) for h in r.headers):
            continue  # HEAD twin of the multipart response (C06)
        if r.status == 200:
            n200 += 1
            if cr:
                ctx.violation("C02.R2", "C02.R2|cr-on-200", "a 200 exit carries Content-Range", where=row_where(r))
            if r.body["kind"] == "exactlen":
                s, e = range_parts(r.body["range"])
                if not (s == const(0) and L is not None and e == L):
                    ctx.violation("C02.R2", "C02.R2|200-range", "a 200 body is fetched with get_range(%s..%s), not 0..len()" % (short(s, 60), short(e, 60)), where=row_where(r))
            continue
        n206 += 1
        if len(cr) != 1:
            ctx.violation("C02.R2", "C02.R2|206-without-cr", "a single-range 206 exit carries %d Content-Range headers" % len(cr), where=row_where(r))
            continue
        fv = fmt_value(cr[0][1])
        tt = template_text(fv.get("template")) if fv["kind"] == "fmt" else None
        if tt != "bytes {}-{}/{}":
            ctx.violation("C02.R2", "C02.R2|cr-template", "Content-Range template is %r, expected 'bytes {}-{}/{}'" % tt, where=row_where(r))
            continue
        args = fmt_arg_values(fv)
        if pe is None or L is None:
            ctx.violation("C02.R2", "C02.R2|206-no-parser", "a 206 exit is reached without the range parser / entity length", where=row_where(r))
            continue
        if pe["args"][1] != L:
            ctx.violation("C02.R2", "C02.R2|parser-len", "the range parser is not given the entity length", where=where(pe))
        # the range: for GET rows the get_range argument; for HEAD rows the value the headers were computed from
        bad = []
        a0, a1, a2 = (a[2] for a in args)
        if any(a[0] != "display" or a[1] != "u64" for a in args):
            bad.append("Content-Range arguments are not Display of u64")
        if a2 != L:
            bad.append("complete-length %s is not Entity::len()" % short(a2, 60))
        # a1 must be (x.end - 1) and a0 x.start for one range value x that comes out of the parser's list
        x_end = None
        if isinstance(a1, tuple) and a1[0] == "binop" and a1[1] == "Sub" and a1[3] == const(1):
            x_end = a1[2]
        if x_end is None:
            bad.append("last-byte-pos %s is not `end - 1`" % short(a1, 60))
        else:
            xs = owner_of(a0, "start")
            xe = owner_of(x_end, "end")
            if xs is None or xe is None or xs != xe:
                bad.append("first-byte-pos and last-byte-pos are not the start/end of one range value")
            else:
                if not from_parser(xs, pe.get("result")):
                    bad.append("the range shown in Content-Range does not come from the resolved range list")
                if r.body["kind"] == "exactlen":
                    gs, ge = range_parts(r.body["range"])
                    if not (gs == a0 and ge == x_end):
                        bad.append("get_range is called with %s..%s but Content-Range shows %s..%s" % (short(gs, 40), short(ge, 40), short(a0, 40), short(x_end, 40)))
        if bad:
            ctx.violation("C02.R2", "C02.R2|206|%s" % bad[0].split(" ")[0], "; ".join(bad), where=row_where(r))
    ctx.ok("C02.R2", "single 206: Content-Range = (x.start, x.end-1, len) of the fetched x", detail={"rows": n206})
    ctx.ok("C02.R2", "200: no Content-Range, body = get_range(0..len)", detail={"rows": n200})
    ctx.floor("C02.R2", n206, 2, what="single-range 206 rows")


def owner_of(t, field):
    if isinstance(t, tuple) and t[0] == "field" and t[2] == field:
        return t[1]
    return None


def from_parser(x, parser_result, depth=0):
    """does value x derive (by indexing / deref / clone) from the parser's Satisfiable payload?"""
    if x == parser_result:
        return True
    if not isinstance(x, tuple) or depth > 12:
        return False
    items = x[1:] if isinstance(x[0], str) else x
    return any(from_parser(i, parser_result, depth + 1) for i in items if isinstance(i, tuple))


# ------------------------------------------------------------------ C03.R5 dispatch

def estimate_closure_info(ctx, inner):
    """analyse the fold closure of the multipart estimate: returns (constant c, ok, why)"""
    # closures of the inner function that are passed to try_fold / fold
    b = ctx.facts.bodies[inner]
    cands = []
    for i, t in ctx.facts.calls(b):
        p = t["callee"].get("path", "")
        if p.endswith("Iterator::try_fold") or p.endswith("Iterator::fold"):
            cands.append(t)
    return cands


def c03_r5(ctx):
    M = analyse(ctx)
    from . import rangeparse as RP
    adt, variant, fns, _ = RP.find_parser(ctx)
    nrows = {"None": 0, "NotSatisfiable": 0, "single": 0, "multi-mp": 0, "multi-200": 0}
    for r in ok_rows(M):
        pe = parser_event(ctx, r)
        if pe is None:
            continue
        res = pe["result"]
        v = r.o.cons.variant_of(res)
        L = entity_len_term(r)
        if v == "None":
            nrows["None"] += 1
            if r.status != 200:
                ctx.violation("C03.R5", "C03.R5|ignored-range-status|%s" % r.status, "an ignored Range header leads to status %s, not 200" % r.status, where=row_where(r))
        elif v == "NotSatisfiable":
            nrows["NotSatisfiable"] += 1
            bad = []
            if r.status != 416:
                bad.append("status %s instead of 416" % r.status)
            cr = get_hdr(r, "CONTENT_RANGE")
            if len(cr) != 1:
                bad.append("%d Content-Range headers" % len(cr))
            else:
                fv = fmt_value(cr[0][1])
                tt = template_text(fv.get("template")) if fv["kind"] == "fmt" else None
                args = fmt_arg_values(fv) if fv["kind"] == "fmt" else []
                if tt != "bytes */{}":
                    bad.append("Content-Range template %r is not 'bytes */{}'" % tt)
                elif len(args) != 1 or args[0][2] != L or args[0][0] != "display":
                    bad.append("Content-Range complete-length is %s, not Entity::len()" % short(args[0][2] if args else None, 60))
            if r.body["kind"] != "empty":
                bad.append("416 body is %s" % r.body["kind"])
            if bad:
                ctx.violation("C03.R5", "C03.R5|416|%s" % bad[0].split(" ")[0], "unsatisfiable ranges: " + "; ".join(bad), where=row_where(r))
        elif v == variant:
            # single vs multiple: the decision on the list length
            lens = [(t, val) for t, val in r.o.cons.known.items() if isinstance(t, tuple) and t[0] == "len" and from_parser(t, res)]
            single = any(val == 1 for _, val in lens)
            if single:
                nrows["single"] += 1
                if r.status != 206 or r.body["kind"] not in ("exactlen", "empty"):
                    ctx.violation("C03.R5", "C03.R5|single-not-206", "one satisfiable range gives status %s / %s body" % (r.status, r.body["kind"]), where=row_where(r))
            else:
                is_mp = r.body["kind"] == "multipart" or any(h[0] == "CONTENT_TYPE" for h in r.headers) or r.status == 413
                if is_mp:
                    nrows["multi-mp"] += 1
                else:
                    nrows["multi-200"] += 1
                    if r.status != 200:
                        ctx.violation("C03.R5", "C03.R5|multi-fallback-status", "several ranges without multipart give status %s, not a complete 200" % r.status, where=row_where(r))
    for k, n in nrows.items():
        ctx.ok("C03.R5", "dispatch rows: %s" % k, detail={"rows": n}, nontrivial=n > 0)
    ctx.floor("C03.R5", min(nrows.values()), 1, what="each of the five dispatch outcomes has rows (%r)" % nrows)
    c03_estimate(ctx, M)


def c03_estimate(ctx, M):
    """multipart iff estimate < L, estimate = sum(c + (end-start)) with checked adds, 0 <= c <= 160 (`<`) or 1 <= c (`<=`)"""
    inner = M["inner"]
    # find the fold closure: a closure body of `inner` with two non-env params (acc, &Range)
    from .common import reachable_bodies
    reach = reachable_bodies(ctx.facts, [inner])
    clos = [n for n, b in ctx.facts.bodies.items() if n in reach and b["kind"] == "closure" and b["arg_count"] == 3
            and b["locals"][2]["s"] == "u64" and "Range<u64>" in b["locals"][3]["s"]]
    if not clos:
        # no fold closure: the estimate may be written as an explicit loop (in the serve function or in a helper it calls)
        return c03_estimate_loop(ctx, M)
    if len(clos) != 1:
        ctx.violation("C03.R5", "C03.R5|estimate-closure", "UNRECOGNISED: expected one fold closure (acc, &Range<u64>) in %s, found %d" % (inner, len(clos)))
        return
    cname = clos[0]
    outs = ctx.px(cname, inline=lambda c, d: True, key="all")
    acc = ("param", 2)
    TY.setdefault(acc, (64, False))
    consts = set()
    okshape = True
    why = ""
    early_caps = set()
    for o in outs:
        if o.kind != "return":
            continue
        v = o.value
        # `.filter(|&a| a < len)`: Some(sum) while a condition holds, None otherwise - stop adding once the sum has reached the
        # bound (sound for the decision because the sum never decreases); the condition is on the path (`sum OP bound` known)
        var = o.cons.variant_of(v) if not is_agg(v) else v[3]
        val0 = agg_get(v, "0") if is_agg(v) and var == "Some" else (("payload", v, "Some", "0") if var == "Some" else None)
        stop = None
        for k_, t_, vv_ in o.cons.log:
            if k_ == "eq" and isinstance(t_, tuple) and t_[0] == "binop" and t_[1] in ("Lt", "Le") and find_const_addend(t_[2], acc) is not None:
                if var == "Some" and vv_ == 1:
                    early_caps.add((t_[1], t_[3]))
                    if val0 is not None and not is_agg(v):
                        val0 = t_[2]       # the kept receiver: its payload is the sum the condition was asked about
                elif var == "None" and vv_ == 0:
                    stop = ("optif", t_, t_[2])
        cases = [(var, val0, stop)]
        for var, val, stop in cases:
            if var == "Some":
                # expect acc + c + (r.end - r.start)
                c = find_const_addend(val, acc)
                if c is None:
                    okshape = False
                    why = "Some(%s) is not acc + c + (end - start)" % short(val, 100)
                else:
                    consts.add(c)
            elif var == "None":
                # giving up is justified by an overflowing addition, or by the sum having reached a bound (which must be the
                # entity length, checked at the call site below)
                ovf = any(k == "eq" and vv == 1 and isinstance(t_, tuple) and t_[0] == "ovf" and t_[1] == "Add" for k, t_, vv in o.cons.log)
                if stop is not None:
                    cnd = stop[1]
                    if isinstance(cnd, tuple) and cnd[0] == "binop" and cnd[1] in ("Lt", "Le") and cnd[2] == stop[2] and find_const_addend(cnd[2], acc) is not None:
                        early_caps.add((cnd[1], cnd[3]))
                    else:
                        okshape = False
                        why = "the fold stops early on a condition that is not `sum < bound`: %s" % short(cnd, 100)
                elif not ovf:
                    okshape = False
                    why = "the fold gives up (None) for a reason other than an overflowing addition"
            else:
                okshape = False
                why = "UNRECOGNISED fold result %s" % short(v, 80)
    if not okshape or len(consts) != 1:
        ctx.violation("C03.R5", "C03.R5|estimate-shape", "UNRECOGNISED multipart estimate: %s" % (why or "constants %r" % sorted(consts)), where=F.loc(ctx.facts.bodies[cname]["span"]))
        return
    c = next(iter(consts))
    # an early stop must be against the entity length, with the same relation as the final comparison (checked below)
    for op_, cap in sorted(early_caps, key=str):
        okcap = False
        if isinstance(cap, tuple) and cap[0] == "deref" and isinstance(cap[1], tuple) and cap[1][0] == "field":
            cname_ = cap[1][2]
            for r in ok_rows(M):
                for e in r.o.events:
                    if e["k"] == "call" and (e["callee"].get("path") or "").endswith("Iterator::try_fold") and len(e["args"]) == 3 and is_agg(e["args"][2]) \
                            and e["args"][2][2] == cname:
                        cv = dict(e["args"][2][4]).get(cname_)
                        if isinstance(cv, tuple) and cv and cv[0] == "ref":
                            cv = r.o.state.env.get(cv[1]) if not cv[2] else None
                        okcap = cv is not None and cv == entity_len_term(r)
                        if not okcap:
                            break
                if okcap:
                    break
        if not okcap:
            ctx.violation("C03.R5", "C03.R5|estimate-early-stop", "the estimate fold stops early against %s, which is not the entity length" % short(cap, 60),
                          where=F.loc(ctx.facts.bodies[cname]["span"]))
            return
    # the comparison: rows where the estimate is compared with L
    rel = None
    for r in ok_rows(M):
        for t, val in r.o.cons.known.items():
            if isinstance(t, tuple) and t[0] == "binop" and t[1] in ("Lt", "Le", "Gt", "Ge") and \
                    ((isinstance(t[2], tuple) and "try_fold" in fmt_term(t[2])[:40]) or (isinstance(t[3], tuple) and "try_fold" in fmt_term(t[3])[:40])):
                L = entity_len_term(r)
                op, a, b = t[1], t[2], t[3]
                if b == L and op in ("Lt", "Le"):
                    rel = op
                elif a == L and op in ("Gt", "Ge"):
                    rel = {"Gt": "Lt", "Ge": "Le"}[op]
                else:
                    rel = "?"
                mp = r.body["kind"] == "multipart" or any(h[0] == "CONTENT_TYPE" for h in r.headers) or r.status == 413
                if rel in ("Lt", "Le") and bool(val) != mp:
                    ctx.violation("C03.R5", "C03.R5|estimate-branch", "multipart is chosen on the wrong side of the estimate comparison", where=row_where(r))
    # stopping when !(sum OP' len) is sound for the final test `sum OP len` iff it implies that no later (larger) sum passes it:
    # OP = `<` allows OP' in {<, <=}; OP = `<=` allows only `<=`
    if any(not (op_ == rel or (rel == "Lt" and op_ == "Le")) for op_, _ in early_caps):
        ctx.violation("C03.R5", "C03.R5|estimate-early-stop", "the estimate fold stops early on `sum %s len`, which can cut off a sum the final comparison (%s) would accept" %
                      (sorted(op_ for op_, _ in early_caps), rel), where=F.loc(ctx.facts.bodies[cname]["span"]))
        return
    good = (rel == "Lt" and 0 <= c <= 160) or (rel == "Le" and 1 <= c <= 160)
    if good:
        ctx.ok("C03.R5", "multipart iff sum(%d + |r|) %s len" % (c, "<" if rel == "Lt" else "<="), detail={"constant": c, "relation": rel})
    else:
        ctx.violation("C03.R5", "C03.R5|estimate-family", "multipart decision `sum(%s + |r|) %s len` is outside the family implied by the statement "
                      "(0 <= c <= 160 with <, or 1 <= c <= 160 with <=)" % (c, rel), where=F.loc(ctx.facts.bodies[cname]["span"]))


def c03_estimate_loop(ctx, M):
    """the multipart estimate written as an explicit loop over the resolved ranges (rules/accloop.py reads the summarised
    loop): starts at 0, each turn adds c + (end - start) of the range yielded in that turn with checked additions, the loop is
    left early only on overflow (and then the whole entity is served), and after the last range the sum is compared with len"""
    from . import accloop
    from . import rangeparse as RP
    U64 = (1 << 64) - 1
    outs = [r.o for r in M["rows"]]
    cands = []
    for lp in sorted(accloop.loops_of(outs), key=str):
        LP = accloop.summarise(ctx, outs, lp)
        ik = LP["iter_key"]
        if ik is None or ik[0] != "L":
            continue
        ity = ctx.facts.bodies[lp[0]]["locals"][ik[1]]["s"]
        if "Range<u64>" not in ity:
            continue
        accs = []
        for k, vs in LP["entry"].items():
            if k[0] != "L" or k[2] or len(vs) != 1:
                continue
            v0 = next(iter(vs))
            lty = ctx.facts.bodies[lp[0]]["locals"][k[1]]["s"]
            if lty == "u64" and v0 == const(0):
                accs.append((k, False))
            elif lty == "std::option::Option<u64>" and is_agg(v0) and v0[3] == "Some" and agg_get(v0, "0") == const(0):
                accs.append((k, True))
        if len(accs) == 1:
            cands.append((LP, accs[0]))
    if len(cands) > 1:
        # other sums over the ranges exist (the exact body length adds each part's *header length*): the estimate is the one
        # that adds a constant per range
        def est_like(LP, ak):
            akey, optional = ak
            a0 = LP["lv"](akey)
            a0 = ("payload", a0, "Some", "0") if optional else a0
            for T in LP["turns"]:
                if T.o.kind == "backedge" and T.o.where == (LP["fn"], LP["bb"]):
                    nv = T.new.get(akey)
                    if optional:
                        nv = agg_get(nv, "0") if is_agg(nv) and nv[3] == "Some" else None
                    if find_const_addend(nv, a0) is not None:
                        return True
            return False
        cands = [(LP, ak) for LP, ak in cands if est_like(LP, ak)]
    if len(cands) != 1:
        ctx.violation("C03.R5", "C03.R5|estimate-closure", "UNRECOGNISED: no fold closure (acc, &Range<u64>) and %d loops over the resolved ranges "
                      "with one u64 accumulator that starts at 0" % len(cands))
        return
    LP, (akey, optional) = cands[0]
    lfn, lbb = LP["fn"], LP["bb"]
    lvacc = LP["lv"](akey)
    acc = ("payload", lvacc, "Some", "0") if optional else lvacc
    TY.setdefault(acc, (64, False))
    adt, variant, pfns, _ = RP.find_parser(ctx)
    bad = False
    # the loop runs over the parser's resolved list
    for v0 in LP["entry"][LP["iter_key"]]:
        src = v0
        for _ in range(6):
            if isinstance(src, tuple) and src and src[0] == "call" and len(src[2]) == 1 and (src[1].endswith("::into_iter") or src[1].endswith("::iter")):
                src = src[2][0]
            elif isinstance(src, tuple) and src and src[0] in ("&", "slice_of", "deref", "refconst"):
                src = src[1]
            else:
                break
        if not (isinstance(src, tuple) and src and src[0] == "payload" and src[2] == variant and isinstance(src[1], tuple) and src[1][0] == "call" and src[1][1] in pfns):
            ctx.violation("C03.R5", "C03.R5|estimate-source", "the estimate loop does not run over the whole resolved range list (%s)" % short(src, 80))
            bad = True
    consts = set()
    n_turn = 0
    rel = None
    for T in LP["turns"]:
        if not T.entered:
            continue
        o = T.o
        if len(T.nexts) > 1:
            ctx.violation("C03.R5", "C03.R5|estimate-skips", "the estimate loop takes more than one range per turn")
            bad = True
            continue
        if o.kind == "backedge" and o.where == (lfn, lbb):
            n_turn += 1
            new = T.new.get(akey)
            if optional:
                new = agg_get(new, "0") if is_agg(new) and new[3] == "Some" else None
            c = find_const_addend(new, acc)
            rng = None
            if c is not None:
                q = new[3] if owner_of(new[3][2] if isinstance(new[3], tuple) and len(new[3]) > 2 else None, "end") is not None else new[2]
                rng = owner_of(q[2], "end")
            if c is None or T.item is None or rng not in (T.item, ("deref", T.item)):
                ctx.violation("C03.R5", "C03.R5|estimate-shape", "UNRECOGNISED multipart estimate: one turn leaves %s, not acc + c + (end - start) of this turn's range" % short(new, 100))
                bad = True
                continue
            z = Zone(_all_cons(o), extra_terms=(new,))
            if not z.entails("Le", new, const(U64)):
                ctx.violation("C03.R5", "C03.R5|estimate-wraps", "the estimate's additions are not checked (the sum can wrap around)")
                bad = True
                continue
            consts.add(c)
            continue
    if bad:
        return
    if len(consts) != 1 or not n_turn:
        ctx.violation("C03.R5", "C03.R5|estimate-shape", "UNRECOGNISED multipart estimate: constants %r over %d turns" % (sorted(consts), n_turn))
        return
    c = next(iter(consts))
    # leaving the loop: exhausted -> the sum is compared with len; early -> only on overflow, and then never multipart
    n_cmp = 0
    for r in ok_rows(M):
        T = next((t_ for t_ in LP["turns"] if t_.o is r.o), None)
        if T is None or not T.entered:
            continue
        mp = r.body["kind"] == "multipart" or any(h[0] == "CONTENT_TYPE" for h in r.headers) or r.status == 413
        if not T.exhausted:
            ovf = any(k == "eq" and v == 1 and isinstance(t_, tuple) and t_[0] == "ovf" and t_[1] == "Add" and
                      (t_[2] == acc or (isinstance(t_[2], tuple) and t_[2][:3] == ("binop", "Add", acc))) for k, t_, v in r.o.cons.log)
            none_acc = optional and r.o.cons.variant_of(lvacc) == "None"
            if not (ovf or none_acc):
                ctx.violation("C03.R5", "C03.R5|estimate-early-exit", "the estimate loop can be left before the last range for a reason other than overflow", where=row_where(r))
            elif mp:
                ctx.violation("C03.R5", "C03.R5|estimate-branch", "multipart is chosen although the estimate overflowed", where=row_where(r))
            continue
        L = entity_len_term(r)
        found = None
        for t_, val in r.o.cons.known.items():
            if isinstance(t_, tuple) and t_[0] == "binop" and t_[1] in ("Lt", "Le") and acc in (t_[2], t_[3]):
                op, a, b = t_[1], t_[2], t_[3]
                if a == acc and b == L:
                    found = (op, val)
                elif b == acc and a == L:
                    found = ({"Lt": "Le", "Le": "Lt"}[op], 1 - val)       # L < acc  ==  !(acc <= L)
                else:
                    found = ("?", val)
        if found is None:
            if optional and r.o.cons.variant_of(lvacc) == "None":
                if mp:
                    ctx.violation("C03.R5", "C03.R5|estimate-branch", "multipart is chosen although the estimate overflowed", where=row_where(r))
                continue
            ctx.violation("C03.R5", "C03.R5|estimate-uncompared", "a multi-range response is decided without comparing the estimate with the entity length", where=row_where(r))
            continue
        n_cmp += 1
        op, val = found
        if op == "?":
            rel = "?"
            continue
        rel = op if rel in (None, op) else "?"
        if bool(val) != mp:
            ctx.violation("C03.R5", "C03.R5|estimate-branch", "multipart is chosen on the wrong side of the estimate comparison", where=row_where(r))
    good = (rel == "Lt" and 0 <= c <= 160) or (rel == "Le" and 1 <= c <= 160)
    if good and n_cmp:
        ctx.ok("C03.R5", "multipart iff sum(%d + |r|) %s len (explicit loop in %s)" % (c, "<" if rel == "Lt" else "<=", lfn), detail={"constant": c, "relation": rel})
    else:
        ctx.violation("C03.R5", "C03.R5|estimate-family", "multipart decision `sum(%s + |r|) %s len` is outside the family implied by the statement "
                      "(0 <= c <= 160 with <, or 1 <= c <= 160 with <=)" % (c, rel))


def _all_cons(o):
    cc = P.Cons()
    cc.rel = list(o.cons.rel)
    return cc


def find_const_addend(val, acc):
    """val == acc + c + (x.end - x.start)  -> c"""
    if not isinstance(val, tuple) or val[0] != "binop" or val[1] != "Add":
        return None
    a, b = val[2], val[3]
    for p, q in ((a, b), (b, a)):
        if isinstance(q, tuple) and q[0] == "binop" and q[1] == "Sub" and owner_of(q[2], "end") is not None and owner_of(q[2], "end") == owner_of(q[3], "start"):
            # p == acc + c
            if p == acc:
                return 0
            if isinstance(p, tuple) and p[0] == "binop" and p[1] == "Add" and p[2] == acc and is_const(p[3]):
                return p[3][1]
    return None


# ------------------------------------------------------------------ C04.R6 order of exits

def c04_exit_order(ctx, M):
    n412 = n304 = n400 = 0
    for r in ok_rows(M):
        cs = cond_state(ctx, r)
        pe = parser_event(ctx, r)
        if cs is None:
            if r.status != 405:
                ctx.violation("C04.R6", "C04.R6|no-cond|%s" % r.status, "a %s exit is reached without evaluating the conditional headers" % r.status, where=row_where(r))
            continue
        kind, pf, nm = cs
        if kind == "err":
            n400 += 1
            if r.status != 400:
                ctx.violation("C04.R6", "C04.R6|err-status", "unparseable conditional headers give %s, not 400" % r.status, where=row_where(r))
            continue
        if pf is None:
            ctx.violation("C04.R6", "C04.R6|pf-unused", "an exit (%s) does not depend on the precondition result" % r.status, where=row_where(r))
            continue
        if pf == 1:
            n412 += 1
            if r.status != 412:
                ctx.violation("C04.R6", "C04.R6|pf-not-412", "a failed precondition gives %s, not 412" % r.status, where=row_where(r))
            if pe is not None:
                ctx.violation("C04.R6", "C04.R6|range-before-412", "ranges are resolved although the precondition failed", where=where(pe))
            continue
        if nm is None:
            ctx.violation("C04.R6", "C04.R6|nm-unused", "an exit (%s) does not depend on the not-modified result" % r.status, where=row_where(r))
            continue
        if nm == 1:
            n304 += 1
            if r.status != 304:
                ctx.violation("C04.R6", "C04.R6|nm-not-304", "not-modified gives %s, not 304" % r.status, where=row_where(r))
            if pe is not None:
                ctx.violation("C04.R6", "C04.R6|range-before-304", "ranges are resolved although the response is 304", where=where(pe))
            continue
        if r.status in (412, 304):
            ctx.violation("C04.R6", "C04.R6|spurious-%s" % r.status, "status %s although neither decision demands it" % r.status, where=row_where(r))
    ctx.ok("C04.R6", "412 before 304 before range handling", detail={"rows_412": n412, "rows_304": n304, "rows_400": n400})
    ctx.floor("C04.R6", min(n412, n304, n400), 1, what="412 / 304 / 400 rows")


def _arg_text(r, e, i):
    """text of call argument i together with what the locals it refers to hold on this path"""
    x = e["args"][i]
    s_ = fmt_term(x) + " " + (fmt_term(e["snap"][i]) if e.get("snap") and len(e["snap"]) > i and e["snap"][i] is not None else "")
    stack, seen_ = [x, e["snap"][i] if e.get("snap") and len(e["snap"]) > i else None], 0
    while stack and seen_ < 200:
        y = stack.pop()
        seen_ += 1
        if isinstance(y, tuple) and y:
            if y[0] == "ref" and len(y) > 2 and isinstance(y[1], tuple) and y[1] and y[1][0] == "L":
                v_ = r.o.state.env.get(y[1])
                if v_ is not None:
                    s_ += " " + fmt_term(v_)
            else:
                stack.extend(z for z in y if isinstance(z, tuple))
    return s_


def c04_call_args(ctx, M):
    """C04.R7: the precondition evaluation is given the entity's own validators and the request's own headers - the
    modification time is the value `Entity::last_modified` returned (not a clamped, rounded or otherwise derived time: the
    conditions speak about the second the entity was last modified in), the tag is what `Entity::etag` returned, the
    header map is the request's"""
    def strip(t):
        while isinstance(t, tuple) and t and t[0] in ("&", "deref", "copy", "move") and len(t) == 2:
            t = t[1]
        return t
    n = 0
    seen = set()
    for r in ok_rows(M):
        e = cond_fn_event(ctx, r)
        if e is None:
            continue
        b = ctx.facts.bodies.get(e["callee"].get("res_path"))
        if b is None:
            continue
        for i, a in enumerate(e["args"]):
            ty = b["locals"][i + 1]["s"]
            v = a
            if isinstance(v, tuple) and v and v[0] == "ref" and e.get("snap") and len(e["snap"]) > i and e["snap"][i] is not None:
                v = e["snap"][i]
            v = strip(v)
            f = _arg_text(r, e, i)
            bad = None
            if "SystemTime" in ty:
                lm = [x.get("result") for x in r.o.events if x["k"] == "call" and (x["callee"].get("path") or "").endswith("Entity::last_modified")]
                same = isinstance(v, tuple) and v and v[0] == "call" and v[1].endswith("Entity::last_modified")
                if is_agg(v) and v[3] == "None":
                    same = any(r.o.cons.variant_of(x) == "None" for x in lm)
                elif is_agg(v) and v[3] == "Some":
                    same = any(strip(agg_get(v, "0")) == ("payload", x, "Some", "0") for x in lm)
                if not same:
                    bad = ("mtime", "the modification time handed to the precondition evaluation is not the value the entity's last_modified() returned "
                           "but %s: If-Modified-Since / If-Unmodified-Since would be judged against a different time" % short(v, 140))
            elif "HeaderMap" in ty:
                if not (isinstance(v, tuple) and v and v[0] == "param"):
                    bad = ("headers", "the header map handed to the precondition evaluation is not the request's: %s" % short(v, 100))
            elif "HeaderValue" in ty or ty == "std::option::Option<&[u8]>":
                et = [x.get("result") for x in r.o.events if x["k"] == "call" and (x["callee"].get("path") or "").endswith("Entity::etag")]
                if is_agg(v) and v[3] == "None" and any(r.o.cons.variant_of(x) == "None" for x in et):
                    pass            # the entity has no tag on this path, and none is handed over
                elif "Entity::etag" not in f and "etag(" not in f or "last_modified" in f or "::now" in f or "IF_" in f:
                    bad = ("etag", "the tag handed to the precondition evaluation is not what the entity's etag() returned: %s" % short(v, 100))
            if bad and bad[0] not in seen:
                seen.add(bad[0])
                ctx.violation("C04.R7", "C04.R7|%s" % bad[0], bad[1], where=where(e))
        n += 1
    if not seen:
        ctx.ok("C04.R7", "the precondition evaluation receives the entity's own etag() / last_modified() and the request's headers", detail={"rows": n})
    ctx.floor("C04.R7", n, 1, what="rows that call the precondition evaluation")


# ------------------------------------------------------------------ C05 If-Range gate

def _is_tag_comparator_call(ctx, e):
    """a call (in the serve function or in one of its expanded helpers) of a crate-local fn(&[u8], &[u8]) -> bool"""
    if e["k"] != "call" or not e["callee"].get("res_local") or e["dest"]["ty"].get("k") != "bool" or len(e["args"]) != 2:
        return False
    b = ctx.facts.bodies.get(e["callee"].get("res_path"))
    return bool(b) and b["arg_count"] == 2 and all(b["locals"][i]["s"].endswith("[u8]") for i in (1, 2))


def _inline_strong(r):
    """the strong comparison written out at the gate instead of calling the comparator: byte equality of the If-Range value and
    the entity's tag, plus "the value opens with a double quote" (equal byte strings of which one is not weak are both strong).
    -> 1 when the path has established both, 0 when it has refuted either, None when it has decided neither"""
    def side(x):
        f = fmt_term(x)
        return "ifr" if "IF_RANGE" in f else ("etag" if "etag(" in f else None)
    eqv = quote = None
    for t, v in r.o.cons.known.items():
        if not (isinstance(t, tuple) and t and v in (0, 1)):
            continue
        if t[0] == "eq" and len(t) == 3:
            a, b = t[1], t[2]
            if {side(a), side(b)} == {"ifr", "etag"} and all(isinstance(x, tuple) and x[0] == "call" and x[1].endswith("::as_bytes") for x in (a, b)):
                eqv = v
                continue
            for x, y in ((a, b), (b, a)):
                # first() == Some(&b'"')   /   v[0] == b'"' is not accepted: it panics on an empty value
                if isinstance(x, tuple) and x[0] == "first" and side(x[1]) and is_agg(y) and y[3] == "Some" and agg_get(y, "0") == const(34):
                    quote = v
        elif t[0] == "call" and t[1].endswith("::starts_with") and side(t[2][0]):
            lit = t[2][1]
            if isinstance(lit, tuple) and lit[0] in ("refconst", "&"):
                lit = lit[1]
            if isinstance(lit, tuple) and lit[0] in ("str", "bytes") and lit[1] == '"':
                quote = v
    if eqv == 0 or quote == 0:
        return 0
    if eqv == 1 and quote == 1:
        return 1
    return None


def c05_gate(ctx, M):
    nkeep = ndrop = 0
    inline_sites = 0
    classes = {}
    for r in ok_rows(M):
        pe = parser_event(ctx, r)
        if pe is None:
            continue
        arg = pe["args"][0]
        is_none = is_agg(arg) and arg[3] == "None"
        is_range = isinstance(arg, tuple) and arg[0] == "call" and arg[1].endswith("HeaderMap::<T>::get") and \
            isinstance(arg[2][1], tuple) and arg[2][1] == ("named", HDR + "RANGE")
        range_absent = any(e["k"] == "call" and e["callee"].get("path", "").endswith("HeaderMap::<T>::get") and len(e["args"]) > 1 and
                           e["args"][1] == ("named", HDR + "RANGE") and r.o.cons.variant_of(e.get("result")) == "None" for e in r.o.events)
        if (is_range and r.o.cons.variant_of(arg) == "None") or (is_none and range_absent):
            # the request has no Range header on this path: handing the (absent) header to the parser and handing it None are
            # the same thing, so the gate has nothing to decide here
            classes["Range header absent -> nothing to keep or drop"] = classes.get("Range header absent -> nothing to keep or drop", 0) + 1
            continue
        if not (is_none or is_range):
            ctx.violation("C05.R3", "C05.R3|parser-arg", "the range parser's header argument is neither the request's Range header nor None: %s" % short(arg, 100), where=where(pe))
            continue
        ifr = r.atoms.get("get(IF_RANGE)")
        etag = r.atoms.get("etag")
        etag_form = r.atoms.get("starts_with('W/\"')") == 1 or r.atoms.get("starts_with('\"')") == 1
        seq = r.atoms.get("strong_eq")
        # which comparator was used at the gate (if any)?
        cmp_ev = [e for e in r.o.events if _is_tag_comparator_call(ctx, e)]
        cmp_true = None
        for e in cmp_ev:
            res = e.get("result")
            if res is not None and r.o.cons.known.get(res) is not None:
                cmp_true = (e, r.o.cons.known.get(res))
        if not cmp_ev and ifr == "Some":
            iv = _inline_strong(r)
            if iv is not None:
                cmp_true = (None, iv)
                inline_sites += iv
        cls = "If-Range=%s etag=%s etag-form=%s comparator=%s -> %s" % (ifr, etag, etag_form if ifr == "Some" else "-",
                                                                        cmp_true[1] if cmp_true else "-", "Range kept" if is_range else "Range dropped")
        classes[cls] = classes.get(cls, 0) + 1
        must_keep = (ifr == "None") or (ifr == "Some" and etag == "Some" and cmp_true is not None and cmp_true[1] == 1)
        date_free = any(isinstance(t, tuple) and t[0] in ("eq",) and "parse_http_date" in fmt_term(t) and v == 1 for t, v in r.o.cons.known.items())
        if must_keep:
            nkeep += 1
            if not is_range:
                ctx.violation("C05.R1", "C05.R1|dropped|%s" % ("no-if-range" if ifr == "None" else "matching-strong-tag"),
                              "the Range header is ignored although %s" % ("the request has no If-Range" if ifr == "None" else "If-Range strongly equals the entity's ETag"),
                              where=where(pe))
        elif not date_free:
            ndrop += 1
            if not is_none:
                ctx.violation("C05.R1", "C05.R1|kept|ifr=%s,etag=%s,form=%s,cmp=%s" % (ifr, etag, etag_form, cmp_true[1] if cmp_true else None),
                              "the Range header is honoured under If-Range without a strong ETag match (If-Range %s, entity etag %s, comparator result %s)" %
                              (ifr, etag, cmp_true[1] if cmp_true else "not evaluated"), where=where(pe))
        # the comparator must be applied to (If-Range value, entity etag)
        if cmp_true is not None and cmp_true[0] is not None:
            e = cmp_true[0]
            a, b = e["args"]
            # (what the references denote, where PX knows it: e.g. bytes taken from the entity's tag once and kept in a local)
            def _through(x, i):
                s_ = fmt_term(x) + " " + (fmt_term(e["snap"][i]) if e.get("snap") and len(e["snap"]) > i and e["snap"][i] is not None else "")
                # references to locals inside the argument: what those locals hold
                stack, seen_ = [x, e["snap"][i] if e.get("snap") and len(e["snap"]) > i else None], 0
                while stack and seen_ < 200:
                    y = stack.pop()
                    seen_ += 1
                    if isinstance(y, tuple) and y:
                        if y[0] == "ref" and len(y) > 2 and isinstance(y[1], tuple) and y[1] and y[1][0] == "L":
                            v_ = r.o.state.env.get(y[1])
                            if v_ is not None:
                                s_ += " " + fmt_term(v_)
                        else:
                            stack.extend(z for z in y if isinstance(z, tuple))
                return s_
            sa, sb = _through(a, 0), _through(b, 1)
            if not (("IF_RANGE" in sa and "etag" in sb) or ("IF_RANGE" in sb and "etag" in sa)):
                ctx.violation("C05.R2", "C05.R2|comparator-args", "the gate comparator is not applied to (If-Range value, entity ETag): %s, %s" % (sa[:80], sb[:80]), where=where(e))
    for cls, n in sorted(classes.items()):
        ctx.ok("C05.R1", "gate row: " + cls, detail={"paths": n})
    # non-vacuity of the positive clauses: a Range without If-Range, and a Range with the matching strong tag, are honoured
    if not any(c.startswith("If-Range=None") and c.endswith("Range kept") for c in classes):
        ctx.violation("C05.R1", "C05.R1|no-keep-row|no-if-range", "no path honours the Range header of a request without If-Range")
    if not any(c.startswith("If-Range=Some etag=Some") and "comparator=1" in c and c.endswith("Range kept") for c in classes):
        ctx.violation("C05.R1", "C05.R1|no-keep-row|matching-strong-tag",
                      "no path honours the Range header when If-Range carries the matching strong ETag (the comparator is never reached with an entity-tag form)")
    ctx.ok("C05.R1", "If-Range gate table", detail={"keep_rows": nkeep, "drop_rows": ndrop})
    ctx.floor("C05.R1", min(nkeep, ndrop), 2, what="keep / drop rows of the If-Range gate")
    # R2: the comparator is strong
    from . import etagcmp
    names = set()
    for r in ok_rows(M):
        for e in r.o.events:
            if _is_tag_comparator_call(ctx, e):
                names.add(e["callee"]["res_path"])
    for nme in sorted(names):
        kind, why = etagcmp.comparator_kind(ctx, nme)
        if kind == "strong":
            ctx.ok("C05.R2", "gate comparator %s is the strong comparison" % nme)
        else:
            ctx.violation("C05.R2", "C05.R2|comparator|%s" % kind, "the If-Range gate compares with `%s`, which is %s (%s); a strong comparison is required" % (nme, kind, why))
    if inline_sites and not names:
        ctx.ok("C05.R2", "the gate compares inline: byte equality of (If-Range value, entity ETag) under \"the value opens with a double quote\" - the strong comparison",
               detail={"rows": inline_sites})
    ctx.floor("C05.R2", len(names) + (1 if inline_sites else 0), 1, what="comparator calls at the gate")


# ------------------------------------------------------------------ C06.R1 multipart exits

def is_multipart_exit(r):
    if r.body["kind"] == "multipart":
        return True
    return any(h[0] == "CONTENT_TYPE" and "multipart" in str(fmt_value(h[1]).get("text")) for h in r.headers)


def c06_exits(ctx, M):
    n = 0
    tokens = set()
    for r in ok_rows(M):
        if not is_multipart_exit(r):
            continue
        n += 1
        bad = []
        if r.status != 206:
            bad.append("status %s, not 206" % r.status)
        ct = get_hdr(r, "CONTENT_TYPE")
        if len(ct) != 1:
            bad.append("%d Content-Type headers" % len(ct))
        else:
            txt = fmt_value(ct[0][1]).get("text") or ""
            import re
            m = re.fullmatch(r"multipart/byteranges; ?boundary=([0-9A-Za-z'()+_,\-./:=?]{1,70})", txt)
            if not m:
                bad.append("Content-Type %r is not `multipart/byteranges; boundary=<token>`" % txt)
            else:
                tokens.add(m.group(1))
        if get_hdr(r, "CONTENT_RANGE"):
            bad.append("a top-level Content-Range is present")
        if len(get_hdr(r, "CONTENT_LENGTH")) != 1:
            bad.append("%d Content-Length headers" % len(get_hdr(r, "CONTENT_LENGTH")))
        if r.method == "HEAD" and r.body["kind"] != "empty":
            bad.append("HEAD multipart exit has a %s body" % r.body["kind"])
        if r.method == "GET" and r.body["kind"] != "multipart":
            bad.append("GET multipart exit has a %s body" % r.body["kind"])
        if bad:
            ctx.violation("C06.R1", "C06.R1|%s|%s" % (r.method, bad[0].split(",")[0][:40]), "multipart exit (%s): %s" % (r.method, "; ".join(bad)), where=row_where(r))
    ctx.ok("C06.R1", "multipart exits: 206, multipart/byteranges Content-Type, one Content-Length, no Content-Range", detail={"rows": n, "boundary": sorted(tokens)})
    ctx.floor("C06.R1", n, 2, what="multipart exit rows (GET and HEAD)")
    return tokens


# ------------------------------------------------------------------ C14

VALIDATOR_STATUSES = (200, 206, 304, 412, 416)


def c14_matrix(ctx, M):
    n = 0
    for r in ok_rows(M):
        if r.status not in VALIDATOR_STATUSES:
            continue
        n += 1
        bad = []
        ar = get_hdr(r, "ACCEPT_RANGES")
        if len(ar) != 1 or fmt_value(ar[0][1]).get("text") != "bytes":
            bad.append("Accept-Ranges: bytes missing")
        et = get_hdr(r, "ETAG")
        es = r.atoms.get("etag")
        if es == "Some":
            etag_call = None
            for e in r.o.events:
                if e["k"] == "call" and e["callee"].get("path") == "Entity::etag":
                    etag_call = e.get("result")
            if len(et) != 1:
                bad.append("entity has an ETag but the response carries %d ETag headers" % len(et))
            elif et[0][1] != ("payload", etag_call, "Some", "0"):
                bad.append("ETag header value is not the entity's etag() result unchanged")
        elif es == "None":
            if et:
                bad.append("ETag header although the entity has none")
        else:
            bad.append("ETag presence is not decided from Entity::etag()")
        lm = r.atoms.get("last_modified")
        d = get_hdr(r, "DATE")
        l = get_hdr(r, "LAST_MODIFIED")
        if lm == "Some":
            if len(d) != 1 or len(l) != 1:
                bad.append("entity has a modification time but Date/Last-Modified are missing (Date x%d, Last-Modified x%d)" % (len(d), len(l)))
        elif lm == "None":
            if l:
                bad.append("Last-Modified although the entity has no modification time")
        if bad:
            ctx.violation("C14.R1", "C14.R1|%s|%s" % (r.status, bad[0][:40]), "status %s: %s" % (r.status, "; ".join(bad)), where=row_where(r))
    ctx.ok("C14.R1", "validator header matrix on 200/206/304/412/416", detail={"rows": n})
    ctx.floor("C14.R1", n, 20, what="exit rows with a validator-bearing status")


def _known_order(o, a, b):
    """what the path knows about a vs b from decided comparisons: 'lt' / 'le' / 'gt' / 'ge' / 'eq' / None"""
    for tt, v in o.cons.known.items():
        if not (isinstance(tt, tuple) and len(tt) == 4 and tt[0] == "binop" and tt[1] in ("Lt", "Le", "Gt", "Ge")):
            continue
        x, y = tt[2], tt[3]
        if {x, y} != {a, b} or x == y:
            continue
        op = tt[1]
        if v == 0:
            op = {"Lt": "Ge", "Le": "Gt", "Gt": "Le", "Ge": "Lt"}[op]
        if x == b:      # the comparison is b op a: mirror it
            op = {"Lt": "Gt", "Le": "Ge", "Gt": "Lt", "Ge": "Le"}[op]
        return op.lower()
    return None


def c14_clamp(ctx, M):
    """Last-Modified = fmt(min(m, d)), Date = fmt(d') with d' == d (same `now`) or a later now()"""
    n = 0
    for r in ok_rows(M):
        if r.status not in VALIDATOR_STATUSES:
            continue
        l = get_hdr(r, "LAST_MODIFIED")
        d = get_hdr(r, "DATE")
        if not l:
            continue
        n += 1
        lv, dv = fmt_value(l[0][1]), (fmt_value(d[0][1]) if d else {"kind": None})
        bad = []
        if lv["kind"] != "httpdate" or dv["kind"] != "httpdate":
            bad.append("Date / Last-Modified are not produced by fmt_http_date")
        else:
            t = lv["time"]
            dt = dv["time"]
            m = None
            for e in r.o.events:
                if e["k"] == "call" and e["callee"].get("path") == "Entity::last_modified":
                    m = ("payload", e.get("result"), "Some", "0")
            is_now = isinstance(dt, tuple) and dt[0] == "call" and dt[1].endswith("SystemTime::now")
            if not is_now:
                bad.append("Date is not the current time")
            is_min = isinstance(t, tuple) and t[0] == "min" and set(t[1:]) == {m, dt}
            if not is_min:
                # the clamp written as a comparison: the value is `m` on a path that knows m <= now, `now` on one that knows now <= m
                rel = _known_order(r.o, m, dt)
                is_min = (t == m and rel in ("le", "lt", "eq")) or (t == dt and rel in ("ge", "gt", "eq"))
            if not is_min:
                bad.append("Last-Modified is %s, not min(modification time, the Date's time)" % short(t, 100))
        if bad:
            ctx.violation("C14.R2", "C14.R2|%s" % bad[0][:40], "; ".join(bad), where=row_where(r))
    ctx.ok("C14.R2", "Last-Modified = fmt(min(mtime, now)), Date = fmt(same now)", detail={"rows": n})
    ctx.floor("C14.R2", n, 10, what="rows with Last-Modified")


def c14_entity_headers(ctx, M):
    n = 0
    for r in ok_rows(M):
        ent = get_hdr(r, "ENTITY")
        ifr = r.atoms.get("get(IF_RANGE)")
        if r.status in (304, 412, 416, 400, 405, 413):
            n += 1
            if ent:
                ctx.violation("C14.R3", "C14.R3|entity-headers-on-%s" % r.status, "Entity::add_headers is applied to a %s response" % r.status, where=row_where(r))
        elif r.status == 200:
            n += 1
            if len(ent) != 1:
                ctx.violation("C14.R3", "C14.R3|200-entity-headers|%d" % len(ent), "a 200 response has add_headers applied %d times (expected once)" % len(ent), where=row_where(r))
        elif r.status == 206 and not is_multipart_exit(r):
            n += 1
            if ifr == "None" and len(ent) != 1:
                ctx.violation("C14.R3", "C14.R3|206-entity-headers", "a 206 without If-Range has add_headers applied %d times (expected once)" % len(ent), where=row_where(r))
            if len(ent) > 1:
                ctx.violation("C14.R3", "C14.R3|206-entity-headers-dup", "add_headers applied %d times" % len(ent), where=row_where(r))
        # entity headers must come last-but-safe: they may not be followed by crate headers that could be overridden -- informational only
    ctx.ok("C14.R3", "entity headers on 200 / 206-without-If-Range, never on 304/412/416", detail={"rows": n})


# ------------------------------------------------------------------ C15 HEAD mirrors GET

def _atoms_wo_method(r):
    return tuple(sorted((k, str(v)) for k, v in r.atoms.items() if not k.startswith("method")))


def c15_pairing(ctx, M):
    groups = {}
    for r in ok_rows(M):
        if r.method in ("GET", "HEAD"):
            groups.setdefault((_atoms_wo_method(r), tuple(sorted((k, fmt_term(t), str(v)) for k, t, v in r.other if "arg2" not in fmt_term(t)[:30]))), []).append(r)
    npairs = 0
    bystatus = {}
    for key, rs in groups.items():
        gets = [r for r in rs if r.method == "GET"]
        heads = [r for r in rs if r.method == "HEAD"]
        if not gets or not heads:
            r = rs[0]
            ctx.violation("C15.R1", "C15.R1|unpaired|%s|%s" % (r.method, r.status),
                          "a %s path (status %s) has no %s twin with the same request/entity decisions: some decision depends on the method" %
                          (r.method, r.status, "HEAD" if r.method == "GET" else "GET"), where=row_where(r))
            continue
        for g in gets:
            for h in heads:
                npairs += 1
                bystatus[(g.status, g.body["kind"])] = bystatus.get((g.status, g.body["kind"]), 0) + 1
                bad = []
                if g.status != h.status:
                    bad.append("status %s vs %s" % (g.status, h.status))
                if strip_uid(g.headers) != strip_uid(h.headers):
                    gn, hn = hdr_names(g), hdr_names(h)
                    if gn != hn:
                        bad.append("header set differs: GET %s vs HEAD %s" % (gn, hn))
                    else:
                        for (n1, v1), (n2, v2) in zip(strip_uid(g.headers), strip_uid(h.headers)):
                            if v1 != v2:
                                bad.append("header %s value differs: %s vs %s" % (n1, short(v1, 60), short(v2, 60)))
                                break
                if h.status in (200, 206, 304, 416) and h.body["kind"] != "empty":
                    bad.append("HEAD body is %s" % h.body["kind"])
                if bad:
                    ctx.violation("C15.R1", "C15.R1|mismatch|%s|%s" % (g.status, bad[0].split(":")[0][:30]),
                                  "HEAD differs from GET for the same request: %s" % "; ".join(bad), where=row_where(h))
    for (stt, bk), n in sorted(bystatus.items(), key=lambda kv: str(kv[0])):
        ctx.ok("C15.R1", "GET %s (%s body) / HEAD pairs: equal status and header list" % (stt, bk), detail={"pairs": n})
    ctx.ok("C15.R1", "every GET path has a HEAD twin with equal status and headers", detail={"pairs": npairs, "groups": len(groups)})
    ctx.floor("C15.R1", npairs, 50, what="GET/HEAD row pairs")
    # R2: HEAD never asks the entity for bytes
    nh = 0
    for r in ok_rows(M):
        if r.method != "HEAD":
            continue
        nh += 1
        gr = [e for e in dyn_entity_calls(r) if e["callee"]["path"] == "Entity::get_range"]
        if gr:
            ctx.violation("C15.R2", "C15.R2|get_range-on-HEAD", "Entity::get_range is called on a HEAD path", where=where(gr[0]))
        if r.body["kind"] in ("exactlen", "multipart"):
            ctx.violation("C15.R2", "C15.R2|stream-on-HEAD|%s" % r.body["kind"], "a HEAD path returns a %s body" % r.body["kind"], where=row_where(r))
    ctx.ok("C15.R2", "no get_range / streamed body on HEAD paths", detail={"head_rows": nh})
    ctx.floor("C15.R2", nh, 20, what="HEAD rows")
