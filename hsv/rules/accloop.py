"""Reading a summarised accumulating loop.

PX summarises a loop by havocking the loop-carried places at the header and cutting each path at the back edge; a
`fold` / `try_fold` is summarised the same way by the models (accumulator = loop variable, closure body = one turn).  This
module turns the outcomes of such an analysis into a uniform description of ONE loop:

  entry[key]        the value each loop-carried place had when the loop was entered
  iter_key          the place of the iterator the loop draws from (the receiver of the turn's `Iterator::next`)
  per outcome       entered? / the item yielded in this turn / was the iterator found exhausted / (at a back edge) the
                    new value of every loop-carried local

Rules (decimal.py: 1*DIGIT accumulation; serve_model.c03_estimate: the multipart size estimate) judge the transition.
"""
from ..px import is_agg


def loops_of(outs):
    ids = set()
    for o in outs:
        for e in o.events:
            if e["k"] == "loop_enter":
                ids.add((e["fn"], e["bb"], tuple(e.get("sig") or ())))
    return ids


def _is_uninit(v):
    return isinstance(v, tuple) and v and v[0] == "uninit"


class Turn:
    __slots__ = ("o", "entered", "item", "nexts", "exhausted", "new", "events")


def summarise(ctx, outs, loop):
    fn, bb, sig = loop
    is_fold = isinstance(bb, tuple) and bb and bb[0] == "fold"
    entry = {}
    for o in outs:
        for k, v in o.state.extra.get("loop_entry_values", {}).items():
            if k[0] != fn or k[1] != bb or _is_uninit(v):
                continue
            if (sig and len(k) == 4 and k[3] == sig) or (not sig and len(k) == 3):
                entry.setdefault(k[2], set()).add(v)

    def lv(key):
        return ("loopvar", fn, bb, key, 0) + ((sig,) if sig else ())

    lvs = {lv(k): k for k in entry}
    turns = []
    iter_keys = set()
    for o in outs:
        if o.kind in ("infeasible", "unreachable"):
            continue
        t = Turn()
        t.o = o
        idx = None
        for i, e in enumerate(o.events):
            if e["k"] == "loop_enter" and e["fn"] == fn and e["bb"] == bb and tuple(e.get("sig") or ()) == sig:
                idx = i
        t.entered = idx is not None
        t.events = o.events[idx + 1:] if t.entered else []
        t.item = None
        t.nexts = []
        t.exhausted = False
        t.new = {}
        if t.entered and is_fold:
            # the model emits loop_enter and then the (try_)fold call event labelled with the outcome taken
            lab = next((e.get("label") for e in t.events if e["k"] == "call" and e.get("label") in ("fold-step", "fold-exit")), None)
            stepped = lab == "fold-step"
            if stepped:
                t.item = ("fold_item", fn, bb[1], sig)
            elif lab == "fold-exit":
                t.exhausted = True
            if o.kind == "backedge" and o.where == (fn, bb):
                t.new[("F", 0, ())] = o.value
        elif t.entered:
            for e in t.events:
                if e["k"] == "call" and (e["callee"].get("path") or "").endswith("Iterator::next"):
                    a = e["args"][0]
                    sn = e["snap"][0] if isinstance(a, tuple) and a and a[0] == "ref" else a
                    if sn in lvs:
                        t.nexts.append(e)
                        iter_keys.add(lvs[sn])
            if len(t.nexts) == 1:
                var = o.cons.variant_of(t.nexts[0].get("result"))
                if var == "Some":
                    t.item = ("payload", t.nexts[0]["result"], "Some", "0")
                elif var == "None":
                    t.exhausted = True
            if o.kind == "backedge" and o.where == (fn, bb):
                fid = o.state.frames[-1].fid
                for k in entry:
                    if k[0] == "L" and not k[2]:
                        t.new[k] = o.state.env.get(("L", fid, k[1]))
        turns.append(t)
    return {"fn": fn, "bb": bb, "sig": sig, "is_fold": is_fold, "entry": entry, "lv": lv, "turns": turns,
            "iter_key": (("I", 0, ()) if is_fold else (next(iter(iter_keys)) if len(iter_keys) == 1 else None))}
