"""closed-world (who-may-call / who-may-construct) queries"""
from .. import facts as F
from .common import aggregates, calls_named, method_name, arg_type


def entity_bytes_flow(ctx, rule):
    """every Entity::get_range result flows only into the length-checking stream's constructor; the stream enum's
    streaming variant is built only from it; no stream struct has a field of the data type parameter"""
    from . import bodyrules as BR
    adt, budget, inner, pn = BR.find_exactlen(ctx)
    sites = calls_named(ctx.facts, "Entity::get_range")
    n = 0
    fns = sorted({b["name"] for b, i, t in sites if not (b["name"].startswith("<") and " as Entity>" in b["name"])})
    ctor = None
    for fn in fns:
        from . import multipart as MP
        if "poll_next" in fn:
            sadt, roles, pn = MP.find_stream(ctx)
            outs = []
            for label, p, cs in MP.stream_cases(roles):
                outs += MP.run_case(ctx, sadt, roles, pn, p, cs)
        else:
            from . import serve_model as SM
            outs = SM.analyse(ctx)["outs"] if fn == SM.analyse(ctx)["inner"] else ctx.px(fn)
        seen_sites = {}
        for o in outs:
            for k, ev in enumerate(o.events):
                if ev["k"] == "call" and ev["callee"].get("path") == "Entity::get_range":
                    R = ev["result"]
                    users = [e for e in o.events[k + 1:] if e["k"] == "call" and any(a == R for a in e["args"]) and not e.get("inlined")]
                    good = [e for e in users if (e["callee"].get("res_path") or "").split("<")[0].rstrip(":") == adt and (e["callee"].get("res_path") or "").endswith("::new")]
                    key = (fn, ev["bb"])
                    rec = seen_sites.setdefault(key, {"ev": ev, "ok": True, "paths": 0})
                    rec["paths"] += 1
                    if len(users) != 1 or len(good) != 1:
                        rec["ok"] = False
                        rec["why"] = "used by %s" % [e["callee"].get("path") for e in users]
                    else:
                        # budget argument == end - start of the requested range
                        from .serve_model import range_len
                        if good[0]["args"][0] != range_len(ev["args"][1]):
                            rec["ok"] = False
                            rec["why"] = "budget %s is not end-start of the requested range" % F.loc(ev["span"])
        for key, rec in sorted(seen_sites.items()):
            n += 1
            if rec["ok"]:
                ctx.ok(rule, "%s: get_range result goes only into %s::new with budget end-start" % (fn, adt), where=F.loc(rec["ev"]["span"]), detail={"paths": rec["paths"]})
            else:
                ctx.violation(rule, "%s|unwrapped|%s" % (rule, fn), "an Entity::get_range result in %s is not handed (only) to the length-checking stream: %s" % (fn, rec.get("why")),
                              where=F.loc(rec["ev"]["span"]))
    ctx.floor(rule, n, 2, confirmed=2, what="Entity::get_range call sites (single body, multipart part)")
    # no field of type D in the stream structs / enum (nothing can be buffered or replayed)
    from . import multipart as _MP
    from . import bodyrules as _BR
    stream_types = {adt, _MP.find_stream(ctx)[0], _BR.find_bodystream(ctx)[0]["path"]}
    for a in ctx.facts.adts.values():
        if not a["local"]:
            continue
        if a["path"] in stream_types:
            for v in a["variants"]:
                if v in _BR.once_variants(ctx, a):
                    # the one-shot variant's slot holds the data of a `From<..>` conversion, never entity data (get_range results
                    # go only into the length-checking stream, above); that it is emptied when polled is C20.R2
                    continue
                for f in v["fields"]:
                    ty = f["ty"]
                    if ty == "D" or ty.startswith("std::vec::Vec<D") or ty.startswith("std::collections::VecDeque<D") or ty == "std::option::Option<D>":
                        ctx.violation(rule, "%s|buffer|%s.%s" % (rule, a["path"], f["name"]), "%s has a field `%s: %s` that can hold entity data back" % (a["path"], f["name"], ty))
    ctx.ok(rule, "no stream struct can buffer a data chunk (no field of the data type)")
