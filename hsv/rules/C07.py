"""C07 — short / long / failing entity streams.  Decides: (R1) the
length-checking stream's complete decision table (too long -> error and budget 0,
inner end with bytes owed -> error never a clean end, inner error -> error);
(R2) every Entity::get_range result in the crate goes only into that stream with
budget end-start (single body and every multipart part); (R3) from the post-state
of an error return of the multipart stream no path emits the trailer or further
data (second analysis started from each terminal post-state); (R4) the injected
errors are built with From<BoxError>; (R5) the layers above those streams -
`Body::poll_frame` and the body stream enum's `poll_next` - poll the wrapped
stream exactly once on every path and hand its answer on unchanged (they never
answer from their own bookkeeping, so the too-short / too-long verdict and an
error after the last byte reach the consumer).  Does not decide: what hyper does with the
error."""
from . import bodyrules as BR
from . import multipart as MP
from . import who

CONFIGS_QUICK = ["dir"]


def run(ctx):
    BR.exactlen_table(ctx, "C07.R1")
    who.entity_bytes_flow(ctx, "C07.R2")
    BR.exactlen_ctor_passthrough(ctx, "C07.R2.ctor")
    MP.constructor_inv(ctx, "C07.R3")
    MP.stream_invariant(ctx, "C07.R3")
    BR.error_injection(ctx, "C07.R4")
    BR.layers_transparent(ctx, "C07.R5")
    # a part's stream stays installed until it has reported its end: only then is the verdict (short / long / error) known
    MP.stream_frame(ctx, "C07.R3.frame")
