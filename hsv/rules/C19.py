"""C19 — FsDir::get stays inside the base directory and opens the right file.
Decides: (R1) in `get` the validator's Err edge returns before any open / spawn;
(R2) libc::openat is called in exactly one function with the base-directory fd
field of self, that function is called only from `get`, libc::open only in the
directory constructor; (R3) the validator's shape: exactly three rejections --
a NUL byte anywhere (memchr 0), a leading '/', a '/'-delimited segment *equal* to
the two bytes `..` (segments are cut at each '/' found, the scan restarts right
after it; or `split('/')` + `any(segment == "..")`, the closures decided by
evaluating their MIR) -- and Ok only when none applies; index arithmetic discharged;
(R4) the lookup table: the `.gz` sibling is tried iff auto_gzip and
should_gzip(request headers); opened and not a directory -> the node reports gzip;
a directory or NotFound -> the plain path; any other error -> Err; the C strings
passed are the validated bytes + `.gz` NUL resp. + NUL (so the unchecked CStr
constructor's obligation holds); (R5) what a node reports is read off its
observers, evaluated on the very node value each lookup row constructs (for each
value of the directory's setting the row allows): encoding() is Some("gzip") and
add_encoding_headers sets Content-Encoding: gzip exactly on the row that opened
the `.gz` sibling, Vary: accept-encoding exactly when the directory's automatic
gzip is on - whatever fields carry it (two bools, small enums, one three-valued
enum); nodes are constructed only in `get`; the builder's setting reaches the
directory object.
Does not decide: symlinks (documented non-goal), the filesystem itself."""
from ..px import const, is_const, is_agg, agg_get, mk_binop, TY, fmt_term
from .. import px as P
from .. import facts as F
from .. import census as CEN
from ..models import len_term
from . import serve_model as SM
from .common import where, short, impl_fn, inherent_fn, aggregates, calls_named, cons_zone, boolish, helper_inline, known_empty
from .multipart import buf_pieces

CONFIGS_QUICK = ["dir"]
CONFIGS_THOROUGH = ["dir"]


def roles(ctx):
    from ..check import FailClosed
    dirs = [a for a in ctx.facts.adts.values() if a["local"] and a["kind"] == "struct" and
            any("RawFd" in f["ty"] or f["ty"] == "i32" or f["ty"].endswith("OwnedFd") for f in a["variants"][0]["fields"]) and
            any(boolish(ctx, f["ty"]) for f in a["variants"][0]["fields"])]
    if len(dirs) != 1:
        raise FailClosed("base-directory struct (raw fd + bool) not found uniquely (is the `dir` feature analysed?)")
    d = dirs[0]
    R = {"dir": d["path"]}
    for f in d["variants"][0]["fields"]:
        if boolish(ctx, f["ty"]):
            R["auto_f"] = f["name"]
        else:
            R["fd_f"] = f["name"]
    get = [f["path"] for f in ctx.facts.fns.values() if (f.get("impl_self") or "") == R["dir"] and f["path"].endswith("::get") and f.get("vis") == "Public"]
    if len(get) != 1:
        raise FailClosed("pub fn get on %s not found" % R["dir"])
    R["get"] = get[0]
    node = [a for a in ctx.facts.adts.values() if a["local"] and a["kind"] == "struct" and
            any(f["ty"] == "std::fs::Metadata" for f in a["variants"][0]["fields"]) and any(f["ty"] == "std::fs::File" for f in a["variants"][0]["fields"])]
    if len(node) != 1:
        raise FailClosed("node struct (an open file with its metadata) not found uniquely")
    R["node"] = node[0]["path"]
    # validator: crate-local fn (&str) -> Result<(), _> (the error may be a message or an already built io::Error)
    val = [n for n, b in ctx.facts.bodies.items() if b["kind"] == "fn" and b["arg_count"] == 1 and b["locals"][1]["s"] == "&str"
           and b["locals"][0]["s"].startswith("std::result::Result<(), ")]
    if not val:
        # ... or Ok(the validated bytes): a fn(&str) -> Result<_, _> that `get` reaches
        direct = set()
        for n2, b2 in ctx.facts.bodies.items():
            if n2 == R["get"] or n2.startswith(R["get"] + "::{closure"):
                for _, t_ in ctx.facts.calls(b2):
                    if t_["callee"].get("res_local"):
                        direct.add(t_["callee"].get("res_path"))
        val = [n for n, b in ctx.facts.bodies.items() if n in direct and b["kind"] == "fn" and b["arg_count"] == 1 and b["locals"][1]["s"] == "&str"
               and b["locals"][0]["s"].startswith("std::result::Result<")]
    if len(val) != 1:
        raise FailClosed("path validator (&str -> Result<(), &str>) not found uniquely: %r" % val)
    R["validate"] = val[0]
    return R


def r3_validator(ctx, R):
    fn = R["validate"]
    outs = ctx.px(fn)
    sites = CEN.census(ctx, outs)
    for key, s in sorted(sites.items()):
        if s.failed:
            ctx.violation("C19.R3", "C19.R3|site|" + key, "validator: %s (%s)" % (s.failed[0][0], s.failed[0][1][:120]), where=F.loc(s.span))
        else:
            ctx.ok("C19.R3", "site " + key, detail=sorted(s.how)[:2], where=F.loc(s.span))
    PATH = ("deref", ("param", 1))
    if not any(o.kind == "backedge" for o in outs) and any(
            e["k"] == "call" and (e["callee"].get("path") or "").endswith("Iterator::any") for o in outs for e in o.events):
        return r3_validator_iter(ctx, R, outs, PATH)
    kinds = {"nul": 0, "abs": 0, "dotdot": 0, "ok": 0, "loop": 0}
    for o in outs:
        if o.kind not in ("return", "backedge"):
            if o.kind not in ("unreachable", "infeasible"):
                ctx.violation("C19.R3", "C19.R3|path|" + o.kind, "a validator path ends in %s" % o.kind)
            continue
        # atoms
        nul = None
        absf = None
        seg_eq = []
        slash = []
        for k, t, v in o.cons.log:
            if k == "variant" and isinstance(t, tuple) and t[0] == "found":
                if t[2] == const(0) and t[1] == PATH:
                    nul = v
                elif t[2] == const(47):
                    slash.append((t, v))
            if k == "eq" and isinstance(t, tuple) and t[0] == "eq":
                s = repr(t)
                if "'first'" in s and "('const', 47)" in s:
                    absf = v
                elif "'..'" in s:
                    seg_eq.append((t, v))
                else:
                    ctx.violation("C19.R3", "C19.R3|other-test", "UNRECOGNISED equality test in the validator: %s" % short(t, 80))
            if k == "eq" and isinstance(t, tuple) and t[0] == "call" and (t[1].endswith("starts_with") or t[1].endswith("contains")):
                s = repr(t)
                if "'..'" in s:
                    ctx.violation("C19.R3", "C19.R3|dotdot-not-equality", "a segment is tested with %s against `..` instead of equality: names that merely contain dots would be rejected "
                                  "or `..` hidden in a longer segment accepted" % t[1].split("::")[-1])
                elif "'/'" in s or "47" in s:
                    absf = v
        is_err = o.kind == "return" and is_agg(o.value) and o.value[3] == "Err"
        is_ok = o.kind == "return" and is_agg(o.value) and o.value[3] == "Ok"
        reason = None
        if nul == "Some":
            reason = "nul"
        elif absf == 1:
            reason = "abs"
        elif seg_eq and seg_eq[-1][1] == 1:
            reason = "dotdot"
        if is_err:
            if reason is None:
                ctx.violation("C19.R3", "C19.R3|extra-rejection", "the validator rejects a path for a reason other than NUL / leading '/' / a `..` segment", where=_w(o))
            else:
                kinds[reason] += 1
        else:
            if reason is not None:
                ctx.violation("C19.R3", "C19.R3|accepts-%s" % reason, "the validator continues / accepts although the path %s" %
                              {"nul": "contains a NUL byte", "abs": "is absolute", "dotdot": "has a `..` segment"}[reason], where=_w(o))
                continue
            if nul != "None":
                ctx.violation("C19.R3", "C19.R3|nul-unchecked", "a path can be accepted without the NUL scan over the whole path", where=_w(o))
                continue
            if absf != 0:
                ctx.violation("C19.R3", "C19.R3|abs-unchecked", "a path can be accepted without the leading-'/' test", where=_w(o))
                continue
            if not seg_eq or seg_eq[-1][1] != 0:
                ctx.violation("C19.R3", "C19.R3|segment-unchecked", "a segment can be passed over without being compared with `..`", where=_w(o))
                continue
            # the compared segment is left[0 .. next '/' or len]
            t = seg_eq[-1][0]
            seg = t[1] if t[2] == ("bytes", "..") or t[2] == ("str", "..") else t[2]
            okseg = isinstance(seg, tuple) and seg[0] == "slice" and seg[2] == const(0)
            if okseg and slash:
                st, sv = slash[-1]
                left = seg[1]
                if sv == "Some":
                    okseg = seg[3] == ("payload", st, "Some", "0") and st[1] == left
                else:
                    okseg = seg[3] == len_term(left) and st[1] == left
            if not okseg:
                ctx.violation("C19.R3", "C19.R3|segment-bounds", "the segment compared with `..` is %s, not left[0 .. next '/' (or end)]" % short(seg, 80), where=_w(o))
                continue
            if o.kind == "backedge":
                kinds["loop"] += 1
                # left' = left[n+1..]
                st, sv = slash[-1]
                n = ("payload", st, "Some", "0")
                lv = [k for k in o.state.extra.get("loop_entry_values", {}) if k[0] == fn]
                newleft = None
                for (f2, h2, key) in lv:
                    if key[0] == "L" and ctx.facts.bodies[fn]["locals"][key[1]]["s"] == "&[u8]" and not key[2]:
                        cand = o.state.env.get(("L", 0, key[1]))
                        from .etaglist import canon_slice
                        cv = canon_slice(cand)
                        if isinstance(cv[0], tuple) and cv[0][0] == "slice" and cv[0][1] == seg[1]:
                            newleft = cv[0]
                if newleft is None or newleft[2] != mk_binop("Add", n, const(1)) or newleft[3] is not None:
                    ctx.violation("C19.R3", "C19.R3|advance", "after a '/' the scan does not continue exactly one byte past it (next remainder %s)" % short(newleft, 80), where=_w(o))
                else:
                    ctx.ok("C19.R3", "loop row: segment != `..`, continue after the '/'")
            else:
                if slash and slash[-1][1] != "None":
                    ctx.violation("C19.R3", "C19.R3|early-ok", "the validator accepts before the last segment was examined", where=_w(o))
                else:
                    kinds["ok"] += 1
                    ctx.ok("C19.R3", "Ok row: no NUL, not absolute, last segment != `..`")
    # loop entry: the scan starts at the whole path
    for o in outs:
        for (f2, h2, key), v in o.state.extra.get("loop_entry_values", {}).items():
            if f2 == fn and key[0] == "L" and ctx.facts.bodies[fn]["locals"][key[1]]["s"] == "&[u8]" and not key[2] and not (isinstance(v, tuple) and v[0] == "uninit"):
                from .etaglist import canon_slice
                if canon_slice(v) != (PATH, ()):
                    ctx.violation("C19.R3", "C19.R3|scan-start", "the segment scan does not start at the beginning of the path (%s)" % short(v, 60))
    for k in ("nul", "abs", "dotdot", "ok", "loop"):
        if kinds[k] == 0:
            ctx.violation("C19.R3", "C19.R3|missing|" + k, "the validator has no %s row" % k)
    ctx.floor("C19.R3", sum(1 for k in kinds if kinds[k]), 5, what="row kinds of the validator (NUL, absolute, `..`, Ok, loop)")


def _capture_type(ctx, closure_def, name):
    """declared type of a closure's captured variable (by capture name)"""
    b = ctx.facts.bodies.get(closure_def)
    if not b:
        return ""
    # the closure body's debug info names its captures: `debug name => (_1.k: ty)`
    for d in b.get("debug", []) or []:
        pl = d.get("place", {})
        if d.get("name") == name and pl.get("local") == 1 and pl.get("proj"):
            return pl.get("ty", {}).get("s", "")
    return ""


def _only_from(ctx, fn, root):
    """fn is `root` itself, one of its closures, or a private crate-local function all of whose (transitive) callers are"""
    seen = set()
    work = [fn]
    callers = {}
    for cb, ci, ct in ctx.facts.all_calls():
        for k in ("res_path", "path"):
            nm = ct["callee"].get(k)
            if nm in ctx.facts.bodies:
                callers.setdefault(nm, set()).add(cb["name"])
                break
    while work:
        f = work.pop()
        if f in seen:
            continue
        seen.add(f)
        if f.startswith(root):
            continue
        meta = ctx.facts.fns.get(f.split("::{closure")[0], {})
        if meta.get("vis") == "Public":
            return False
        cs = callers.get(f.split("::{closure")[0], set()) | callers.get(f, set())
        if not cs:
            return False
        work.extend(cs)
    return True


def r3_validator_iter(ctx, R, outs, PATH):
    """the same decision table for a validator written with iterator adaptors: NUL test over the whole path, leading-'/' test,
    and `path.split('/').any(|seg| seg == "..")` - the split predicate and the segment predicate are decided by evaluating the
    closures' MIR (true-set of the delimiter test; truth table of the segment test on sample segments)"""
    from .common import pred_true_set
    from .. import models as MM
    kinds = {"nul": 0, "abs": 0, "dotdot": 0, "ok": 0}
    samples = ["..", ".", "...", "", "a", "..a", "a..", "./", ".\0", "x."]
    for o in outs:
        if o.kind != "return":
            if o.kind not in ("unreachable", "infeasible"):
                ctx.violation("C19.R3", "C19.R3|path|" + o.kind, "a validator path ends in %s" % o.kind)
            continue
        nul = absf = dd = None
        for k, t, v in o.cons.log:
            if k == "variant" and isinstance(t, tuple) and t[0] == "found" and t[2] == const(0) and t[1] == PATH:
                nul = int(v == "Some")
            if k == "eq" and isinstance(t, tuple) and t[0] == "contains" and t[1] == PATH and t[2] == const(0):
                nul = v
            if k == "eq" and isinstance(t, tuple) and t[0] == "eq" and "'first'" in repr(t) and "('const', 47)" in repr(t):
                absf = v
            if k == "eq" and isinstance(t, tuple) and t[0] == "call" and t[1].endswith("starts_with") and ("'/'" in repr(t)):
                absf = v
            if k == "eq" and isinstance(t, tuple) and t[0] == "call" and t[1] == "core::str::<impl str>::starts_with" and len(t[2]) == 2 \
                    and t[2][0] in (("&", PATH), PATH) and t[2][1] == const(47):
                absf = v        # starts_with('/') with a char pattern
            if k in ("eq", "notin") and isinstance(t, tuple) and t[0] == "proj" and t[1] == PATH and isinstance(t[2], tuple) and t[2][:3] == ("cidx", 0, False):
                absf = int(v == 47) if k == "eq" else (0 if 47 in v else absf)
        if absf is None and known_empty(o.cons.log, PATH):
            absf = 0        # an empty path cannot start with '/': the length test of the slice pattern failing means "not absolute"
        anys = [e for e in o.events if e["k"] == "call" and (e["callee"].get("path") or "").endswith("Iterator::any")]
        bad = []
        for e in anys:
            src = e["snap"][0] if e["args"][0][0] == "ref" else e["args"][0]
            while isinstance(src, tuple) and src and src[0] in ("&", "refconst", "slice_of"):
                src = src[1]
            if isinstance(src, tuple) and src[0] == "call" and src[1] == "core::str::<impl str>::split" and len(src[2]) == 2 and \
                    src[2][0] in (("&", PATH), PATH) and is_const(src[2][1]) and isinstance(src[2][1][1], int) and src[2][1][1] < 128:
                # str::split(ASCII char): the same runs as splitting the bytes at that byte
                src = ("split", PATH, src[2][1])
            if not (isinstance(src, tuple) and src[0] == "split" and src[1] == PATH):
                bad.append("the segments examined are not `split` of the whole path (%s)" % short(src, 60))
            else:
                delim = {src[2][1]} if is_const(src[2]) else pred_true_set(ctx, src[2])
                if delim != {47}:
                    bad.append("the path is split at %s, not at '/'" % (sorted(delim) if delim is not None else "an unrecognised predicate"))
            # the segment predicate: true exactly on ".."
            body = MM.closure_body(e["args"][1])
            tab = {}
            if body and body in ctx.facts.bodies:
                is_fn = isinstance(e["args"][1], tuple) and e["args"][1] and e["args"][1][0] == "fn"     # a fn item instead of a closure
                pty = ctx.facts.bodies[body]["locals"][1 if is_fn else 2]["s"]
                nref = len(pty) - len(pty.lstrip("&"))
                pxx = P.PX(ctx.facts, models=MM.install(None), inline=lambda c, d: True)
                for s_ in samples:
                    a = ("bytes", s_)
                    for _ in range(nref):
                        a = ("refconst", a)
                    try:
                        vals = {x.value for x in pxx.run(body, args=([a] if is_fn else [e["args"][1], a])) if x.kind == "return"}
                    except Exception:
                        vals = set()
                    tab[s_] = next(iter(vals))[1] if len(vals) == 1 and is_const(next(iter(vals))) else None
            if any(tab.get(s_) != int(s_ == "..") for s_ in samples):
                bad.append("the segment test is not `segment == \"..\"` (on samples: %s)" % {k_: v_ for k_, v_ in tab.items() if v_ != int(k_ == "..")})
            r = e.get("result")
            if r in o.cons.known:
                dd = o.cons.known[r]
        if bad:
            ctx.violation("C19.R3", "C19.R3|iter|%s" % bad[0][:40], "validator: " + "; ".join(bad), where=_w(o))
            continue
        is_err = is_agg(o.value) and o.value[3] == "Err"
        reason = "nul" if nul == 1 else ("abs" if absf == 1 else ("dotdot" if dd == 1 else None))
        if is_err:
            if reason is None:
                ctx.violation("C19.R3", "C19.R3|extra-rejection", "the validator rejects a path for a reason other than NUL / leading '/' / a `..` segment", where=_w(o))
            else:
                kinds[reason] += 1
                ctx.ok("C19.R3", "Err row: %s" % reason)
        else:
            if nul != 0 or absf != 0 or dd != 0:
                ctx.violation("C19.R3", "C19.R3|accepts-unchecked", "the validator accepts a path without having established: no NUL (%s), not absolute (%s), no `..` segment (%s)" % (nul, absf, dd), where=_w(o))
            else:
                kinds["ok"] += 1
                ctx.ok("C19.R3", "Ok row: no NUL, not absolute, no segment equals `..`")
    for k in ("nul", "abs", "dotdot", "ok"):
        if kinds[k] == 0:
            ctx.violation("C19.R3", "C19.R3|missing|" + k, "the validator has no %s row" % k)
    ctx.floor("C19.R3", sum(1 for k in kinds if kinds[k]), 4, what="row kinds of the validator (NUL, absolute, `..`, Ok)")
    ctx.assume("slice::split(pred) yields every maximal run between delimiters, including empty leading / trailing / doubled-delimiter runs "
               "(std documentation); Iterator::any(f) is true iff f is true of some yielded item")


def _w(o):
    for e in reversed(o.events):
        if "span" in e:
            return F.loc(e["span"])
    return None


def r1_r2(ctx, R):
    # R2: who may openat / open
    oa = calls_named(ctx.facts, "libc::openat")
    fns = sorted({b["name"] for b, i, t in oa})
    if len(fns) != 1:
        ctx.violation("C19.R2", "C19.R2|openat-sites", "libc::openat is called in %d functions (%s); expected exactly one opener" % (len(fns), fns))
        return None
    opener = fns[0]
    outs = ctx.px(opener)
    okfd = True
    for o in outs:
        for e in o.events:
            if e["k"] == "call" and e["callee"].get("path") == "libc::openat":
                fd = e["args"][0]
                own = ("field", ("deref", ("param", 1)), R["fd_f"])
                via_accessor = isinstance(fd, tuple) and fd[0] == "call" and fd[1].split("::")[-1] in ("as_raw_fd", "as_fd") and \
                    len(fd[2]) == 1 and fd[2][0] in (own, ("&", own))
                if fd != own and not via_accessor:
                    okfd = False
                    ctx.violation("C19.R2", "C19.R2|dirfd", "openat is not given the base directory's own fd: %s" % short(fd, 60), where=where(e))
    if okfd:
        ctx.ok("C19.R2", "openat only in %s, relative to self.%s" % (opener, R["fd_f"]))
    callers = calls_named(ctx.facts, opener)
    cf = sorted({b["name"] for b, i, t in callers})
    if not all(_only_from(ctx, c, R["get"]) for c in cf):
        ctx.violation("C19.R2", "C19.R2|opener-callers", "%s is also called outside `get`: %s" % (opener, cf))
    else:
        ctx.ok("C19.R2", "%s is called only from get (%d sites)" % (opener, len(callers)))
    op = calls_named(ctx.facts, "libc::open")
    of = sorted({b["name"] for b, i, t in op})
    if any(not f.startswith(R["dir"]) for f in of) or len(of) > 1:
        ctx.violation("C19.R2", "C19.R2|open-sites", "libc::open is called in %s" % of)
    else:
        ctx.ok("C19.R2", "libc::open only in the directory constructor %s" % of)
    ctx.floor("C19.R2", len(oa) + len(op), 2, confirmed=2, what="raw open call sites")
    # R1: validator Err edge returns before any open/spawn
    co = [n for n, b in ctx.facts.bodies.items() if n.startswith(R["get"] + "::{closure#0}") and n.count("{closure") == 1 and b["kind"] == "closure"]
    if len(co) != 1:
        ctx.violation("C19.R1", "C19.R1|coroutine", "UNRECOGNISED: async body of get not found")
        return opener
    outs = ctx.px(co[0])
    n = 0
    for o in outs:
        vcalls = [e for e in o.events if e["k"] == "call" and e["callee"].get("res_path") == R["validate"]]
        later = [e for e in o.events if e["k"] == "call" and (e["callee"].get("path") in ("tokio::task::spawn_blocking", "libc::openat") or e["callee"].get("res_path") == opener)]
        if not vcalls:
            if later:
                ctx.violation("C19.R1", "C19.R1|unvalidated", "get can open a file on a path that skips the validator", where=where(later[0]))
            continue
        res = vcalls[0]["result"]
        arg = vcalls[0]["args"][0]
        var = o.cons.variant_of(res)
        n += 1
        if var == "Err":
            if later:
                ctx.violation("C19.R1", "C19.R1|open-after-reject", "get goes on to open a file although the validator rejected the path", where=where(later[0]))
            elif not (o.kind == "return" and "Err" in fmt_term(o.value)[:80]):
                ctx.violation("C19.R1", "C19.R1|reject-not-err", "a rejected path does not make get return an error")
            else:
                ctx.ok("C19.R1", "validator Err -> get returns Err before any open")
        elif var == "Ok":
            # the bytes copied into the lookup buffer are the validated path's bytes
            ext = [e for e in o.events if e["k"] == "call" and e["callee"].get("path", "").endswith("extend_from_slice")]
            src = [e["args"][1] for e in ext]
            okb = any(a == arg or repr(arg) in repr(a) for a in src)
            if not okb:
                ctx.violation("C19.R1", "C19.R1|other-bytes", "the path opened is not built from the validated string")
            else:
                ctx.ok("C19.R1", "validator Ok -> lookup buffer = the validated bytes")
    ctx.floor("C19.R1", n, 2, what="rows of get through the validator")
    return opener


def r4_lookup(ctx, R, opener):
    co = [n for n, b in ctx.facts.bodies.items() if n.startswith(R["get"] + "::{closure#0}") and n.count("{closure") == 1 and b["kind"] == "closure"][0]
    # the blocking closure and how its `should_gzip` capture is computed
    units = {opener, R["validate"]} | {f["path"] for f in ctx.facts.fns.values() if f["path"].split("::")[-1] == "should_gzip"}
    outs = ctx.px(co, inline=helper_inline(ctx, own=(R["dir"], R["node"]), never=units), key="helpers")
    cap_ok = False
    const_seen = set()
    blocking_defs = set()
    sg_caps = set()
    for o in outs:
        for e in o.events:
            if e["k"] == "call" and e["callee"].get("path") == "tokio::task::spawn_blocking":
                clo = e["args"][0]
                if is_agg(clo):
                    blocking_defs.add(clo[2])
                    for name, t in clo[4]:
                        if boolish(ctx, _capture_type(ctx, clo[2], name)):
                            if t == ("field", ("deref", ("param", 1)), R["auto_f"]) or (isinstance(t, tuple) and t[:1] == ("field",) and t[2] == R["auto_f"]):
                                continue        # a plain copy of the directory's own setting (e.g. to fill the node's field): not the lookup switch
                            sg_caps.add(name)
                            s = repr(t)
                            # auto_gzip && should_gzip(hdrs): the value is the should_gzip call on paths where auto_gzip is known true, const 0 otherwise
                            auto = [v for tt, v in o.cons.known.items() if isinstance(tt, tuple) and tt[0] == "field" and tt[2] == R["auto_f"]]
                            if auto == [1] and isinstance(t, tuple) and t[0] == "call" and t[1].split("::")[-1] == "should_gzip":
                                cap_ok = True
                            # (the switch was already branched on before the hand-off - e.g. to size the buffer -: on each such path
                            # it is the constant the negotiation call is known to have returned there)
                            sgk = [v for tt, v in o.cons.known.items() if isinstance(tt, tuple) and tt[0] == "call" and tt[1].split("::")[-1] == "should_gzip"]
                            if auto == [1] and is_const(t) and sgk == [t[1]]:
                                const_seen.add(t[1])
                                if const_seen == {0, 1}:
                                    cap_ok = True
                            if auto == [0] and t != const(0):
                                ctx.violation("C19.R4", "C19.R4|gzip-without-auto", "the .gz lookup can be enabled although auto_gzip is off")
    if cap_ok:
        ctx.ok("C19.R4", ".gz lookup enabled iff auto_gzip and should_gzip(request headers)")
    else:
        ctx.violation("C19.R4", "C19.R4|condition", "UNRECOGNISED: the .gz lookup condition is not `auto_gzip && should_gzip(headers)`")
    if len(sg_caps) > 1:
        # several two-valued captures: the lookup switch is the one that carries the negotiation result on some path
        with_call = set()
        for o in outs:
            for e in o.events:
                if e["k"] == "call" and e["callee"].get("path") == "tokio::task::spawn_blocking" and is_agg(e["args"][0]):
                    for name, t_ in e["args"][0][4]:
                        if name in sg_caps and isinstance(t_, tuple) and t_[0] == "call" and t_[1].split("::")[-1] == "should_gzip":
                            with_call.add(name)
        if with_call:
            sg_caps = with_call
    blocking = sorted(blocking_defs)
    if len(blocking) != 1 or len(sg_caps) != 1:
        ctx.violation("C19.R4", "C19.R4|closure", "UNRECOGNISED blocking closure (closures handed to spawn_blocking: %s; two-valued captures: %s)" % (blocking, sorted(sg_caps)))
        return
    sg_cap = next(iter(sg_caps))
    # crate-local helpers of the lookup (e.g. an extracted "try the .gz sibling" method) are expanded; the opener stays a call
    # captures that hold the same structured value (a buffer built before the hand-off, a saved length) on every path of the
    # caller are analysed with that value; everything else stays a symbolic capture
    cap_vals = {}
    clo0 = None
    for o in outs:
        for e in o.events:
            if e["k"] == "call" and e["callee"].get("path") == "tokio::task::spawn_blocking" and is_agg(e["args"][0]):
                clo0 = e["args"][0]
                for name, t_ in clo0[4]:
                    cap_vals.setdefault(name, set()).add(t_)
    validated = set()
    for o in outs:
        for e in o.events:
            if e["k"] == "call" and e["callee"].get("res_path") == R["validate"]:
                a_ = e["args"][0]
                validated.add(a_)
                if isinstance(a_, tuple) and a_[0] == "ref" and isinstance(a_[1], tuple) and a_[1][0] == "H" and not a_[2]:
                    validated.add(("deref", a_[1][1]))       # a reference to the pointee of the captured `&str`
    seeded = {}
    for name, vs in cap_vals.items():
        if len(vs) == 1 and name != sg_cap:
            v_ = next(iter(vs))
            if isinstance(v_, tuple) and v_[0] in ("appended", "newbuf", "len", "reserved"):
                seeded[name] = v_
    args = None
    if seeded:
        args = [clo0[:4] + (tuple((n_, seeded.get(n_, ("field", ("param", 1), n_))) for n_, _ in clo0[4]),) + clo0[5:]]
        ctx.info("C19.R4: blocking closure analysed with the caller's value for captures %s" % sorted(seeded))
    outs = ctx.px(blocking[0], inline=helper_inline(ctx, own=(R["dir"], R["node"]), never=(opener,)),
                  key=("helpers", tuple(sorted(seeded))), args=args)
    # what a node *reports* is read off its observers (encoding(), add_encoding_headers()) applied to the very node value
    # each lookup row constructs - whatever fields (two bools, small enums, one three-valued enum ..) carry it
    OBS = Observers(ctx, R)
    if not OBS.ok:
        return
    # (the captured lookup switch is a field of the closure environment; when a maintainer names that local like the
    # directory's setting, the two must not be confused: the switch is the capture read directly off the environment)
    OBS.switch_cap = sg_cap
    nrows = 0
    gzflag_rows = 0
    for o in outs:
        if o.kind != "return":
            continue
        nrows += 1
        v = o.value
        opens = [e for e in o.events if e["k"] == "call" and e["callee"].get("res_path") == opener]
        # C strings passed
        for k, e in enumerate(opens):
            p = e["args"][1]
            s = repr(p)
            pieces = None
            # find the buffer term inside from_bytes_with_nul_unchecked(&buf[..])
            cs = [x for x in o.events if x["k"] == "call" and x["callee"].get("path") == "std::ffi::CStr::from_bytes_with_nul_unchecked"]
        cstrs = [x for x in o.events if x["k"] == "call" and x["callee"].get("path") == "std::ffi::CStr::from_bytes_with_nul_unchecked"]
        tails = []
        for x in cstrs:
            a = x["args"][0]
            from .etaglist import canon_slice
            bv, pth = canon_slice(a)
            base, pieces = buf_pieces(bv)
            tail = []
            for k_, pc in enumerate(pieces):
                if seeded and k_ == 0 and isinstance(base, tuple) and base[0] in ("newbuf", "reserved") and pc[0] == "slice" \
                        and any(pc[1] == a_ or repr(a_) in repr(pc[1]) for a_ in validated):
                    tail.append("")        # the buffer (built by the caller) starts with the validated path's bytes
                elif pc[0] == "slice" and isinstance(pc[1], tuple) and pc[1][0] in ("bytes", "str"):
                    tail.append(pc[1][1])
                elif pc[0] == "byte" and is_const(pc[1]):
                    tail.append(chr(pc[1][1]))
                elif pc[0] == "slice" and isinstance(pc[1], tuple) and pc[1][0] == "slice" and isinstance(pc[1][1], tuple) and pc[1][1][0] in ("bytes", "str"):
                    lit = pc[1][1][1]
                    tail.append(lit)
                else:
                    tail.append(None)
            tails.append(("".join(t for t in tail if t is not None), base, tail))
        sgv = None
        for t, val in o.cons.known.items():
            if isinstance(t, tuple) and t[0] == "field" and t[2] == sg_cap:
                sgv = val
        is_ok = is_agg(v) and v[3] == "Ok"
        node = agg_get(v, "0") if is_ok else None
        bad = []
        gz = None
        if is_ok:
            # (the lookup switch is `auto_gzip && should_gzip(..)`, established above: a row taken with the switch on has the
            # directory's setting on)
            obs = OBS.of(node, o, only=([1] if (sgv == 1 and cap_ok) else None)) if is_agg(node) else None
            if obs == {}:
                nrows -= 1
                continue        # the row needs the lookup switch on with the directory's setting off: infeasible
            if not obs:
                bad.append("UNRECOGNISED: what the constructed node reports cannot be evaluated (%s)" % short(node, 60))
            else:
                gzs = {r_["gzip"] for r_ in obs.values()}
                gz = const(int(next(iter(gzs)))) if len(gzs) == 1 else None
                bad5 = []
                for a_, r_ in sorted(obs.items()):
                    if r_["gzip"] != r_["ce"]:
                        bad5.append("encoding() says %s but add_encoding_headers %s Content-Encoding" % ("gzip" if r_["gzip"] else "identity", "sets" if r_["ce"] else "does not set"))
                    if r_["vary"] != bool(a_):
                        bad5.append("Vary is %s although the directory's automatic gzip is %s" % ("set" if r_["vary"] else "absent", "on" if a_ else "off"))
                    if r_["vary"] and (r_["vary_text"] or "").lower() != "accept-encoding":
                        bad5.append("Vary value is %r" % r_["vary_text"])
                    if r_["ce"] and (r_["ce_text"] or "").lower() != "gzip":
                        bad5.append("Content-Encoding value is %r" % r_["ce_text"])
                OBS.rows += len(obs)
                if bad5:
                    ctx.violation("C19.R5", "C19.R5|headers|%s" % bad5[0][:40], "the node a lookup row constructs (should_gzip=%s): %s" % (sgv, "; ".join(sorted(set(bad5)))), where=_w(o))
        for lit, base, tail in tails:
            if lit not in ("\0", ".gz\0"):
                bad.append("a C string is built from the captured path + %r (expected the path followed by NUL or by `.gz` NUL)" % lit)
            if None in tail:
                bad.append("a C string contains bytes that are neither the validated path nor a literal suffix")
        if sgv == 0:
            if any(l == ".gz\0" for l, _, _ in tails):
                bad.append("the .gz sibling is tried although the lookup is disabled")
            if is_ok and gz != const(0):
                bad.append("a node is flagged gzip without the .gz lookup")
        if is_ok and gz == const(1):
            gzflag_rows += 1
            if [l for l, _, _ in tails] != [".gz\0"]:
                bad.append("the gzip-flagged node was not opened as <path>.gz")
            isdir = [val for t, val in o.cons.known.items() if isinstance(t, tuple) and t[0] == "call" and t[1].endswith("Metadata::is_dir")]
            if isdir != [0]:
                bad.append("the gzip-flagged node may be a directory")
        if is_ok and gz == const(0):
            if not tails or tails[-1][0] != "\0":
                bad.append("the plain node was not opened as <path> NUL (last C string suffix %r)" % (tails[-1][0] if tails else None))
        if is_ok and gz not in (const(0), const(1)) and not bad:
            bad.append("whether the node reports gzip depends on more than the lookup row")
        if bad:
            ctx.violation("C19.R4", "C19.R4|row|%s" % bad[0][:50], "lookup row (should_gzip=%s): %s" % (sgv, "; ".join(bad)), where=_w(o))
        else:
            ctx.ok("C19.R4", "lookup row (should_gzip=%s): %s" % (sgv, ("Ok, node reports %s; Vary iff automatic gzip" % ("gzip" if gz[1] else "identity")) if is_ok else "Err"))
    # NotFound / directory fall through to the plain path; other errors are returned
    fall = 0
    for o in outs:
        if o.kind != "return":
            continue
        kinds = [val for t, val in o.cons.known.items() if isinstance(t, tuple) and t[0] in ("eq", "binop") and "NotFound" in repr(t)]
        opens = [e for e in o.events if e["k"] == "call" and e["callee"].get("res_path") == opener]
        if len(opens) == 2:
            fall += 1
            first = o.cons.variant_of(opens[0]["result"])
            if first == "Err" and kinds != [1]:
                ctx.violation("C19.R4", "C19.R4|fallback-on-any-error", "the plain path is tried after a .gz open error that is not known to be NotFound", where=_w(o))
        if len(opens) == 1 and o.cons.variant_of(opens[0]["result"]) == "Err" and kinds == [1] and is_agg(o.value) and o.value[3] == "Err":
            # .gz NotFound must not end the lookup
            pass
    ctx.floor("C19.R4", nrows, 8, what="rows of the blocking lookup closure")
    ctx.floor("C19.R4.gz", gzflag_rows, 1, what="rows producing a gzip-flagged node")
    ctx.floor("C19.R4.fallback", fall, 2, what="rows that fall back from .gz to the plain path")
    ctx.floor("C19.R5", OBS.rows, 4, what="(lookup row, directory setting) pairs on which encoding() / add_encoding_headers() were evaluated")
    # is_gzipped: true is constructed only there
    sites = aggregates(ctx.facts, R["node"])
    for b, i, st in sites:
        if not _only_from(ctx, b["name"], R["get"]):
            ctx.violation("C19.R5", "C19.R5|node-site", "a node is constructed outside get: %s" % b["name"])


class Observers:
    """encoding() / add_encoding_headers() evaluated on a concrete node value (C19.R5): representation-independent"""

    def __init__(self, ctx, R):
        self.ctx, self.R = ctx, R
        self.rows = 0
        self.cache = {}
        enc = inherent_fn(ctx, R["node"], "encoding")
        aeh = inherent_fn(ctx, R["node"], "add_encoding_headers")
        self.ok = len(enc) == 1 and len(aeh) == 1
        if not self.ok:
            ctx.violation("C19.R5", "C19.R5|fns", "UNRECOGNISED: encoding / add_encoding_headers not found")
            return
        self.enc, self.aeh = enc[0], aeh[0]

    switch_cap = None

    def _is_setting(self, t):
        """a read of the directory's automatic-gzip field (not the closure's captured switch of the same name)"""
        if not (isinstance(t, tuple) and len(t) == 3 and t[0] == "field" and t[2] == self.R["auto_f"]):
            return False
        if self.switch_cap == self.R["auto_f"] and t[1] in (("deref", ("param", 1)), ("param", 1)):
            return False
        return True

    def _subst(self, t, a):
        """the directory's own setting, wherever the node copied it from, replaced by the constant a"""
        if not isinstance(t, tuple) or not t:
            return t
        if self._is_setting(t):
            return const(a)
        return tuple(self._subst(x, a) if isinstance(x, tuple) else x for x in t)

    def _has_auto(self, t):
        if not isinstance(t, tuple) or not t:
            return False
        if self._is_setting(t):
            return True
        return any(self._has_auto(x) for x in t if isinstance(x, tuple))

    def of(self, node, o, only=None):
        """{a: report} for every value a of the directory's automatic-gzip setting that row o allows"""
        known = {v for t_, v in o.cons.known.items() if self._is_setting(t_)}
        feas = sorted(known) if known else [0, 1]
        if only is not None:
            feas = [a for a in feas if a in only]
        out = {}
        for a in feas:
            nv = self._subst(node, a)
            # opaque parts that do not matter to the observers (the file, its metadata) stay symbolic
            key = repr(tuple((n_, v_) for n_, v_ in nv[4] if n_ not in self._opaque_fields()))
            if key not in self.cache:
                self.cache[key] = self._eval(nv, len(self.cache))
            if self.cache[key] is None:
                return None
            out[a] = self.cache[key]
        return out

    def _opaque_fields(self):
        return {f["name"] for f in self.ctx.facts.adts[self.R["node"]]["variants"][0]["fields"] if f["ty"] in ("std::fs::File", "std::fs::Metadata")}

    def _eval(self, nv, idx):
        ctx, R = self.ctx, self.R
        rep = {}
        outs = [o for o in ctx.px(self.enc, inline=helper_inline(ctx, own=(R["node"],)), key=("obs-enc", idx), args=[("refconst", nv)]) if o.kind == "return"]
        vals = set()
        for o in outs:
            v = o.value
            if is_agg(v) and v[3] == "Some" and "gzip" in repr(agg_get(v, "0")):
                vals.add(True)
            elif is_agg(v) and v[3] == "None":
                vals.add(False)
            else:
                vals.add(None)
        if len(vals) != 1 or None in vals:
            ctx.violation("C19.R5", "C19.R5|encoding", "encoding() does not give one definite answer (Some(\"gzip\") / None) for a node value that `get` constructs: %s" % sorted(map(str, vals)))
            return None
        rep["gzip"] = next(iter(vals))
        outs = [o for o in ctx.px(self.aeh, inline=lambda c, d: True, key=("obs-aeh", idx), args=[("refconst", nv), ("param", 2)]) if o.kind == "return"]
        seen = set()
        for o in outs:
            ins = [e for e in o.events if e["k"] == "call" and e["callee"].get("path", "").endswith("HeaderMap::<T>::insert")]
            vals_ = {SM.hdr_name(e["args"][1]): SM.fmt_value(e["args"][2]) for e in ins}
            extra = sorted(set(vals_) - {"CONTENT_ENCODING", "VARY"})
            if extra:
                ctx.violation("C19.R5", "C19.R5|other-header", "add_encoding_headers sets %s" % extra)
                return None
            raw = {SM.hdr_name(e["args"][1]): e["args"][2] for e in ins}
            cetxt = (vals_.get("CONTENT_ENCODING") or {}).get("text")
            if cetxt is None and "CONTENT_ENCODING" in raw and "'gzip'" in repr(raw["CONTENT_ENCODING"]):
                cetxt = "gzip"        # from_static(e) with e the text encoding() returned on this path
            seen.add(("CONTENT_ENCODING" in vals_, "VARY" in vals_, (vals_.get("VARY") or {}).get("text"), cetxt))
        if len(seen) != 1:
            ctx.violation("C19.R5", "C19.R5|headers", "add_encoding_headers does not behave as one function of the node value `get` constructs (%d behaviours)" % len(seen))
            return None
        ce, vary, vtxt, cetxt = next(iter(seen))
        rep.update({"ce": ce, "vary": vary, "vary_text": vtxt, "ce_text": cetxt})
        ctx.ok("C19.R5", "observers on a constructed node: encoding()=%s, Content-Encoding %s, Vary %s" % ("gzip" if rep["gzip"] else "None", "set" if ce else "absent", "set" if vary else "absent"))
        return rep


def r5_config_plumbing(ctx, R):
    """the auto_gzip setting chosen on the builder is the one the directory object carries (and `get` consults)"""
    sites = aggregates(ctx.facts, R["dir"])
    ctors = sorted({b["name"] for b, i, st in sites})
    n = 0
    for fn in ctors:
        b = ctx.facts.bodies[fn]
        bparams = [i for i in range(1, b["arg_count"] + 1) if boolish(ctx, b["locals"][i]["s"])]
        for o in ctx.px(fn):
            if o.kind != "return":
                continue
            for key, v in list(o.state.env.items()):
                if key[0] == "H" and is_agg(v) and v[2] == R["dir"]:
                    n += 1
                    av = agg_get(v, R["auto_f"])
                    if len(bparams) == 1 and av == ("param", bparams[0]):
                        ctx.ok("C19.R5", "%s stores the auto_gzip argument in the directory object" % fn)
                    else:
                        ctx.violation("C19.R5", "C19.R5|ctor-auto", "%s builds the directory object with auto_gzip = %s, not its argument" % (fn, short(av, 40)))
        # callers pass the builder's own setting
        for cb, ci, ct in calls_named(ctx.facts, fn):
            for o in ctx.px(cb["name"]):
                for e in o.events:
                    if e["k"] == "call" and e["callee"].get("res_path") == fn and len(bparams) == 1:
                        a = e["args"][bparams[0] - 1]
                        okk = isinstance(a, tuple) and a[0] == "field" and a[1] == ("deref", ("param", 1))
                        if okk:
                            ctx.ok("C19.R5", "%s passes the builder's own auto_gzip field" % cb["name"])
                            # and the setter on that builder type stores its argument
                            bad = None
                        else:
                            ctx.violation("C19.R5", "C19.R5|builder-pass", "%s does not pass the builder's auto_gzip setting (passes %s)" % (cb["name"], short(a, 40)))
    # the setter: a method of a struct with exactly one bool field returning Self with that field = its bool argument
    for a in ctx.facts.adts.values():
        if a["local"] and a["kind"] == "struct" and [f["ty"] for f in a["variants"][0]["fields"]] == ["bool"] and a["path"] != R["dir"]:
            fld = a["variants"][0]["fields"][0]["name"]
            for f in ctx.facts.fns.values():
                if (f.get("impl_self") or "") == a["path"] and not f.get("impl_trait"):
                    body = ctx.facts.bodies[f["path"]]
                    if body["arg_count"] == 2 and boolish(ctx, body["locals"][2]["s"]) and body["locals"][0]["s"] == a["path"]:
                        outs = [o for o in ctx.px(f["path"]) if o.kind == "return"]
                        v = outs[0].value if len(outs) == 1 else None
                        got = agg_get(v, fld) if is_agg(v) else (v[3] if isinstance(v, tuple) and v and v[0] == "upd" and v[2] == ("f", fld) else None)
                        n += 1
                        if got == ("param", 2):
                            ctx.ok("C19.R5", "%s stores its argument" % f["path"])
                        else:
                            ctx.violation("C19.R5", "C19.R5|setter", "%s does not store its argument as the auto_gzip setting (%s)" % (f["path"], short(v, 60)))
    ctx.floor("C19.R5.cfg", n, 2, what="configuration plumbing sites (setter, constructor)")


def run(ctx):
    R = roles(ctx)
    r3_validator(ctx, R)
    opener = r1_r2(ctx, R)
    if opener:
        r4_lookup(ctx, R, opener)
    r5_config_plumbing(ctx, R)
    # "the request's Accept-Encoding prefers gzip" is what should_gzip computes: its rules (C16.R1-R4) are premises here
    from . import C16
    C16.run(ctx)
