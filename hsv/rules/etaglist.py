"""Shape rules for the entity-tag list tokeniser (the crate-local Iterator over a
`&[u8]` remainder + malformed flag).  Checked on the PX rows of `next`:
 * an element is recognised only after the prefix literal `"` or `W/"`, ends at
   the first byte 0x22 searched *after* that prefix, and includes it
   (split point = prefix length + position + 1);
 * the remainder after an element is exactly the rest; one `,` directly after the
   closing quote is consumed and then SP / HTAB bytes are skipped, nothing else;
 * malformed input (no prefix / no closing quote) sets the flag and ends;
 * index arithmetic and split_at are discharged by the zone solver."""
from ..px import const, is_const, is_agg, agg_get, mk_binop, fmt_term, TY
from .. import px as P
from .. import facts as F
from .. import census as CEN
from .common import where, short, final_read, impl_fn, cons_zone, boolish


def find_list(ctx):
    from ..check import FailClosed
    cands = []
    for a in ctx.facts.adts.values():
        if not a["local"] or a["kind"] != "struct":
            continue
        fs = a["variants"][0]["fields"]
        tys = sorted(f["ty"] for f in fs)
        slice_like = any(t.endswith("[u8]") and t.startswith("&") for t in tys) and any(boolish(ctx, x) for x in tys)
        if (len(fs) == 2 and slice_like) or (len(fs) == 3 and slice_like and "usize" in tys):
            nx = impl_fn(ctx, "std::iter::Iterator", a["path"], "next")
            if nx:
                cands.append((a, nx[0]))
    if len(cands) != 1:
        raise FailClosed("entity-tag list iterator (struct {&[u8], bool} or {&[u8], usize, bool} implementing Iterator) not found uniquely")
    a, nx = cands[0]
    rem = [f["name"] for f in a["variants"][0]["fields"] if f["ty"].endswith("[u8]")][0]
    flag = [f["name"] for f in a["variants"][0]["fields"] if boolish(ctx, f["ty"])][0]
    return a["path"], nx, rem, flag


def cursor_field(ctx, adt):
    """name of the usize cursor field when the list keeps (whole input, position) instead of a shrinking slice"""
    fs = ctx.facts.adts[adt]["variants"][0]["fields"]
    pos = [f["name"] for f in fs if f["ty"] == "usize"]
    return pos[0] if len(fs) == 3 and len(pos) == 1 else None


def closure_needle(ctx, clo):
    """the byte a `position(|&b| b == K)` closure compares with"""
    if not (is_agg(clo) and clo[1] == "closure"):
        return None
    outs = ctx.px(clo[2])
    ks = set()
    for o in outs:
        if o.kind != "return":
            continue
        v = o.value
        if isinstance(v, tuple) and v[0] == "binop" and v[1] == "Eq" and is_const(v[3]):
            ks.add(v[3][1])
        elif isinstance(v, tuple) and v[0] == "binop" and v[1] == "Eq" and is_const(v[2]):
            ks.add(v[2][1])
        else:
            ks.add(None)
    return next(iter(ks)) if len(ks) == 1 else None


def tokeniser(ctx, rule):
    adt, nx, remf, flagf = find_list(ctx)
    posf = cursor_field(ctx, adt)
    if posf is not None:
        return tokeniser_cursor(ctx, rule, adt, nx, remf, posf, flagf)
    from .common import helper_inline
    outs = ctx.px(nx, inline=helper_inline(ctx, own=(adt,)), key="helpers")
    SELF = ("H", ("param", 1))
    REM0 = ("deref", ("field", ("deref", ("param", 1)), remf))
    # census: all index / split sites discharged
    sites = CEN.census(ctx, outs)
    for key, s in sorted(sites.items()):
        if s.failed:
            ctx.violation(rule, "%s|site|%s" % (rule, key), "tokeniser: %s (%s)" % (s.failed[0][0], s.failed[0][1][:100]), where=F.loc(s.span))
        else:
            ctx.ok(rule, "site %s" % key, detail=sorted(s.how), where=F.loc(s.span))
    nsome = nnone = 0
    counted = [0]
    for o in outs:
        if o.kind != "return":
            continue
        v = o.value
        rem2 = final_read(ctx, o, SELF, (("f", remf),))
        fl2 = final_read(ctx, o, SELF, (("f", flagf),))
        fl0 = ("field", ("deref", ("param", 1)), flagf)
        var = v[3] if is_agg(v) else None
        # prefix facts on this path
        prefix = None
        for t, val in o.cons.known.items():
            if isinstance(t, tuple) and t[0] == "call" and t[1].endswith("::starts_with") and val == 1 and t[2][0] in (("&", REM0), REM0):
                lit = t[2][1]
                if isinstance(lit, tuple) and lit[0] == "&":
                    lit = lit[1]
                if isinstance(lit, tuple) and lit[0] in ("bytes", "str") and (prefix is None or len(lit[1]) > len(prefix)):
                    prefix = lit[1]
        if prefix is None:
            # a slice pattern (`[b'W', b'/', b'"', ..]`) instead of starts_with: the bytes the path has pinned at 0, 1, 2, ...
            pinned = {}
            for t, val in o.cons.known.items():
                if isinstance(t, tuple) and t[0] == "proj" and t[1] == REM0 and isinstance(t[2], tuple) and t[2][0] == "cidx" and not t[2][2] \
                        and isinstance(val, int):
                    pinned[t[2][1]] = val
            s = ""
            while len(s) in pinned:
                s += chr(pinned[len(s)])
            prefix = s or None
        found = None
        for e in o.events:
            if e["k"] == "call" and isinstance(e.get("result"), tuple) and e["result"][0] == "found":
                found = e
        if var == "Some":
            nsome += 1
            bad = []
            if prefix not in ('"', 'W/"'):
                bad.append("an element is produced without a leading `\"` or `W/\"` (prefix %r)" % prefix)
            if found is None:
                bad.append("no search for the closing quote")
            else:
                needle = closure_needle(ctx, found["result"][2])
                if needle != 34:
                    bad.append("the element end is searched with byte %r, not the closing quote 0x22" % needle)
                hay = found["result"][1]
                k = len(prefix or "")
                if not (isinstance(hay, tuple) and hay[0] == "slice" and hay[2] == const(k) and hay[3] is None):
                    bad.append("the closing quote is searched in %s, not in the bytes after the %d-byte prefix" % (short(hay, 60), k))
                p = ("payload", found["result"], "Some", "0")
                item = agg_get(v, "0")
                iv = item
                if isinstance(iv, tuple) and iv[0] == "ref" and iv[1][0] == "H" and iv[2] == ():
                    iv = iv[1][1]
                if isinstance(iv, tuple) and iv[0] == "slice_of":
                    iv = iv[1]
                want_end = mk_binop("Add", p, const(k + 1))
                if not (isinstance(iv, tuple) and iv[0] == "slice" and iv[2] == const(0) and iv[3] == want_end):
                    bad.append("the element is %s, not remaining[0 .. prefix+position+1]" % short(iv, 80))
                # remainder
                rest = ("slice", hay[1] if isinstance(hay, tuple) and hay[0] == "slice" else None, want_end, None)
                first = ("proj", rest, ("cidx", 0, False, 0))
                comma = o.cons.known.get(first)
                r2 = rem2
                if comma == 44:
                    # consumed the comma, then skipped SP/HTAB: final remainder is the loop-carried slice or rest[1..], or
                    # rest[1..][n..] with n = the length of the longest SP/HTAB prefix (`take_while(..).count()`)
                    okrem = _derived_from_rest_after_comma(o, r2, rest) or _skipped_prefix(ctx, r2, rest)
                    if _skipped_prefix(ctx, r2, rest):
                        counted[0] += 1
                    if not okrem:
                        bad.append("after `,` the remainder is %s (expected the rest after the comma with leading SP/HTAB skipped)" % short(r2, 80))
                    else:
                        # exit condition of the skip loop: empty or first byte not in {SP, HTAB}
                        pass
                else:
                    if canon_slice(r2) != (rest, ()):
                        bad.append("without a `,` right after the closing quote the remainder must be the untouched rest; it is %s" % short(r2, 80))
            if fl2 != fl0:
                bad.append("the malformed flag changes on a well-formed element")
            if bad:
                ctx.violation(rule, "%s|elem|%s" % (rule, bad[0][:50]), "tokeniser: " + "; ".join(bad), where=where(found) if found else None)
            else:
                ctx.ok(rule, "element row (prefix %r, comma=%s)" % (prefix, comma == 44))
        elif var == "None":
            nnone += 1
            z = cons_zone(o)
            empty = any(isinstance(t, tuple) and t[0] == "len" and val == 0 for t, val in o.cons.known.items())
            if empty:
                if fl2 != fl0:
                    ctx.violation(rule, rule + "|empty-sets-flag", "an exhausted list sets the malformed flag")
                else:
                    ctx.ok(rule, "end-of-list row")
            else:
                if fl2 != const(1):
                    ctx.violation(rule, rule + "|malformed-not-flagged", "a malformed list (prefix %r, closing quote %s) ends the iteration without setting the malformed flag" %
                                  (prefix, "missing" if found is not None else "n/a"))
                else:
                    ctx.ok(rule, "malformed row sets the flag (prefix %r)" % prefix)
    # skip loop: only SP / HTAB are skipped, one byte at a time
    nskip = 0
    for o in outs:
        if o.kind != "backedge":
            continue
        nskip += 1
        skipped = [val for t, val in o.cons.known.items() if isinstance(t, tuple) and t[0] == "proj" and "loopvar" in fmt_term(t)[:60]]
        if not skipped or any(s not in (32, 9) for s in skipped):
            ctx.violation(rule, rule + "|skip-bytes", "the whitespace loop skips byte(s) %s; only SP (32) and HTAB (9) may be skipped" % skipped)
        else:
            ctx.ok(rule, "skip-loop row skips byte %s" % skipped)
    ctx.floor(rule, nsome, 4, what="element rows")
    ctx.floor(rule + ".none", nnone, 3, what="None rows (end, no prefix, no closing quote)")
    ctx.floor(rule + ".skip", nskip + 2 * min(counted[0], 1), 2, what="whitespace-skip rows (loop turns, or a counted SP/HTAB prefix)")


def _skipped_prefix(ctx, r2, rest):
    """r2 is rest[1 + n ..] with n = prefix_len(rest[1..], p) and p true exactly on SP and HTAB"""
    from .common import pred_true_set
    base, path = canon_slice(r2)
    if path != () or not (isinstance(base, tuple) and base[0] == "slice" and base[3] is None and isinstance(rest, tuple) and rest[0] == "slice"):
        return False
    after = ("slice", rest[1], mk_binop("Add", rest[2], const(1)), rest[3])
    if base[1] != rest[1]:
        return False
    # base[2] == after.start + prefix_len(after, pred)
    n = None
    for cand in _addends(base[2]):
        if isinstance(cand, tuple) and cand and cand[0] == "prefix_len":
            n = cand
    if n is None or n[1] != after:
        return False
    from ..zone import same_sum
    if not same_sum(base[2], mk_binop("Add", after[2], n)):
        return False
    return pred_true_set(ctx, n[2]) == {32, 9}


def _addends(t):
    if isinstance(t, tuple) and t and t[0] == "binop" and t[1] == "Add":
        return _addends(t[2]) + _addends(t[3])
    return [t]


def tokeniser_cursor(ctx, rule, adt, nx, inputf, posf, flagf):
    """the same tokeniser rules for the representation (whole input, cursor): the unread text is input[pos..]; an element is
    input[pos .. pos+k+p+1] for the prefix length k and the position p of the first 0x22 after the prefix; then one `,`
    directly after it is stepped over and SP / HTAB bytes are skipped one at a time; object invariant pos <= len(input)"""
    from .common import helper_inline
    from ..zone import Zone, same_sum
    from ..models import len_term
    SELF = ("H", ("param", 1))
    S0 = ("deref", ("param", 1))
    INPUT = ("deref", ("field", S0, inputf))
    POS = ("field", S0, posf)
    LEN = len_term(INPUT)
    TY.setdefault(POS, (64, False))
    TY.setdefault(LEN, (64, False))
    fl0 = ("field", S0, flagf)

    def setup(st, px):
        st.cons.rel.append(("Le", POS, LEN))          # object invariant (established by the constructor, preserved below)

    def loop_assume(px, st, fr, header):
        # loop invariant of the skip loop: the cursor stays within the input
        for (f2, h2, key), init in list(st.extra.get("loop_entry_values", {}).items())[-8:]:
            pass
        if fr.fid == 0:
            for key, v in list(st.env.items()):
                if key[0] == "L" and key[1] == 0 and isinstance(v, tuple) and v and v[0] == "loopvar" and v[2] == header and TY.get(v, (0,))[0] == 64:
                    st.cons.rel.append(("Le", v, LEN))
    outs = ctx.px(nx, inline=helper_inline(ctx, own=(adt,)), setup=setup, loop_assume=loop_assume, key="cursor")
    sites = CEN.census(ctx, outs)
    for key, s in sorted(sites.items()):
        if s.failed:
            ctx.violation(rule, "%s|site|%s" % (rule, key), "tokeniser: %s (%s)" % (s.failed[0][0], s.failed[0][1][:100]), where=F.loc(s.span))
        else:
            ctx.ok(rule, "site %s" % key, detail=sorted(s.how), where=F.loc(s.span))

    def zone(o, *terms):
        cc = P.Cons()
        cc.rel = list(o.cons.rel)
        return Zone(cc, extra_terms=tuple(x for x in terms if x is not None) + (POS, LEN))

    def byte_at(o, at):
        """what the path knows about input[at]: ("eq", c) / ("notin", set) / ("oob",) / None"""
        for tt, val in o.cons.known.items():
            if isinstance(tt, tuple) and tt[0] == "deref" and isinstance(tt[1], tuple) and tt[1][0] == "elem" and tt[1][1] == INPUT:
                if same_sum(tt[1][2], at) or zone(o, tt[1][2], at).entails("Eq", tt[1][2], at):
                    return ("eq", val)
        for tt, vals in o.cons.notin.items():
            if isinstance(tt, tuple) and tt[0] == "deref" and isinstance(tt[1], tuple) and tt[1][0] == "elem" and tt[1][1] == INPUT:
                if same_sum(tt[1][2], at) or zone(o, tt[1][2], at).entails("Eq", tt[1][2], at):
                    return ("notin", set(vals))
        if zone(o, at).entails("Le", LEN, at):
            return ("oob",)
        for op_, a_, b_ in o.cons.rel:
            if op_ == "Le" and a_ == LEN and same_sum(b_, at):
                return ("oob",)
        return None
    nsome = nnone = nskip = 0
    for o in outs:
        if o.kind == "backedge":
            # the skip loop: one SP / HTAB at the cursor, cursor + 1
            nskip += 1
            lvs = [v for k_, v in o.state.extra.get("loop_entry_values", {}).items() if False]
            fn_, header = o.where
            curs = [(k3, init) for (f2, h2, k3), init in [(k_, v_) for k_, v_ in o.state.extra.get("loop_entry_values", {}).items() if len(k_) == 3]
                    if f2 == fn_ and h2 == header and k3[0] == "L" and ctx.facts.bodies[fn_]["locals"][k3[1]]["s"] == "usize" and not k3[2]]
            okk = False
            for k3, init in curs:
                lv = ("loopvar", fn_, header, k3, 0)
                b = byte_at(o, lv)
                new = o.state.env.get(("L", o.state.frames[-1].fid, k3[1]))
                if b and b[0] == "eq" and b[1] in (32, 9) and new == mk_binop("Add", lv, const(1)):
                    okk = True
            if okk:
                ctx.ok(rule, "skip-loop row: SP / HTAB at the cursor, cursor + 1")
            else:
                ctx.violation(rule, rule + "|skip-bytes", "the whitespace loop does not advance the cursor by one over exactly SP (32) / HTAB (9)", where=_w2(o))
            continue
        if o.kind != "return":
            continue
        v = o.value
        pos2 = final_read(ctx, o, SELF, (("f", posf),))
        fl2 = final_read(ctx, o, SELF, (("f", flagf),))
        in2 = final_read(ctx, o, SELF, (("f", inputf),))
        var = v[3] if is_agg(v) else None
        z = zone(o, pos2)
        if not z.feasible():
            continue
        bad = []
        if canon_slice(in2)[0] != INPUT and in2 != ("field", S0, inputf):
            bad.append("the input field is reassigned")
        if not z.entails("Le", pos2, LEN):
            bad.append("the cursor may leave the input (pos' = %s <= len not implied)" % short(pos2, 60))
        prefix = None
        for tt, val in o.cons.known.items():
            if isinstance(tt, tuple) and tt[0] == "call" and tt[1].endswith("::starts_with") and val == 1:
                hay, lit = tt[2][0], tt[2][1]
                while isinstance(hay, tuple) and hay and hay[0] in ("&", "slice_of"):
                    hay = hay[1]
                while isinstance(lit, tuple) and lit and lit[0] == "&":
                    lit = lit[1]
                if hay == ("slice", INPUT, POS, None) and isinstance(lit, tuple) and lit[0] in ("bytes", "str"):
                    prefix = lit[1]
        if prefix is None:
            s_ = ""
            while True:
                b = byte_at(o, mk_binop("Add", POS, const(len(s_))))
                if b and b[0] == "eq" and isinstance(b[1], int):
                    s_ += chr(b[1])
                else:
                    break
            prefix = s_ or None
        found = None
        for e in o.events:
            if e["k"] == "call" and isinstance(e.get("result"), tuple) and e["result"][0] == "found":
                found = e
        if var == "Some":
            nsome += 1
            if prefix not in ('"', 'W/"'):
                bad.append("an element is produced without a leading `\"` or `W/\"` at the cursor (prefix %r)" % prefix)
            k = len(prefix or "")
            if found is None:
                bad.append("no search for the closing quote")
            else:
                if closure_needle(ctx, found["result"][2]) != 34 and found["result"][2] != const(34):
                    bad.append("the element end is not searched with the closing quote 0x22")
                hay = found["result"][1]
                if hay != ("slice", INPUT, mk_binop("Add", POS, const(k)), None):
                    bad.append("the closing quote is searched in %s, not in the input after the cursor + %d-byte prefix" % (short(hay, 60), k))
                p_ = ("payload", found["result"], "Some", "0")
                TY.setdefault(p_, (64, False))
                E = mk_binop("Add", mk_binop("Add", POS, p_), const(k + 1))
                item = agg_get(v, "0")
                iv = canon_slice(item)[0] if canon_slice(item)[1] == () else None
                zz = zone(o, E, pos2)
                if not (isinstance(iv, tuple) and iv[0] == "slice" and iv[1] == INPUT and iv[3] is not None and zz.entails("Eq", iv[2], POS) and
                        (same_sum(iv[3], E) or Zone(zz.cons, extra_terms=(iv[3], E)).entails("Eq", iv[3], E))):
                    bad.append("the element is %s, not input[pos .. pos+prefix+position+1]" % short(iv, 80))
                after = byte_at(o, E)
                if after and after[0] == "eq" and after[1] == 44:
                    # one comma consumed, then SP / HTAB skipped: the final cursor is E+1 or the loop variable that started there
                    okp = same_sum(pos2, mk_binop("Add", E, const(1))) or Zone(zz.cons, extra_terms=(pos2, E)).entails("Eq", pos2, mk_binop("Add", E, const(1)))
                    if not okp and isinstance(pos2, tuple) and pos2[0] == "loopvar":
                        lev = o.state.extra.get("loop_entry_values", {})
                        entry = lev.get((pos2[1], pos2[2], pos2[3]))
                        okp = entry is not None and (same_sum(entry, mk_binop("Add", E, const(1))) or
                                                     Zone(zz.cons, extra_terms=(entry, E)).entails("Eq", entry, mk_binop("Add", E, const(1))))
                        stop = byte_at(o, pos2)
                        if okp and not (stop and (stop[0] == "oob" or (stop[0] == "notin" and {32, 9} <= stop[1]) or (stop[0] == "eq" and stop[1] not in (32, 9)))):
                            bad.append("the whitespace skip stops although the byte at the cursor may be SP / HTAB")
                    if not okp:
                        bad.append("after `,` the cursor is %s (expected just past the comma, then past SP / HTAB)" % short(pos2, 60))
                elif after and (after[0] == "oob" or (after[0] == "notin" and 44 in after[1]) or (after[0] == "eq" and after[1] != 44)):
                    if not (same_sum(pos2, E) or Zone(zz.cons, extra_terms=(pos2, E)).entails("Eq", pos2, E)):
                        bad.append("without a `,` right after the closing quote the cursor must stop right after the element; it is %s" % short(pos2, 60))
                else:
                    bad.append("the byte after the closing quote is not examined")
            if fl2 != fl0:
                bad.append("the malformed flag changes on a well-formed element")
            if bad:
                ctx.violation(rule, "%s|elem|%s" % (rule, bad[0][:50]), "tokeniser: " + "; ".join(bad), where=_w2(o))
            else:
                ctx.ok(rule, "element row (prefix %r)" % prefix)
        elif var == "None":
            nnone += 1
            if z.entails("Eq", POS, LEN):
                if fl2 != fl0 or bad:
                    ctx.violation(rule, rule + "|empty-sets-flag", "an exhausted list sets the malformed flag%s" % ("; " + "; ".join(bad) if bad else ""))
                else:
                    ctx.ok(rule, "end-of-list row")
            elif fl2 != const(1):
                ctx.violation(rule, rule + "|malformed-not-flagged", "a malformed list (prefix %r, closing quote %s) ends the iteration without setting the malformed flag" %
                              (prefix, "missing" if found is not None else "n/a"))
            elif bad:
                ctx.violation(rule, "%s|none|%s" % (rule, bad[0][:40]), "tokeniser: " + "; ".join(bad), where=_w2(o))
            else:
                ctx.ok(rule, "malformed row sets the flag (prefix %r)" % prefix)
    ctx.floor(rule, nsome, 4, what="element rows")
    ctx.floor(rule + ".none", nnone, 3, what="None rows (end, no prefix, no closing quote)")
    ctx.floor(rule + ".skip", nskip, 2, what="whitespace-skip rows")
    ctx.assume("object invariant of the tag-list cursor: pos <= len(input) (0 at construction; preserved on every row, checked)")


def _w2(o):
    for e in reversed(o.events):
        if "span" in e:
            return F.loc(e["span"])
    return None


def canon_slice(t):
    """(sequence value, projection path) a slice reference denotes"""
    if isinstance(t, tuple) and t and t[0] == "ref" and t[1][0] == "H":
        p = t[1][1]
        if isinstance(p, tuple) and p[0] == "slice_of":
            return p[1], t[2]
        return ("deref", p), t[2]
    if isinstance(t, tuple) and t and t[0] == "slice_of":
        return t[1], ()
    return t, ()


def _norm_slice(bp):
    """one form for `x[k..]` whether it was written as a rest pattern (path form) or as an index / strip_prefix (value form)"""
    base, path = bp
    if len(path) == 1 and path[0][0] == "subslice" and path[0][2] == 0 and path[0][3]:
        k = path[0][1]
        if isinstance(base, tuple) and base and base[0] == "slice" and len(base) == 4:
            return (("slice", base[1], mk_binop("Add", base[2], const(k)), base[3]), ())
        return (("slice", base, const(k), None), ())
    return bp


def _derived_from_rest_after_comma(o, r2, rest):
    """r2 is rest[1..] or the loop-carried slice whose entry value is rest[1..]"""
    after = _norm_slice((rest, (("subslice", 1, 0, True),)))
    _cs = canon_slice
    canon = lambda x: _norm_slice(_cs(x))
    if canon(r2) == after:
        # nothing skipped: right only where the path has established that no SP / HTAB is ahead (the exit condition of a
        # skip loop, an empty rest, a counted whitespace prefix of length 0)
        return _no_ows_ahead(o, after[0])
    base, path = canon_slice(r2)
    if isinstance(base, tuple) and base[0] == "deref" and isinstance(base[1], tuple) and base[1][0] == "loopvar" and path == ():
        lv = base[1]
        lev = o.state.extra.get("loop_entry_values", {})
        # (a loop in an expanded helper - `skip_delimiter(rest)` - carries its call chain in the loop variable)
        entry = lev.get((lv[1], lv[2], lv[3]) + ((lv[5],) if len(lv) > 5 else ()))
        return entry is not None and canon(entry) == after
    return False


def _no_ows_ahead(o, seq):
    def same_seq(x):
        return x == seq or _norm_slice(canon_slice(x)) == (seq, ()) or (isinstance(x, tuple) and x and x[0] in ("deref", "&", "ref") and
                                                                      len(x) > 1 and isinstance(x[1], tuple) and same_seq(x[1]))
    for t, v in o.cons.known.items():
        if not isinstance(t, tuple) or not t:
            continue
        if t[0] == "len" and same_seq(t[1]) and v == 0:
            return True
        if t[0] == "proj" and same_seq(t[1]) and t[2] == ("cidx", 0, False, 0) and isinstance(v, int) and v not in (32, 9):
            return True
        if t[0] == "prefix_len" and same_seq(t[1]) and v == 0:
            return True
    for t, vals in o.cons.notin.items():
        if isinstance(t, tuple) and t and t[0] == "proj" and same_seq(t[1]) and t[2] == ("cidx", 0, False, 0) and {32, 9} <= set(vals):
            return True
    z = cons_zone(o)
    for rel in o.cons.rel:
        for t in rel[1:]:
            if isinstance(t, tuple) and t and t[0] == "prefix_len" and same_seq(t[1]) and z.entails("Eq", t, const(0)):
                return True
    return False


def list_constructor(ctx, rule):
    """every construction of the list iterator starts with the whole header value and the malformed flag clear"""
    from .common import aggregates
    adt, nx, remf, flagf = find_list(ctx)
    n = 0
    for b, i, st in aggregates(ctx.facts, adt):
        for o in ctx.px(b["name"]):
            if o.kind != "return" or not is_agg(o.value) or o.value[2] != adt:
                continue
            n += 1
            fl = agg_get(o.value, flagf)
            rm = agg_get(o.value, remf)
            bad = []
            if fl != const(0):
                bad.append("the malformed flag starts as %s" % short(fl, 20))
            if canon_slice(rm)[0] not in (("param", 1), ("deref", ("param", 1))) or canon_slice(rm)[1] != ():
                bad.append("the remainder starts as %s, not the header value given" % short(rm, 40))
            posf = cursor_field(ctx, adt)
            if posf is not None and agg_get(o.value, posf) != const(0):
                bad.append("the cursor starts at %s, not 0" % short(agg_get(o.value, posf), 20))
            if bad:
                ctx.violation(rule, "%s|ctor|%s" % (rule, bad[0][:30]), "tag-list iterator constructed in %s: %s" % (b["name"], "; ".join(bad)), where=F.loc(st["span"]))
            else:
                ctx.ok(rule, "%s: starts at the whole value with the malformed flag clear" % b["name"])
    ctx.floor(rule + ".ctor", n, 1, what="construction paths of the tag-list iterator")
