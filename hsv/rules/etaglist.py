"""Shape rules for the entity-tag list tokeniser (the crate-local Iterator over a
`&[u8]` remainder + malformed flag).  Checked on the PX rows of `next`:
 * an element is recognised only after the prefix literal `"` or `W/"`, ends at
   the first byte 0x22 searched *after* that prefix, and includes it
   (split point = prefix length + position + 1);
 * the remainder after an element is exactly the rest; one `,` directly after the
   closing quote is consumed and then SP / HTAB bytes are skipped, nothing else;
 * malformed input (no prefix / no closing quote) sets the flag and ends;
 * index arithmetic and split_at are discharged by the zone solver."""
from ..px import const, is_const, is_agg, agg_get, mk_binop, fmt_term, TY
from .. import px as P
from .. import facts as F
from .. import census as CEN
from .common import where, short, final_read, impl_fn, cons_zone, boolish


def find_list(ctx):
    from ..check import FailClosed
    cands = []
    for a in ctx.facts.adts.values():
        if not a["local"] or a["kind"] != "struct":
            continue
        fs = a["variants"][0]["fields"]
        tys = sorted(f["ty"] for f in fs)
        if len(fs) == 2 and any(t.endswith("[u8]") and t.startswith("&") for t in tys) and any(boolish(ctx, x) for x in tys):
            nx = impl_fn(ctx, "std::iter::Iterator", a["path"], "next")
            if nx:
                cands.append((a, nx[0]))
    if len(cands) != 1:
        raise FailClosed("entity-tag list iterator (struct {&[u8], bool} implementing Iterator) not found uniquely")
    a, nx = cands[0]
    rem = [f["name"] for f in a["variants"][0]["fields"] if f["ty"].endswith("[u8]")][0]
    flag = [f["name"] for f in a["variants"][0]["fields"] if boolish(ctx, f["ty"])][0]
    return a["path"], nx, rem, flag


def closure_needle(ctx, clo):
    """the byte a `position(|&b| b == K)` closure compares with"""
    if not (is_agg(clo) and clo[1] == "closure"):
        return None
    outs = ctx.px(clo[2])
    ks = set()
    for o in outs:
        if o.kind != "return":
            continue
        v = o.value
        if isinstance(v, tuple) and v[0] == "binop" and v[1] == "Eq" and is_const(v[3]):
            ks.add(v[3][1])
        elif isinstance(v, tuple) and v[0] == "binop" and v[1] == "Eq" and is_const(v[2]):
            ks.add(v[2][1])
        else:
            ks.add(None)
    return next(iter(ks)) if len(ks) == 1 else None


def tokeniser(ctx, rule):
    adt, nx, remf, flagf = find_list(ctx)
    from .common import helper_inline
    outs = ctx.px(nx, inline=helper_inline(ctx, own=(adt,)), key="helpers")
    SELF = ("H", ("param", 1))
    REM0 = ("deref", ("field", ("deref", ("param", 1)), remf))
    # census: all index / split sites discharged
    sites = CEN.census(ctx, outs)
    for key, s in sorted(sites.items()):
        if s.failed:
            ctx.violation(rule, "%s|site|%s" % (rule, key), "tokeniser: %s (%s)" % (s.failed[0][0], s.failed[0][1][:100]), where=F.loc(s.span))
        else:
            ctx.ok(rule, "site %s" % key, detail=sorted(s.how), where=F.loc(s.span))
    nsome = nnone = 0
    for o in outs:
        if o.kind != "return":
            continue
        v = o.value
        rem2 = final_read(ctx, o, SELF, (("f", remf),))
        fl2 = final_read(ctx, o, SELF, (("f", flagf),))
        fl0 = ("field", ("deref", ("param", 1)), flagf)
        var = v[3] if is_agg(v) else None
        # prefix facts on this path
        prefix = None
        for t, val in o.cons.known.items():
            if isinstance(t, tuple) and t[0] == "call" and t[1].endswith("::starts_with") and val == 1:
                lit = t[2][1]
                if isinstance(lit, tuple) and lit[0] == "&":
                    lit = lit[1]
                if isinstance(lit, tuple) and lit[0] in ("bytes", "str"):
                    prefix = lit[1]
        if prefix is None:
            # a slice pattern (`[b'W', b'/', b'"', ..]`) instead of starts_with: the bytes the path has pinned at 0, 1, 2, ...
            pinned = {}
            for t, val in o.cons.known.items():
                if isinstance(t, tuple) and t[0] == "proj" and t[1] == REM0 and isinstance(t[2], tuple) and t[2][0] == "cidx" and not t[2][2] \
                        and isinstance(val, int):
                    pinned[t[2][1]] = val
            s = ""
            while len(s) in pinned:
                s += chr(pinned[len(s)])
            prefix = s or None
        found = None
        for e in o.events:
            if e["k"] == "call" and isinstance(e.get("result"), tuple) and e["result"][0] == "found":
                found = e
        if var == "Some":
            nsome += 1
            bad = []
            if prefix not in ('"', 'W/"'):
                bad.append("an element is produced without a leading `\"` or `W/\"` (prefix %r)" % prefix)
            if found is None:
                bad.append("no search for the closing quote")
            else:
                needle = closure_needle(ctx, found["result"][2])
                if needle != 34:
                    bad.append("the element end is searched with byte %r, not the closing quote 0x22" % needle)
                hay = found["result"][1]
                k = len(prefix or "")
                if not (isinstance(hay, tuple) and hay[0] == "slice" and hay[2] == const(k) and hay[3] is None):
                    bad.append("the closing quote is searched in %s, not in the bytes after the %d-byte prefix" % (short(hay, 60), k))
                p = ("payload", found["result"], "Some", "0")
                item = agg_get(v, "0")
                iv = item
                if isinstance(iv, tuple) and iv[0] == "ref" and iv[1][0] == "H" and iv[2] == ():
                    iv = iv[1][1]
                if isinstance(iv, tuple) and iv[0] == "slice_of":
                    iv = iv[1]
                want_end = mk_binop("Add", p, const(k + 1))
                if not (isinstance(iv, tuple) and iv[0] == "slice" and iv[2] == const(0) and iv[3] == want_end):
                    bad.append("the element is %s, not remaining[0 .. prefix+position+1]" % short(iv, 80))
                # remainder
                rest = ("slice", hay[1] if isinstance(hay, tuple) and hay[0] == "slice" else None, want_end, None)
                first = ("proj", rest, ("cidx", 0, False, 0))
                comma = o.cons.known.get(first)
                r2 = rem2
                if comma == 44:
                    # consumed the comma, then skipped SP/HTAB: final remainder is the loop-carried slice or rest[1..]
                    okrem = _derived_from_rest_after_comma(o, r2, rest)
                    if not okrem:
                        bad.append("after `,` the remainder is %s (expected the rest after the comma with leading SP/HTAB skipped)" % short(r2, 80))
                    else:
                        # exit condition of the skip loop: empty or first byte not in {SP, HTAB}
                        pass
                else:
                    if canon_slice(r2) != (rest, ()):
                        bad.append("without a `,` right after the closing quote the remainder must be the untouched rest; it is %s" % short(r2, 80))
            if fl2 != fl0:
                bad.append("the malformed flag changes on a well-formed element")
            if bad:
                ctx.violation(rule, "%s|elem|%s" % (rule, bad[0][:50]), "tokeniser: " + "; ".join(bad), where=where(found) if found else None)
            else:
                ctx.ok(rule, "element row (prefix %r, comma=%s)" % (prefix, comma == 44))
        elif var == "None":
            nnone += 1
            z = cons_zone(o)
            empty = any(isinstance(t, tuple) and t[0] == "len" and val == 0 for t, val in o.cons.known.items())
            if empty:
                if fl2 != fl0:
                    ctx.violation(rule, rule + "|empty-sets-flag", "an exhausted list sets the malformed flag")
                else:
                    ctx.ok(rule, "end-of-list row")
            else:
                if fl2 != const(1):
                    ctx.violation(rule, rule + "|malformed-not-flagged", "a malformed list (prefix %r, closing quote %s) ends the iteration without setting the malformed flag" %
                                  (prefix, "missing" if found is not None else "n/a"))
                else:
                    ctx.ok(rule, "malformed row sets the flag (prefix %r)" % prefix)
    # skip loop: only SP / HTAB are skipped, one byte at a time
    nskip = 0
    for o in outs:
        if o.kind != "backedge":
            continue
        nskip += 1
        skipped = [val for t, val in o.cons.known.items() if isinstance(t, tuple) and t[0] == "proj" and "loopvar" in fmt_term(t)[:60]]
        if not skipped or any(s not in (32, 9) for s in skipped):
            ctx.violation(rule, rule + "|skip-bytes", "the whitespace loop skips byte(s) %s; only SP (32) and HTAB (9) may be skipped" % skipped)
        else:
            ctx.ok(rule, "skip-loop row skips byte %s" % skipped)
    ctx.floor(rule, nsome, 4, what="element rows")
    ctx.floor(rule + ".none", nnone, 3, what="None rows (end, no prefix, no closing quote)")
    ctx.floor(rule + ".skip", nskip, 2, what="whitespace-skip rows")


def canon_slice(t):
    """(sequence value, projection path) a slice reference denotes"""
    if isinstance(t, tuple) and t and t[0] == "ref" and t[1][0] == "H":
        p = t[1][1]
        if isinstance(p, tuple) and p[0] == "slice_of":
            return p[1], t[2]
        return ("deref", p), t[2]
    if isinstance(t, tuple) and t and t[0] == "slice_of":
        return t[1], ()
    return t, ()


def _derived_from_rest_after_comma(o, r2, rest):
    """r2 is rest[1..] or the loop-carried slice whose entry value is rest[1..]"""
    after = (rest, (("subslice", 1, 0, True),))
    if canon_slice(r2) == after:
        return True
    base, path = canon_slice(r2)
    if isinstance(base, tuple) and base[0] == "deref" and isinstance(base[1], tuple) and base[1][0] == "loopvar" and path == ():
        lv = base[1]
        lev = o.state.extra.get("loop_entry_values", {})
        entry = lev.get((lv[1], lv[2], lv[3]))
        return entry is not None and canon_slice(entry) == after
    return False


def list_constructor(ctx, rule):
    """every construction of the list iterator starts with the whole header value and the malformed flag clear"""
    from .common import aggregates
    adt, nx, remf, flagf = find_list(ctx)
    n = 0
    for b, i, st in aggregates(ctx.facts, adt):
        for o in ctx.px(b["name"]):
            if o.kind != "return" or not is_agg(o.value) or o.value[2] != adt:
                continue
            n += 1
            fl = agg_get(o.value, flagf)
            rm = agg_get(o.value, remf)
            bad = []
            if fl != const(0):
                bad.append("the malformed flag starts as %s" % short(fl, 20))
            if canon_slice(rm)[0] not in (("param", 1), ("deref", ("param", 1))) or canon_slice(rm)[1] != ():
                bad.append("the remainder starts as %s, not the header value given" % short(rm, 40))
            if bad:
                ctx.violation(rule, "%s|ctor|%s" % (rule, bad[0][:30]), "tag-list iterator constructed in %s: %s" % (b["name"], "; ".join(bad)), where=F.loc(st["span"]))
            else:
                ctx.ok(rule, "%s: starts at the whole value with the malformed flag clear" % b["name"])
    ctx.floor(rule + ".ctor", n, 1, what="construction paths of the tag-list iterator")
