"""C08 — streaming_body (identity): the client gets exactly the written bytes,
once, in order.  Decides: (R1) `write` returns Ok(n) with n the length of the
input prefix it appended, n <= len(input), n >= 1 for non-empty input; (R2) the
step invariant of the chunk buffer `(capacity=0 and len=0) or (capacity >= chunk
size and len < capacity)` is re-established by every Ok return, under it no panic
site of `write` is reachable, and the constructor guarantees chunk size >= 1;
(R3) flush/drop hand the *taken* buffer to the queue under the lock and add its
length to the queued-bytes counter, an Ok flush with a non-empty buffer has
published it; (R4) the reader pops the front, subtracts its length and yields
D::from of that same chunk; (R5) only FIFO-preserving methods are ever called on
the queue; (R6) a chunk is queued only when the buffer is non-empty; (R7) the
producer-finished flag is set by Drop and cleared by flush; (R8) the writer is not
Clone (one producer, program order); (R9) the identity arm of the BodyWriter
delegates to the chunk writer; (R7.wake / R7.drop) the end is announced: every publish wakes the
parked consumer and every return path of Drop has visited the shared state.  Does not decide: std's write_all, hyper's framing."""
from . import chunker as CH
from . import streaming as ST
from . import witness as W

CONFIGS_QUICK = ["dir"]


def run(ctx):
    CH.write_rules(ctx, "C08.R1", "C08.R2")
    CH.ctor_cap_positive(ctx, "C08.R2.ctor")
    CH.shared_initial_state(ctx, "C08.R3.init")
    CH.critical_sections_panic_free(ctx, "C08.R2.lock")
    CH.publish_rules(ctx, "C08.R3", "C08.R6", "C08.R7")
    CH.reader_consume(ctx, "C08.R4")
    CH.queue_api(ctx, "C08.R5")
    W.not_clone(ctx, "C08.R8")
    ST.writer_delegation(ctx, "C08.R9")
    # "... and the body then ends cleanly": the end (and every flushed chunk) is announced to a parked consumer
    R_ = CH.roles(ctx)
    fo_ = [("flush", CH.flush_rows(ctx, False)[1]), ("drop", CH.flush_rows(ctx, True)[1]),
           ("abort", ctx.px(R_["abort"], inline=lambda c, d: True, key="all"))]
    CH.wake_discipline(ctx, "C08.R7.wake", fo_)
    CH.drop_always_announces(ctx, "C08.R7.drop")
