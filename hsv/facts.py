"""Fact base loader: wraps the JSON produced by the hsfacts driver.

Everything downstream (CFG, path interpreter, rules) reads the program only
through this module; nothing here executes http-serve code.
"""
import json
import os
import subprocess
import sys
import time

HERE = os.path.dirname(os.path.dirname(os.path.abspath(__file__)))


class Facts:
    def __init__(self, doc, config):
        self.doc = doc
        self.config = config
        self.bodies = {b["name"]: b for b in doc["bodies"]}
        self.fns = {f["path"]: f for f in doc["fns"]}
        self.adts = {a["path"]: a for a in doc["adts"]}
        self.consts = {c["path"]: c for c in doc["consts"]}
        self.impls = doc["impls"]
        self.unsafe_blocks = doc["unsafe_blocks"]
        self._callers = None

    # ---- coverage numbers printed in every evidence file
    def coverage(self):
        nb = len(self.bodies)
        nblk = sum(len(b["blocks"]) for b in self.bodies.values())
        ncall = 0
        files = set()
        for b in self.bodies.values():
            files.add(b["span"]["file"])
            for blk in b["blocks"]:
                t = blk["term"]
                if t and t["k"] == "call":
                    ncall += 1
        return {
            "config": self.config,
            "bodies": nb,
            "blocks": nblk,
            "call_terminators": ncall,
            "source_files": sorted(files),
            "rustc": self.doc.get("rustc"),
        }

    def body(self, name):
        return self.bodies.get(name)

    def find_bodies(self, pred):
        return [b for b in self.bodies.values() if pred(b)]

    def calls(self, body):
        """yield (bb index, terminator) for call terminators in non-cleanup blocks"""
        for i, blk in enumerate(body["blocks"]):
            if blk["cleanup"]:
                continue
            t = blk["term"]
            if t and t["k"] == "call":
                yield i, t

    def all_calls(self, include_promoted=False):
        for b in self.bodies.values():
            if b["kind"] == "promoted" and not include_promoted:
                continue
            for i, t in self.calls(b):
                yield b, i, t

    def callers_of(self, pred):
        """list of (body, bb, term) whose callee satisfies pred(callee dict)"""
        out = []
        for b, i, t in self.all_calls():
            c = t["callee"]
            if "path" in c and pred(c):
                out.append((b, i, t))
        return out


def callee_names(c):
    """all names a callee may be matched by (declared path and resolved path)"""
    out = set()
    for k in ("path", "res_path"):
        if k in c:
            out.add(c[k])
    return out


def callee_is(c, *names):
    ns = callee_names(c)
    return any(n in ns for n in names)


def loc(span):
    if not span:
        return "?"
    f = span.get("file", "?")
    return "%s:%s" % (f, span.get("line", "?"))


def build_facts(repo, config, out_path):
    """run the driver over the working tree at `repo`; config is 'default' or 'dir'"""
    args = [os.path.join(HERE, "bin", "mkfacts"), repo, out_path]
    if config == "dir":
        args += ["--features", "dir"]
    t0 = time.time()
    r = subprocess.run(args, stdout=subprocess.PIPE, stderr=subprocess.PIPE, text=True)
    if r.returncode != 0 or not os.path.exists(out_path):
        sys.stderr.write(r.stderr)
        raise RuntimeError("fact extraction failed for config %s" % config)
    if os.path.getmtime(out_path) < t0 - 1:
        raise RuntimeError("stale fact file")
    with open(out_path) as f:
        doc = json.load(f)
    return Facts(doc, config)


# ------------------------------------------------------------------ pretty printer

def fmt_place(p):
    s = "_%d" % p["local"]
    for e in p["proj"]:
        k = e["k"]
        if k == "deref":
            s = "(*%s)" % s
        elif k == "field":
            s = "%s.%s" % (s, e["name"])
        elif k == "downcast":
            s = "(%s as %s)" % (s, e["variant"])
        elif k == "index":
            s = "%s[_%d]" % (s, e["local"])
        elif k == "constindex":
            s = "%s[%s%d of %d]" % (s, "-" if e["from_end"] else "", e["offset"], e["min_length"])
        elif k == "subslice":
            s = "%s[%d..%s%d]" % (s, e["from"], "-" if e["from_end"] else "", e["to"])
        else:
            s = "%s.<%s>" % (s, k)
    return s


def fmt_op(o):
    k = o["k"]
    if k in ("copy", "move"):
        return "%s %s" % (k, fmt_place(o["place"]))
    if k == "const":
        for key in ("int", "int_s", "bool", "char"):
            if key in o:
                return "const %s" % (o[key],)
        if "str" in o:
            return "const %r" % o["str"]
        if "bytes" in o:
            return "const b%r" % o["bytes"]
        if "fn" in o:
            return "fn %s" % o["fn_full"]
        if "named" in o:
            return "const %s" % o["named"]
        if "promoted" in o:
            return "promoted[%d]" % o["promoted"]
        return "const <%s>" % o["ty"]["s"]
    return "<%s>" % k


def fmt_rv(rv):
    k = rv["k"]
    if k == "use":
        return fmt_op(rv["op"])
    if k == "ref":
        return "&%s%s" % ("mut " if rv["mut"] else "", fmt_place(rv["place"]))
    if k == "rawptr":
        return "&raw %s" % fmt_place(rv["place"])
    if k == "binop":
        return "%s(%s, %s)" % (rv["op"], fmt_op(rv["a"]), fmt_op(rv["b"]))
    if k == "unop":
        return "%s(%s)" % (rv["op"], fmt_op(rv["a"]))
    if k == "cast":
        return "%s as %s (%s)" % (fmt_op(rv["op"]), rv["ty"]["s"], rv["kind"])
    if k == "discr":
        return "discriminant(%s)" % fmt_place(rv["place"])
    if k == "aggregate":
        a = rv["agg"]
        ops = ", ".join(fmt_op(o) for o in rv["ops"])
        if a == "adt":
            names = rv.get("fields", [])
            if len(names) == len(rv["ops"]):
                ops = ", ".join("%s: %s" % (n, fmt_op(o)) for n, o in zip(names, rv["ops"]))
            return "%s::%s { %s }" % (rv["adt"], rv["variant"], ops)
        if a in ("closure", "coroutine"):
            return "%s %s { %s }" % (a, rv["def"], ops)
        return "%s(%s)" % (a, ops)
    return "<%s %s>" % (k, rv.get("dbg", ""))


def fmt_term(t):
    k = t["k"]
    if k == "goto":
        return "goto bb%d" % t["target"]
    if k == "switch":
        ts = ", ".join("%s: bb%d" % (v, b) for v, b in t["targets"])
        return "switchInt(%s) [%s, otherwise: bb%d]" % (fmt_op(t["discr"]), ts, t["otherwise"])
    if k == "call":
        c = t["callee"]
        name = c.get("full") or ("indirect " + fmt_op(c["indirect"]))
        res = ""
        if c.get("res_path") and c.get("res_path") != c.get("path"):
            res = " {=> %s}" % c.get("res_full")
        tgt = "bb%d" % t["target"] if t["target"] is not None else "!"
        return "%s = %s(%s)%s -> %s" % (
            fmt_place(t["dest"]), name, ", ".join(fmt_op(a) for a in t["args"]), res, tgt)
    if k == "drop":
        return "drop(%s) -> bb%d" % (fmt_place(t["place"]), t["target"])
    if k == "assert":
        return "assert(%s == %s, %s(%s)) -> bb%d" % (
            fmt_op(t["cond"]), t["expected"], t["msg"], ", ".join(fmt_op(o) for o in t["ops"]), t["target"])
    if k == "yield":
        return "yield(%s) -> bb%d" % (fmt_op(t["value"]), t["resume"])
    return k


def dump_body(b, out=sys.stdout):
    out.write("fn %s  [%s, %d args]  %s\n" % (b["name"], b["kind"], b["arg_count"], loc(b["span"])))
    for i, l in enumerate(b["locals"]):
        out.write("    let _%d: %s;\n" % (i, l["s"]))
    for d in b["debug"]:
        out.write("    debug %s => %s;\n" % (d["name"], fmt_place(d["place"])))
    for i, blk in enumerate(b["blocks"]):
        out.write("  bb%d%s:\n" % (i, " (cleanup)" if blk["cleanup"] else ""))
        for st in blk["stmts"]:
            if st["k"] == "assign":
                out.write("    %s = %s;   // %s\n" % (fmt_place(st["place"]), fmt_rv(st["rv"]), st["span"]["line"]))
            elif st["k"] == "setdiscr":
                out.write("    discriminant(%s) = %s;\n" % (fmt_place(st["place"]), st["variant"]))
            else:
                out.write("    <%s>\n" % st["k"])
        t = blk["term"]
        if t:
            out.write("    %s;   // %s%s\n" % (fmt_term(t), t["span"]["line"],
                                               " [macro %s]" % ",".join(t["span"].get("macros", [])) if t["span"].get("exp") else ""))


if __name__ == "__main__":
    import argparse
    ap = argparse.ArgumentParser()
    ap.add_argument("facts")
    ap.add_argument("name", nargs="?")
    ap.add_argument("--nocleanup", action="store_true")
    a = ap.parse_args()
    doc = json.load(open(a.facts))
    f = Facts(doc, "?")
    if not a.name:
        for b in doc["bodies"]:
            print(b["kind"], b["name"])
    else:
        for nme, b in f.bodies.items():
            if a.name in nme:
                if a.nocleanup:
                    b = dict(b)
                    b["blocks"] = [blk if not blk["cleanup"] else {"cleanup": True, "stmts": [], "term": None} for blk in b["blocks"]]
                dump_body(b)
