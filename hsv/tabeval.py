"""Decision-table evaluation: interpret the *rows* PX extracted from a loop-free
function over a small finite abstract domain chosen by the rule (e.g. entity-tags
as {weak, strong} x {tag1, tag2}).  Each abstract input selects the unique row
whose branch constraints it satisfies; the row's result term is then evaluated
in the same interpretation.  This compares an extracted table with an oracle
table; no program code is run."""
from .px import is_const, is_agg, agg_get


class NoRow(Exception):
    pass


class Ambiguous(Exception):
    pass


class Stuck(Exception):
    """a term the interpretation does not cover"""


class Opt:
    def __init__(self, some, val=None):
        self.some, self.val = some, val

    def __eq__(self, o):
        return isinstance(o, Opt) and self.some == o.some and self.val == o.val

    def __hash__(self):
        return hash((self.some, self.val))

    def __repr__(self):
        return "Some(%r)" % (self.val,) if self.some else "None"


class Evaluator:
    def __init__(self, params, calls=None, extra=None):
        """params: dict param index -> value;  calls: fn(name, argvalues, term) -> value (raise Stuck if unknown)"""
        self.params = params
        self.calls = calls
        self.extra = extra
        self.memo = {}

    def ev(self, t):
        if t in self.memo:
            return self.memo[t]
        v = self._ev(t)
        self.memo[t] = v
        return v

    def _ev(self, t):
        if not isinstance(t, tuple) or not t:
            raise Stuck(repr(t))
        k = t[0]
        if self.extra is not None:
            r = self.extra(self, t)
            if r is not NotImplemented:
                return r
        if k == "const":
            return t[1]
        if k == "param":
            if t[1] in self.params:
                return self.params[t[1]]
            raise Stuck("param %r" % (t[1],))
        if k in ("deref", "&", "refconst", "slice_of"):
            return self.ev(t[1])
        if k in ("bytes", "str"):
            return t[1]
        if k == "eq":
            return int(self.ev(t[1]) == self.ev(t[2]))
        if k == "unop" and t[1] == "Not":
            return 1 - int(bool(self.ev(t[2])))
        if k == "binop":
            a, b = self.ev(t[2]), self.ev(t[3])
            op = t[1]
            try:
                return {"Eq": lambda: int(a == b), "Ne": lambda: int(a != b), "Lt": lambda: int(a < b), "Le": lambda: int(a <= b),
                        "Gt": lambda: int(a > b), "Ge": lambda: int(a >= b), "Add": lambda: a + b, "Sub": lambda: a - b,
                        "Mul": lambda: a * b, "BitAnd": lambda: a & b, "BitOr": lambda: a | b}[op]()
            except KeyError:
                raise Stuck("binop %s" % op)
        if k == "payload":
            inner = self.ev(t[1])
            if isinstance(inner, Opt):
                if not inner.some:
                    raise Stuck("payload of None")
                return inner.val
            if isinstance(inner, tuple) and len(inner) == 2 and inner[0] in ("Ok", "Err", "Some"):
                return inner[1]
            raise Stuck("payload of %r" % (inner,))
        if k == "field":
            inner = self.ev(t[1])
            if isinstance(inner, dict):
                return inner[t[2]]
            if isinstance(inner, (tuple, list)) and t[2].isdigit():
                return inner[int(t[2])]
            raise Stuck("field %s of %r" % (t[2], inner))
        if k == "ref" and isinstance(t[1], tuple) and t[1][0] == "H":
            v = self.ev(t[1][1])   # references are transparent in every interpretation used here
            for e in t[2]:
                if e[0] == "f" and isinstance(v, dict):
                    v = v[e[1]]
                elif e[0] == "cidx":
                    i = e[1] if not e[2] else len(v) - e[1]
                    v = v[i]
                    v = ord(v) if isinstance(v, str) else v
                elif e[0] == "as":
                    if isinstance(v, Opt):
                        v = (v.val,) if v.some else v
                elif e[0] == "subslice":
                    v = v[e[1]:(len(v) - e[2]) if e[3] else e[2]]
                else:
                    raise Stuck("ref path %r" % (e,))
            return v
        if k == "len":
            return len(self.ev(t[1]))
        if k == "slice":
            s = self.ev(t[1])
            a = self.ev(t[2])
            b = self.ev(t[3]) if t[3] is not None else len(s)
            return s[a:b]
        if k == "proj" and isinstance(t[2], tuple) and t[2][0] == "cidx":
            s = self.ev(t[1])
            i = t[2][1]
            if t[2][2]:
                i = len(s) - i
            c = s[i]
            return ord(c) if isinstance(c, str) else c
        if k == "proj" and isinstance(t[2], tuple) and t[2][0] == "subslice":
            s = self.ev(t[1])
            e = t[2]
            return s[e[1]:(len(s) - e[2]) if e[3] else e[2]]
        if k == "agg":
            if t[1] == "adt" and t[2] in ("std::option::Option",):
                return Opt(t[3] == "Some", self.ev(agg_get(t, "0")) if t[3] == "Some" else None)
            if t[1] == "adt" and t[2] in ("std::result::Result",):
                return (t[3], self.ev(agg_get(t, "0")))
            if t[1] == "tuple":
                return tuple(self.ev(v) for _, v in t[4])
            return {"__variant": t[3], **{n: self.ev(v) for n, v in t[4]}}
        if k == "call":
            if self.calls is None:
                raise Stuck("call %s" % t[1])
            args = []
            for a in t[2]:
                try:
                    args.append(self.ev(a))
                except Stuck:
                    args.append(None)
            return self.calls(t[1], args, t)
        raise Stuck("term %s" % k)

    def variant(self, t):
        v = self.ev(t)
        if isinstance(v, Opt):
            return "Some" if v.some else "None"
        if isinstance(v, tuple) and v and v[0] in ("Ok", "Err"):
            return v[0]
        if isinstance(v, dict) and "__variant" in v:
            return v["__variant"]
        if isinstance(v, str) and v.startswith("#"):
            return v[1:]
        raise Stuck("variant of %r" % (v,))

    def satisfies(self, cons):
        for ent in cons.log:
            kind, t, v = ent
            if kind == "eq":
                if int(self.ev(t)) != v:
                    return False
            elif kind == "notin":
                if self.ev(t) in v:
                    return False
            elif kind == "variant":
                if self.variant(t) != v:
                    return False
            elif kind == "notvariant":
                if self.variant(t) in v:
                    return False
        return True


def select_row(outs, evaluator, kinds=("return",)):
    """the unique row (outcome) whose constraints the abstract input satisfies"""
    hit = []
    for o in outs:
        if o.kind in ("unreachable", "infeasible"):
            continue
        e = Evaluator(evaluator.params, evaluator.calls, evaluator.extra)
        try:
            if e.satisfies(o.cons):
                hit.append((o, e))
        except Stuck:
            raise
    if not hit:
        raise NoRow()
    if len(hit) > 1:
        # rows that differ only in don't-care decisions must agree on kind and value
        vals = set()
        for o, e in hit:
            try:
                vals.add((o.kind, repr(e.ev(o.value)) if o.value is not None else None))
            except Stuck:
                vals.add((o.kind, "stuck"))
        if len(vals) > 1:
            raise Ambiguous(repr(vals))
    return hit[0]


class Trie:
    """rows of one PX run arranged by their (shared) constraint-log prefixes"""

    def __init__(self, outs, kinds=("return",)):
        self.root = {"children": {}, "rows": []}
        self.n = 0
        for o in outs:
            if o.kind not in kinds:
                continue
            node = self.root
            for ent in o.cons.log:
                key = (ent[0], ent[1], ent[2])
                node = node["children"].setdefault(key, {"children": {}, "rows": []})
            node["rows"].append(o)
            self.n += 1

    def select(self, ev):
        """-> list of rows whose constraints the evaluator satisfies"""
        hits = []
        stack = [self.root]
        while stack:
            node = stack.pop()
            hits.extend(node["rows"])
            for (kind, t, v), child in node["children"].items():
                if kind == "eq":
                    okk = int(ev.ev(t)) == v
                elif kind == "notin":
                    okk = ev.ev(t) not in v
                elif kind == "variant":
                    okk = ev.variant(t) == v
                else:
                    okk = ev.variant(t) not in v
                if okk:
                    stack.append(child)
        return hits
