"""Zone (difference-bound) reasoning over the numeric relations of one path.

`entails(cons, ("Le"|"Lt"|"Eq"|"Ne", a, b))` decides whether the relations the
path has accumulated (branch outcomes, passed overflow checks, model facts) plus
type bounds and a few term axioms imply the obligation.  Sound and incomplete:
"no" means "not provable", which rules report as an undischarged obligation.
Pure Python Bellman-Ford closure; no external solver.
"""
from .px import is_const, const, TY, mk_binop

U64 = (1 << 64) - 1
ISIZE_MAX = (1 << 63) - 1


def lin(t):
    """-> (atom or None, offset)"""
    off = 0
    while True:
        if not (isinstance(t, tuple) and t and isinstance(t[0], str)):
            return ("nonterm", str(t)), off
        if is_const(t):
            if isinstance(t[1], int):
                return None, off + t[1]
            return t, off
        if t[0] == "binop" and t[1] in ("Add", "AddUnchecked") and is_const(t[3]) and isinstance(t[3][1], int):
            off += t[3][1]
            t = t[2]
            continue
        if t[0] == "binop" and t[1] in ("Sub", "SubUnchecked") and is_const(t[3]) and isinstance(t[3][1], int):
            off -= t[3][1]
            t = t[2]
            continue
        return t, off


def flat_sum(t):
    """-> (non-constant summands, constant) of a nested sum"""
    atoms, c = [], 0
    work = [t]
    while work:
        x = work.pop()
        if is_const(x) and isinstance(x[1], int):
            c += x[1]
        elif isinstance(x, tuple) and x and x[0] == "binop" and x[1] in ("Add", "AddUnchecked"):
            work += [x[3], x[2]]
        else:
            atoms.append(x)
    return atoms, c


def same_sum(a, b):
    """a and b are the same sum up to association, commutation and constant folding"""
    xa, ca = flat_sum(a)
    xb, cb = flat_sum(b)
    return ca == cb and sorted(map(repr, xa)) == sorted(map(repr, xb))


AXIOMS = []


def axiom(f):
    AXIOMS.append(f)
    return f


def subterms(t, acc, depth=0):
    if not isinstance(t, tuple) or depth > 12 or not t:
        return
    if not isinstance(t[0], str):
        # an argument list, not a term
        for x in t:
            if isinstance(x, tuple):
                subterms(x, acc, depth + 1)
        return
    if t in acc:
        return
    acc.add(t)
    for x in t[1:]:
        if isinstance(x, tuple):
            subterms(x, acc, depth + 1)


class Zone:
    def __init__(self, cons, extra_rels=(), extra_terms=()):
        self.cons = cons
        self.rels = list(cons.rel) + list(extra_rels)
        self.atoms = set()
        self.edges = {}   # (y, x) -> w   meaning x - y <= w
        self.ne = []
        self.noovf = set()
        self.ovf = set()
        self.extra_terms = list(extra_terms)
        self._build()

    # x - y <= w
    def add(self, x, y, w):
        k = (y, x)
        if k not in self.edges or self.edges[k] > w:
            self.edges[k] = w
            self.dirty = True

    def add_rel(self, op, a, b):
        if op in ("NoOvfAdd",):
            self.noovf.add((a, b))
            return
        if op in ("OvfAdd",):
            self.ovf.add((a, b))
            # a + b > MAX with one constant operand: the other exceeds MAX - c
            bits = TY.get(a, TY.get(b, (64, False)))[0]
            mx = (1 << bits) - 1
            if is_const(b) and isinstance(b[1], int):
                self.add_rel("Lt", const(mx - b[1]), a)
            elif is_const(a) and isinstance(a[1], int):
                self.add_rel("Lt", const(mx - a[1]), b)
            return
        xa, oa = lin(a)
        xb, ob = lin(b)
        for x in (xa, xb):
            if x is not None:
                self.atoms.add(x)
        # a op b  <=>  xa + oa op xb + ob
        if op == "Le":
            self.add(xa, xb, ob - oa)
        elif op == "Lt":
            self.add(xa, xb, ob - oa - 1)
        elif op == "Eq":
            self.add(xa, xb, ob - oa)
            self.add(xb, xa, oa - ob)
        elif op == "Ne":
            self.ne.append((xa, oa, xb, ob))

    def _build(self):
        self.dirty = True
        for op, a, b in self.rels:
            self.add_rel(op, a, b)
        # collect atoms from all terms mentioned
        allt = set()
        for op, a, b in self.rels:
            subterms(a, allt)
            subterms(b, allt)
        for t in self.extra_terms:
            subterms(t, allt)
            x, _ = lin(t)
            if x is not None:
                self.atoms.add(x)
        self.all_terms = allt
        for t in list(allt):
            x, _ = lin(t)
            if x is not None and (TY.get(x) is not None or x[0] in ("len", "cap")):
                self.atoms.add(x)
        for _ in range(4):
            self._bounds()
            self._axioms()
            self._close()
            self._ne()
            if not self.dirty:
                break
            self.dirty = False
        self._close()

    def _bounds(self):
        for x in list(self.atoms):
            ty = TY.get(x)
            if x[0] in ("len", "cap"):
                self.add(None, x, 0)          # 0 - x <= 0
                self.add(x, None, ISIZE_MAX)  # x - 0 <= isize::MAX
            elif ty is not None:
                bits, signed = ty
                if not signed:
                    self.add(None, x, 0)
                    self.add(x, None, (1 << bits) - 1)
                else:
                    self.add(None, x, 1 << (bits - 1))
                    self.add(x, None, (1 << (bits - 1)) - 1)

    def _close(self):
        # Floyd-Warshall on the (small) atom set
        nodes = set([None])
        for (y, x) in self.edges:
            nodes.add(x)
            nodes.add(y)
        nodes = list(nodes)
        d = dict(self.edges)
        for k in nodes:
            for i in nodes:
                ik = d.get((i, k))
                if ik is None:
                    continue
                for j in nodes:
                    kj = d.get((k, j))
                    if kj is None:
                        continue
                    w = ik + kj
                    if (i, j) not in d or d[(i, j)] > w:
                        d[(i, j)] = w
        self.dist = d
        self.infeasible = any(d.get((n, n), 0) < 0 for n in nodes)

    def diff_ub(self, x, y):
        """least known w with x - y <= w (None = unbounded)"""
        if x == y:
            return min(0, self.dist.get((y, x), 0))
        return self.dist.get((y, x))

    def ub(self, x):
        return self.diff_ub(x, None)

    def lb(self, x):
        w = self.diff_ub(None, x)
        return None if w is None else -w

    def _ne(self):
        for xa, oa, xb, ob in self.ne:
            # xa + oa != xb + ob
            w = self.diff_ub(xa, xb)  # xa - xb <= w
            if w is not None and w == ob - oa:
                self.add(xa, xb, w - 1)
            w2 = self.diff_ub(xb, xa)
            if w2 is not None and w2 == oa - ob:
                self.add(xb, xa, w2 - 1)

    def _axioms(self):
        self._close()
        for x in list(self.atoms) + [t for t in self.all_terms if t not in self.atoms]:
            for ax in AXIOMS:
                for op, a, b in ax(self, x) or ():
                    self.add_rel(op, a, b)

    # ------------------------------------------------------------ queries
    def entails(self, op, a, b):
        if getattr(self, "infeasible", False):
            return True
        if op in ("Le", "Lt") and self._sum_rewrite(op, a, b):
            return True
        xa, oa = lin(a)
        xb, ob = lin(b)
        if op == "Le":
            w = self.diff_ub(xa, xb)
            return w is not None and w <= ob - oa
        if op == "Lt":
            w = self.diff_ub(xa, xb)
            return w is not None and w <= ob - oa - 1
        if op == "Ge":
            return self.entails("Le", b, a)
        if op == "Gt":
            return self.entails("Lt", b, a)
        if op == "Eq":
            return self.entails("Le", a, b) and self.entails("Le", b, a)
        if op == "Ne":
            return self.entails("Lt", a, b) or self.entails("Lt", b, a)
        raise ValueError(op)

    def feasible(self):
        return not self.infeasible

    def _sum_rewrite(self, op, a, b):
        """p + q (op) b  <=>  q (op) b - p  when the exact difference b - p is a term of the path (three-variable facts
        that a difference-bound matrix cannot hold directly)"""
        atoms, c = flat_sum(a)
        if len(atoms) != 2:
            return False
        p, q = atoms
        for x, y in ((p, q), (q, p)):
            d = ("binop", "Sub", b, x)
            if d in self.all_terms and self.entails_raw_le(x, b):
                xa, oa = lin(y)
                xb, ob = lin(d)
                w = self.diff_ub(xa, xb)
                if w is not None and w <= ob - oa - c - (1 if op == "Lt" else 0):
                    return True
        return False


def entails(cons, op, a, b, extra_rels=()):
    z = Zone(cons, extra_rels, extra_terms=(a, b))
    return z.entails(op, a, b)


def feasible(cons):
    return Zone(cons).feasible()


# ------------------------------------------------------------------ axioms

@axiom
def ax_sub(z, x):
    """r = a - b (exact, no underflow on this path because b <= a is a path relation or typed)"""
    if x[0] == "binop" and x[1] in ("Sub", "SubUnchecked") and not is_const(x[3]):
        a, b = x[2], x[3]
        # only valid when b <= a is known (otherwise the term wrapped / the path panicked)
        if not z.entails_raw_le(b, a):
            return
        out = [("Le", x, a)]
        xa, oa = lin(a)
        xb, ob = lin(b)
        lbb = z.lb(xb) if xb is not None else 0
        if lbb is not None:
            # r <= a - lb(b)
            out.append(("Le", x, mk_binop("Sub", a, const(lbb + ob))) if (lbb + ob) >= 0 else ("Le", x, a))
        w = z.diff_ub(xb, xa)  # b' - a' <= w  => a - b >= -(w) - ob + oa
        if w is not None:
            out.append(("Le", const(-w - ob + oa), x))
        wu = z.diff_ub(xa, xb)  # a' - b' <= wu => a - b <= wu + oa - ob
        if wu is not None:
            out.append(("Le", x, const(wu + oa - ob)))
        ubb = z.ub(xb) if xb is not None else 0
        if ubb is not None and ubb + ob >= 0:
            # r >= a - ub(b)
            out.append(("Le", mk_binop("Sub", a, const(ubb + ob)), x))
        return out


def _entails_raw_le(self, a, b):
    xa, oa = lin(a)
    xb, ob = lin(b)
    w = self.diff_ub(xa, xb)
    return w is not None and w <= ob - oa


Zone.entails_raw_le = _entails_raw_le


@axiom
def ax_add(z, x):
    """r = a + b exact when the path passed the overflow check"""
    if x[0] == "binop" and x[1] in ("Add", "AddUnchecked") and not is_const(x[3]):
        a, b = x[2], x[3]
        if (a, b) not in z.noovf and (b, a) not in z.noovf:
            return
        out = []
        for p, q in ((a, b), (b, a)):
            xq, oq = lin(q)
            l = z.lb(xq) if xq is not None else 0
            if l is not None:
                out.append(("Le", mk_binop("Add", p, const(l + oq)), x))
            u = z.ub(xq) if xq is not None else 0
            if u is not None:
                out.append(("Le", x, mk_binop("Add", p, const(u + oq))))
        return out


@axiom
def ax_find(z, x):
    """h = payload of str::find / memchr / position: h < len(haystack)"""
    if x[0] == "payload" and x[2] == "Some" and isinstance(x[1], tuple) and x[1][0] == "found":
        seq = x[1][1]
        from .models import len_term
        return [("Lt", x, len_term(seq))]


@axiom
def ax_slice_len(z, x):
    if x[0] == "len" and isinstance(x[1], tuple) and x[1][0] == "slice":
        pass


@axiom
def ax_parsed_int(z, x):
    """x = payload of <uN as FromStr>::from_str(s): x <= 10^len(s) - 1 (at most len(s) digits)"""
    if x[0] == "payload" and x[2] == "Ok" and isinstance(x[1], tuple) and x[1][0] == "call" and x[1][1].endswith("::from_str") \
            and "impl std::str::FromStr for u" in x[1][1]:
        a = x[1][2][0]
        if isinstance(a, tuple) and a[0] == "&":
            a = a[1]
        from .models import len_term
        ln = len_term(a)
        xa, oa = lin(ln)
        u = z.ub(xa) if xa is not None else 0
        if u is not None and 0 <= u + oa <= 19:
            return [("Le", x, const(10 ** (u + oa) - 1))]


@axiom
def ax_reserved_cap(z, x):
    """capacity after reserve(n) is at least len + n"""
    if x[0] == "cap" and isinstance(x[1], tuple) and x[1][0] == "reserved":
        from .models import len_term
        old, n = x[1][1], x[1][2]
        return [("Le", n, x), ("Le", len_term(old), x),("Le", mk_binop("Add", len_term(old), n) if not is_const(len_term(old)) or not is_const(n) else const(len_term(old)[1] + n[1]), x)]


@axiom
def ax_pread(z, x):
    """n = usize::try_from(pread(fd, buf, count, off)) (Ok payload): n <= count (POSIX: at most count bytes are read)"""
    if x[0] == "payload" and x[2] == "Ok" and isinstance(x[1], tuple) and x[1][0] == "call" and "TryFrom<isize> for usize" in x[1][1]:
        a = x[1][2][0]
        if isinstance(a, tuple) and a[0] == "call" and a[1] in ("libc::pread", "libc::read") and len(a[2]) >= 3:
            return [("Le", x, a[2][2])]
