#!/usr/bin/env python3
"""regenerates MANIFEST.json from the rule modules present (so it is valid at all times)"""
import json, os, re, sys
HERE = os.path.dirname(os.path.dirname(os.path.abspath(__file__)))
sys.path.insert(0, HERE)
props = [json.loads(l) for l in open(os.path.join(HERE, "properties.jsonl")) if l.strip()]
NA = {
    "C09": "gzip member validity and decodability after flush are produced by flate2's deflate state machine at run time; no static "
           "argument over http-serve's source reaches header/CRC/trailer validity (DESIGN.md section 8). The in-repo necessary "
           "conditions (encoder type, delegation) are checked under C17/C08 and are not a verdict on C09.",
}
TECH = {}
checks = []
na = []
import importlib
for p in props:
    pid = p["id"]
    path = os.path.join(HERE, "hsv", "rules", pid + ".py")
    if pid in NA:
        na.append({"property_id": pid, "reason": NA[pid]})
        continue
    if not os.path.exists(path):
        na.append({"property_id": pid, "reason": "check not built yet in this revision (planned: DESIGN.md section 4); not claimed until it exists"})
        continue
    mod = importlib.import_module("hsv.rules." + pid)
    doc = " ".join((mod.__doc__ or "").split())
    tech = getattr(mod, "TECHNIQUE", "path-sensitive abstract interpretation over rustc MIR (typestate / decision tables / zone refinement)")
    checks.append({
        "property_id": pid,
        "quick_cmd": "bin/check %s --tier quick" % pid,
        "thorough_cmd": "bin/check %s --tier thorough" % pid,
        "evidence_file": "evidence/%s.json" % pid,
        "replay_cmd_template": "bin/explain {path}",
        "engine": "hsv",
        "level_claimed": {
            "category": "other",
            "text": "Static analysis verdict over all paths of the current MIR (no execution): " + doc,
            "design_ref": "DESIGN.md section 4 (%s)" % pid,
        },
        "level_note": "Trusted base: rustc nightly MIR at -Zmir-opt-level=0 as the semantics of the source; hand-written abstract models of std/dependency "
                      "callees (hsv/models.py, listed per run in the evidence); unmodelled callees assumed total; unwind paths ignored; foreign Entity/Buf/waker "
                      "implementations honour their contracts; unix target, feature configurations default and dir.",
        "technique": tech,
    })
m = {
    "version": 1,
    "setup_cmd": "bin/setup",
    "hooks": {
        "guard": "none (static analysis reads the MIR of the unmodified crate; no instrumentation exists)",
        "enable": "n/a: checks run `cargo +nightly check` on /repo's working tree with the hsfacts driver as RUSTC_WORKSPACE_WRAPPER",
        "baseline_off_cmd": "cd /repo && cargo test --workspace --no-fail-fast --offline",
        "source_commits": [],
        "add_only": True,
    },
    "engines": [
        {"name": "hsfacts", "path": "driver/", "serves_properties": [c["property_id"] for c in checks],
         "kind_free_text": "rustc_private driver: type-checked, resolved MIR + item/type/const facts of the working tree as JSON"},
        {"name": "hsv", "path": "hsv/", "serves_properties": [c["property_id"] for c in checks],
         "kind_free_text": "Python rules: PX path-sensitive abstract interpreter (terms, trace partitioning, loop havoc), zone solver, "
                           "decision-table evaluation, panic-site census, who-may-call queries"},
    ],
    "checks": checks,
    "not_applicable": na,
    "notes": "All verdicts are recomputed from /repo's working tree on every run. Known findings: known_findings.json (only `fixed:` entries at present).",
}
json.dump(m, open(os.path.join(HERE, "MANIFEST.json"), "w"), indent=1)
print("checks:", [c["property_id"] for c in checks], "n/a:", [n["property_id"] for n in na])
