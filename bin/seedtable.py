#!/usr/bin/env python3
"""prints the markdown table of DESIGN.md section 11 from seeded/*/meta.json"""
import glob, json, os, re
HERE = os.path.dirname(os.path.dirname(os.path.abspath(__file__)))
for d in sorted(glob.glob(os.path.join(HERE, "seeded", "*"))):
    mp = os.path.join(d, "meta.json")
    if not os.path.exists(mp):
        continue
    m = json.load(open(mp))
    rules = []
    for p, v in m.get("checks", {}).items():
        for x in v.get("violations", []):
            mm = re.search(r"rule=(\S+) key=", x)
            if mm:
                r = mm.group(1)
                if r not in rules and not r.endswith(".floor"):
                    rules.append(r)
    det = ", ".join(rules[:4]) if m.get("detected") else "**not detected**"
    print("| %s | %s | %s | %s |" % (m["id"], m.get("summary", "?"), m.get("needs", "?"), det))
