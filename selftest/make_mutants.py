#!/usr/bin/env python3
"""Generates selftest/mutants/<Cxx>/<name>.patch and selftest/benign/<name>.patch from textual edits of /repo's
current sources (each edit must match exactly once).  Run after /repo changes; patches are committed."""
import difflib
import os
import sys

HERE = os.path.dirname(os.path.abspath(__file__))
REPO = os.environ.get("HSV_REPO", "/repo")

M = []  # (prop, name, rule, [(file, old, new)], also)


def mut(prop, name, rule, edits, also=""):
    M.append((prop, name, rule, edits, also))


B = []  # (name, check props, edits)


def benign(name, props, edits):
    B.append((name, props, edits))


S, R, E, B_, C, G, L, FI, P_, D = ("src/serving.rs", "src/range.rs", "src/etag.rs", "src/body.rs", "src/chunker.rs", "src/gzip.rs",
                                    "src/lib.rs", "src/file.rs", "src/platform.rs", "src/dir.rs")

# ---------------- C01
mut("C01", "sum_wrapping_add", "C01.R4", [(S, ".and_then(|l| l.checked_add(r.end - r.start))\n            .ok_or(MultipartLenOverflowError)?;",
                                           ".map(|l| l.wrapping_add(r.end - r.start))\n            .ok_or(MultipartLenOverflowError)?;")], also="C06 C13")
mut("C01", "cl_from_entity_len_on_206", "C01.R2", [(S, 'unsafe_fmt_ascii_val!(MAX_DECIMAL_U64_BYTES, "{}", len),\n    );\n    let body = match',
                                                    'unsafe_fmt_ascii_val!(MAX_DECIMAL_U64_BYTES, "{}", ent.len()),\n    );\n    let body = match')], also="C15")
mut("C01", "exactlen_budget_off_by_one", "C01.R2", [(S, "crate::body::ExactLenStream::new(range.end - range.start, ent.get_range(range)),",
                                                     "crate::body::ExactLenStream::new(range.end - range.start + 1, ent.get_range(range)),")], also="C07 C02")
mut("C01", "multipart_trailer_not_counted", "C01.R5", [(S, "this.state += 1;\n                this.remaining -= crate::as_u64(PART_TRAILER.len());",
                                                        "this.state += 1;")], also="C12 C06")
mut("C01", "toolong_keeps_budget", "C01.R3", [(B_, "let remaining = std::mem::take(&mut this.remaining); // fuse.\n                    Poll::Ready(Some(Err(E::from(Box::new(StreamTooLongError {",
                                               "let remaining = this.remaining;\n                    Poll::Ready(Some(Err(E::from(Box::new(StreamTooLongError {")], also="C07")
mut("C01", "tooshort_clean_end", "C01.R3", [(B_, "if this.remaining != 0 {", "if this.remaining != 0 && this.remaining > 1 {")], also="C07")
# ---------------- C02
mut("C02", "get_range_end_minus_one", "C02.R2", [(S, "(range.clone(), include_entity_headers_on_range)", "(range.start..range.end - 1, include_entity_headers_on_range)")], also="C01")
mut("C02", "sort_ranges", "C02.R1.flow", [(S, "if matches!(est_len, Some(l) if l < len) {", "if matches!(est_len, Some(l) if l < len) {\n                    let mut ranges = ranges;\n                    ranges.sort_by_key(|r| r.start);")], also="C03")
mut("C02", "content_range_uses_len_minus_one", "C02.R2", [(S, "range.end - 1,\n                        len\n                    ),", "range.end - 1,\n                        len - 1\n                    ),")])
mut("C02", "closed_end_not_clamped", "C02.R1", [(R, ".saturating_add(1),\n                    len,\n                )", ".saturating_add(1),\n                    u64::MAX,\n                )")], also="C03")
# ---------------- C03
mut("C03", "first_gt_end", "C03.R2", [(R, "if first >= end {", "if first > end {")], also="C02")
mut("C03", "416_content_range_from_est", "C03.R5", [(S, '"bytes */{}", len),', '"bytes */{}", len + 1),')])
mut("C03", "estimate_constant_8000", "C03.R5", [(S, "acc.checked_add(80)", "acc.checked_add(8000)")])
mut("C03", "reintroduce_F1_plus_one", "C03.R1", [(R, ".saturating_add(1),", " + 1,")], also="C13")
mut("C03", "reintroduce_F2_suffix", "C03.R2", [(R, "let last = cmp::min(last, len);\n            if last == 0 {", "if last >= len {")], also="C02")
mut("C03", "reintroduce_F8_plus_sign", "C03.R3", [(R, "if !s.bytes().all(|b| b.is_ascii_digit()) {\n        return None;\n    }\n", "")])
mut("C03", "multipart_le_instead_of_lt_with_huge", "C03.R5", [(S, "Some(l) if l < len", "Some(l) if l < len.saturating_mul(4)")])
mut("C03", "open_range_ignores_trailing", "C03.R2", [(R, "let end = if r.len() > hyphen + 1 {", "let end = if r.len() > hyphen + 2 {")])
# ---------------- C04
mut("C04", "inm_uses_strong", "C04.R2", [(E, "if none_match && weak_eq(item, some_etag.as_bytes()) {", "if none_match && strong_eq(item, some_etag.as_bytes()) {")], also="C14")
mut("C04", "ims_lt_instead_of_le", "C04.R1", [(S, "*m <= parse_http_date", "*m < parse_http_date")], also="C14")
mut("C04", "none_match_without_etag", "C04.R1", [(E, "    let mut none_match = true;\n    if let Some(ref some_etag) = *etag {", "    let mut none_match = etag.is_some();\n    if let Some(ref some_etag) = *etag {")])
mut("C04", "list_splits_on_comma", "C04.R5", [(E, ".position(|&b| b == b'\"')\n                .map(|p| p + 1)", ".position(|&b| b == b',')\n                .map(|p| p.saturating_sub(1) + 1)")])
mut("C04", "reintroduce_F4", "C04.R1", [(S, "    } else if req_hdrs.contains_key(header::IF_MATCH) {\n        // RFC 7232 section 3.4: a recipient MUST ignore If-Unmodified-Since if the request\n        // contains an If-Match header field.\n        false\n", "")])
mut("C04", "reintroduce_F3", "C04.R1", [(S, "    let last_modified = last_modified.map(truncate_to_secs);\n", "")], also="C14")
mut("C04", "304_before_412", "C04.R6", [(S, "    if precondition_failed {\n        res = res.status(StatusCode::PRECONDITION_FAILED);\n        return ServeInner::Simple(res.body(Body::from(\"Precondition failed\")).unwrap());\n    }\n\n    if not_modified {\n        res = res.status(StatusCode::NOT_MODIFIED);\n        return ServeInner::Simple(res.body(Body::empty()).unwrap());\n    }\n",
                                        "    if not_modified {\n        res = res.status(StatusCode::NOT_MODIFIED);\n        return ServeInner::Simple(res.body(Body::empty()).unwrap());\n    }\n\n    if precondition_failed {\n        res = res.status(StatusCode::PRECONDITION_FAILED);\n        return ServeInner::Simple(res.body(Body::from(\"Precondition failed\")).unwrap());\n    }\n")])
mut("C04", "any_match_flag_reset", "C04.R3", [(E, "if !any_match && strong_eq(item, some_etag.as_bytes()) {\n                any_match = true;\n            }", "any_match = strong_eq(item, some_etag.as_bytes());")])
mut("C04", "weak_eq_strips_one_side", "C04.R2", [(E, '    let b = b.strip_prefix(b"W/").unwrap_or(b);\n    a == b', "    a == b")], also="C14")
mut("C04", "sweep_corrupt_initially_true", "C04.R5", [(E, "            corrupt: false,\n        }\n    }\n}", "            corrupt: true,\n        }\n    }\n}")])
mut("C04", "sweep_flag_never_flips", "C04.R3", [(E, "if !any_match && strong_eq(item, some_etag.as_bytes()) {", "if any_match && strong_eq(item, some_etag.as_bytes()) {")])
mut("C03", "sweep_open_range_never_taken", "C03.R2", [(R, "let end = if r.len() > hyphen + 1 {", "let end = if r.len() >= hyphen + 1 {")])
mut("C03", "no_trim_after_comma", "C03.R4", [(R, "let r = r.trim_start_matches([' ', '\\t']);", "let r = r.trim_start_matches([' ']);")])
mut("C16", "coding_not_trimmed", "C16.R2", [(L, "                coding = c.trim();", "                coding = c;")])
mut("C16", "weight_not_trimmed", "C16.R2", [(L, "                let Some(q) = q\n                    .trim()\n                    .strip_prefix(\"q=\")", "                let Some(q) = q\n                    .strip_prefix(\"q=\")")])
# ---------------- C05
mut("C05", "gate_uses_weak", "C05.R2", [(S, "if etag::strong_eq(if_range, some_etag.as_bytes()) {", "if etag::weak_eq(if_range, some_etag.as_bytes()) {")])
mut("C05", "date_if_range_keeps_range", "C05.R1", [(S, "                // The resource could have changed twice in the supplied second, so never match.\n                range_hdr = None;\n                true", "                // The resource could have changed twice in the supplied second, so never match.\n                true")])
mut("C05", "no_etag_keeps_range", "C05.R1", [(S, "                } else {\n                    range_hdr = None;\n                    true\n                }\n            } else {\n                // Date case.", "                } else {\n                    true\n                }\n            } else {\n                // Date case.")])
mut("C05", "sweep_etag_form_and", "C05.R1", [(S, 'if if_range.starts_with(b"W/\\"") || if_range.starts_with(b"\\"") {', 'if if_range.starts_with(b"W/\\"") && if_range.starts_with(b"\\"") {')])
# ---------------- C06
mut("C06", "trailer_boundary_C", "C06.R2", [(S, 'const PART_TRAILER: &[u8] = b"\\r\\n--B--\\r\\n";', 'const PART_TRAILER: &[u8] = b"\\r\\n--C--\\r\\n";')])
mut("C06", "entity_headers_only_with_if_range", "C06.R4", [(S, "let each_part_hdrs = include_entity_headers_on_range.then(|| {", "let each_part_hdrs = (!include_entity_headers_on_range).then(|| {")])
mut("C06", "head_multipart_drops_content_type", "C06.R1", [(S, "                    if method == Method::HEAD {\n                        return ServeInner::Simple(res.body(Body::empty()).unwrap());", "                    if method == Method::HEAD {\n                        let mut res = res;\n                        if let Some(h) = res.headers_mut() {\n                            h.remove(header::CONTENT_TYPE);\n                        }\n                        return ServeInner::Simple(res.body(Body::empty()).unwrap());")], also="C15")
mut("C06", "part_content_range_end_exclusive", "C06.R2", [(S, "            r.start,\n            r.end - 1,\n            len\n        )\n        .unwrap();", "            r.start,\n            r.end,\n            len\n        )\n        .unwrap();")])
mut("C06", "part_missing_blank_line", "C06.R2", [(S, '        buf.extend_from_slice(&each_part_headers);\n        buf.extend_from_slice(b"\\r\\n");', "        buf.extend_from_slice(&each_part_headers);")])
mut("C06", "stream_uses_next_range", "C06.R6", [(S, "let r = &this.ranges[i];", "let r = &this.ranges[(i + 1) % this.ranges.len()];")], also="C01 C02")
mut("C06", "sweep_part_end_no_advance", "C06.R6.frame", [(S, "                    Poll::Ready(None) => {\n                        this.cur = None;\n                        this.state += 1;\n                    }", "                    Poll::Ready(None) => {\n                        this.cur = None;\n                    }")], also="C01")
mut("C20", "sweep_error_state_trailer_next", "C20.R4", [(S, "                        this.state = this.ranges.len() << 1 | 1;\n                        return Poll::Ready(Some(Err(e)));", "                        this.state = this.ranges.len() << 1;\n                        return Poll::Ready(Some(Err(e)));")], also="C07")
mut("C06", "sweep_trailer_no_advance", "C06.R6.pieces", [(S, "                this.state += 1;\n                this.remaining -= crate::as_u64(PART_TRAILER.len());", "                this.remaining -= crate::as_u64(PART_TRAILER.len());")], also="C01 C20")
mut("C06", "sweep_part_header_no_advance", "C06.R6.pieces", [(S, "                let v = std::mem::take(&mut this.part_headers[i]);\n                this.state += 1;", "                let v = std::mem::take(&mut this.part_headers[i]);")], also="C01")
mut("C20", "sweep_error_keeps_owed_bytes", "C20.R4", [(S, "                        this.cur = None;\n                        this.remaining = 0;", "                        this.cur = None;")], also="C13")
mut("C06", "sweep_part_entity_headers_with_if_range", "C06.R4", [(S, "                    if etag::strong_eq(if_range, some_etag.as_bytes()) {\n                        false", "                    if etag::strong_eq(if_range, some_etag.as_bytes()) {\n                        true")])
# ---------------- C07
mut("C07", "multipart_part_without_exactlen_budget", "C07.R2", [(S, "this.cur = Some(crate::body::ExactLenStream::new(\n                    r.end - r.start,", "this.cur = Some(crate::body::ExactLenStream::new(\n                    r.end - r.start + 0 * r.start + 1,")], also="C01")
mut("C07", "inner_error_swallowed", "C07.R1", [(B_, "Poll::Ready(Some(Err(e))) => Poll::Ready(Some(Err(e))),", "Poll::Ready(Some(Err(_e))) => Poll::Ready(None),")], also="C01")
mut("C07", "reintroduce_F6", "C07.R3", [(S, "                        this.cur = None;\n                        this.remaining = 0;", "                        this.remaining = 0;")], also="C20 C12")
# ---------------- C08
mut("C08", "write_returns_full_len", "C08.R1", [(C, "            self.flush()?;\n        }\n        Ok(bytes)", "            self.flush()?;\n        }\n        Ok(buf.len())")])
mut("C08", "chunk_size_zero_accepted", "C08.R2.ctor", [(C, "        assert!(cap > 0);\n", "")])
mut("C08", "pop_back", "C08.R5", [(C, "if let Some(c) = ready.pop_front() {", "if let Some(c) = ready.pop_back() {")], also="C11")
mut("C08", "writer_dropped_always_true", "C08.R7", [(C, "*writer_dropped = dropping;", "*writer_dropped = true;")], also="C10 C12")
mut("C08", "full_lt", "C08.R2", [(C, "let full = remaining <= buf.len();", "let full = remaining < buf.len();")])
mut("C08", "ready_bytes_not_incremented", "C08.R3", [(C, "                *ready_bytes += full_buf.len();\n", "")], also="C12")
mut("C08", "push_without_take", "C08.R3", [(C, "let full_buf = mem::take(&mut self.buf);", "let full_buf = self.buf.clone();")])
mut("C08", "empty_chunk_on_drop", "C08.R6", [(C, "            if !self.buf.is_empty() {\n                let full_buf", "            if !self.buf.is_empty() || dropping {\n                let full_buf")])
mut("C08", "sweep_fuse_while_writer_alive", "C08.R4", [(C, "if !ready.is_empty() || !writer_dropped {", "if !ready.is_empty() && !writer_dropped {")], also="C20")
mut("C08", "sweep_fuse_with_chunks_queued", "C08.R4", [(C, "if !ready.is_empty() || !writer_dropped {", "if ready.is_empty() || !writer_dropped {")])
mut("C16", "sweep_unparseable_true", "C16.R2", [(L, "                    return false; // unparseable.", "                    return true; // unparseable.")])
# ---------------- C10
mut("C10", "will_wake_inverted", "C10.R1", [(C, "Some(w) if !w.will_wake(cx.waker()) => w.clone_from(cx.waker()),", "Some(w) if w.will_wake(cx.waker()) => w.clone_from(cx.waker()),")])
mut("C10", "abort_no_waker_take", "C10.R2", [(C, "            l.state = SharedState::Err(error);\n            waker = l.waker.take();", "            l.state = SharedState::Err(error);\n            waker = None::<std::task::Waker>;")], also="C11")
mut("C10", "rc2_bug_state_not_restored", "C10.R1", [(C, "                        Some(_) => {}\n", "                        Some(_) => {\n                            drop(l);\n                            return Poll::Pending;\n                        }\n")], also="C20")
mut("C10", "flush_no_wake", "C10.R2", [(C, "            *writer_dropped = dropping;\n            l.waker.take()", "            *writer_dropped = dropping;\n            None::<std::task::Waker>")], also="C11")
mut("C10", "pending_when_dropped", "C10.R3", [(C, "                if !writer_dropped {\n                    match l.waker.as_mut() {", "                if !writer_dropped || cx.waker().will_wake(cx.waker()) {\n                    match l.waker.as_mut() {")])
# ---------------- C11
mut("C11", "end_stream_true_on_err", "C11.R3", [(C, "SharedState::Err(_) => false,", "SharedState::Err(_) => true,")], also="C12")
mut("C11", "gz_abort_only_dead", "C11.R1", [(G, "Inner::Gzipped(ref mut g) => g.get_mut().abort(error),", "Inner::Gzipped(_) => drop(error),")])
mut("C11", "reintroduce_F5_no_reader_drop", "C11.R5", [(C, "        let _old = mem::replace(&mut l.state, SharedState::ReaderFused); // drop after unlocking.\n", "")])
mut("C11", "reintroduce_F5_flush_early_ok", "C11.R6", [(C, "    fn flush_helper(&mut self, dropping: bool) -> Result<(), ()> {\n        let mut l", "    fn flush_helper(&mut self, dropping: bool) -> Result<(), ()> {\n        if self.buf.is_empty() && !dropping {\n            return Ok(());\n        }\n        let mut l")])
mut("C11", "dead_writer_write_ok", "C11.R4", [(G, 'Inner::Dead => return Err(io::Error::new(io::ErrorKind::BrokenPipe, "body is dead")),\n            Inner::Raw(ref mut w) => w.write(buf),', "Inner::Dead => return Ok(buf.len()),\n            Inner::Raw(ref mut w) => w.write(buf),")])
mut("C11", "write_error_keeps_alive", "C11.R4", [(G, "            Inner::Gzipped(ref mut w) => w.write(buf),\n        };\n        if r.is_err() {\n            self.0 = Inner::Dead;\n        }", "            Inner::Gzipped(ref mut w) => w.write(buf),\n        };")])
mut("C11", "abort_keeps_ok_state", "C11.R2", [(C, "            l.state = SharedState::Err(error);\n            waker = l.waker.take();", "            drop(error);\n            waker = l.waker.take();")])
# ---------------- C12
mut("C12", "once_hint_zero", "C12.R1", [(B_, "BodyStream::Once(Some(Ok(d))) => http_body::SizeHint::with_exact(\n                u64::try_from(d.remaining()).expect(\"usize should fit in u64\"),\n            ),", "BodyStream::Once(Some(Ok(_d))) => http_body::SizeHint::with_exact(0),")], also="C01")
mut("C12", "reader_upper_while_alive", "C12.R2", [(C, "            if *writer_dropped {\n                h.set_upper(r);\n            }", "            h.set_upper(r);")])
mut("C12", "once_end_stream_always_true", "C12.R3", [(B_, "BodyStream::Once(c) => c.is_none(),", "BodyStream::Once(_c) => true,")])
mut("C12", "exactlen_end_when_nonzero", "C12.R3", [(B_, "BodyStream::ExactLen(l) => l.remaining == 0,", "BodyStream::ExactLen(l) => l.remaining <= 1,")])
# ---------------- C13
mut("C13", "gate_only_get", "C13.R3", [(S, "if method != Method::GET && method != Method::HEAD {", "if method != Method::GET && method != Method::HEAD && method != Method::POST {")])
mut("C13", "status_teapot", "C13.R2", [(S, ".status(StatusCode::PAYLOAD_TOO_LARGE)", ".status(StatusCode::IM_A_TEAPOT)")])
mut("C13", "allow_header_missing_head", "C13.R3", [(S, 'HeaderValue::from_static("get, head")', 'HeaderValue::from_static("get")')])
mut("C13", "etag_before_gate", "C13.R3", [(S, "    if method != Method::GET && method != Method::HEAD {\n        return", "    let _early = ent.etag();\n    if method != Method::GET && method != Method::HEAD {\n        return")])
mut("C13", "estimate_unchecked_add", "C13.R1", [(S, ".and_then(|a| a.checked_add(r.end - r.start))\n                });", ".map(|a| a + (r.end - r.start))\n                });")], also="C03")
# ---------------- C14
mut("C14", "etag_after_early_returns", "C14.R1", [(S, "    if let Some(e) = etag {\n        res = res.header(http::header::ETAG, e);\n    }\n\n    if precondition_failed {\n        res = res.status(StatusCode::PRECONDITION_FAILED);\n        return ServeInner::Simple(res.body(Body::from(\"Precondition failed\")).unwrap());\n    }\n\n    if not_modified {\n        res = res.status(StatusCode::NOT_MODIFIED);\n        return ServeInner::Simple(res.body(Body::empty()).unwrap());\n    }\n",
                                                 "    if precondition_failed {\n        res = res.status(StatusCode::PRECONDITION_FAILED);\n        return ServeInner::Simple(res.body(Body::from(\"Precondition failed\")).unwrap());\n    }\n\n    if not_modified {\n        res = res.status(StatusCode::NOT_MODIFIED);\n        return ServeInner::Simple(res.body(Body::empty()).unwrap());\n    }\n    if let Some(e) = etag {\n        res = res.header(http::header::ETAG, e);\n    }\n")])
mut("C14", "clamp_max", "C14.R2", [(S, "let clamped_m = std::cmp::min(m, d);", "let clamped_m = std::cmp::max(m, d);")])
mut("C14", "add_headers_on_304", "C14.R3", [(S, "        res = res.status(StatusCode::NOT_MODIFIED);\n        return ServeInner::Simple(res.body(Body::empty()).unwrap());", "        res = res.status(StatusCode::NOT_MODIFIED);\n        let mut r304 = res.body(Body::empty()).unwrap();\n        ent.add_headers(r304.headers_mut());\n        return ServeInner::Simple(r304);")])
mut("C14", "accept_ranges_none", "C14.R1", [(S, 'Response::builder().header(header::ACCEPT_RANGES, HeaderValue::from_static("bytes"));', 'Response::builder().header(header::ACCEPT_RANGES, HeaderValue::from_static("none"));')])
mut("C14", "date_is_mtime", "C14.R2", [(S, "res = res.header(header::DATE, fmt_http_date(d));", "res = res.header(header::DATE, fmt_http_date(m));")])
# ---------------- C15
mut("C15", "head_multipart_streams", "C15.R2", [(S, "                    if method == Method::HEAD {\n                        return ServeInner::Simple(res.body(Body::empty()).unwrap());\n                    }\n", "")], also="C06")
mut("C15", "content_length_only_on_get", "C15.R1", [(S, "    res = res.header(\n        header::CONTENT_LENGTH,\n        unsafe_fmt_ascii_val!(MAX_DECIMAL_U64_BYTES, \"{}\", len),\n    );\n    let body = match", "    if method == Method::GET {\n        res = res.header(\n            header::CONTENT_LENGTH,\n            unsafe_fmt_ascii_val!(MAX_DECIMAL_U64_BYTES, \"{}\", len),\n        );\n    }\n    let body = match")], also="C01")
mut("C15", "body_needed_always", "C15.R4", [(L, "body_needed: *req.method() != http::method::Method::HEAD,", "body_needed: *req.method() != http::method::Method::HEAD || true,")])
mut("C15", "head_calls_get_range", "C15.R2", [(S, "        Method::HEAD => Body::empty(),", "        Method::HEAD => {\n            let _ = ent.get_range(range.clone());\n            Body::empty()\n        }")])
# ---------------- C16
mut("C16", "gt_instead_of_ge", "C16.R3", [(L, "gzip_q > 0 && gzip_q >= identity_q", "gzip_q > 0 && gzip_q > identity_q")])
benign("identity_default_zero_equivalent", "C16", [(L, "let identity_q = identity_q.or(star_q).unwrap_or(1);", "let identity_q = identity_q.or(star_q).unwrap_or(0);")])
mut("C16", "factor_table", "C16.R1", [(L, "1 /* 0.x */ => 100,", "1 /* 0.x */ => 10,")])
mut("C16", "gzip_ignores_star", "C16.R3", [(L, "let gzip_q = gzip_q.or(star_q).unwrap_or(0);", "let gzip_q = gzip_q.unwrap_or(0);")])
mut("C16", "xgzip_counts_as_gzip", "C16.R2", [(L, 'if coding == "gzip" {', 'if coding == "gzip" || coding == "x-gzip" {')])
mut("C16", "no_semicolon_weight_1", "C16.R2", [(L, "coding = qi.trim();\n                quality = 1000;", "coding = qi.trim();\n                quality = 1;")])
# ---------------- C17
mut("C17", "header_ignores_level", "C17.R2", [(L, "        if self.should_gzip && self.gzip_level > 0 {\n            resp.headers_mut()", "        if self.should_gzip {\n            resp.headers_mut()")])
mut("C17", "vary_only_when_gzip", "C17.R1", [(L, "        resp.headers_mut()\n            .append(header::VARY, HeaderValue::from_static(\"accept-encoding\"));\n\n        if self.should_gzip && self.gzip_level > 0 {\n            resp.headers_mut()", "        if self.should_gzip && self.gzip_level > 0 {\n            resp.headers_mut()\n                .append(header::VARY, HeaderValue::from_static(\"accept-encoding\"));\n            resp.headers_mut()")])
mut("C17", "gz_write_bypasses_encoder", "C17.R4", [(G, "            Inner::Gzipped(ref mut w) => w.write(buf),", "            Inner::Gzipped(ref mut w) => w.get_mut().write(buf),")])
mut("C17", "writer_ignores_level", "C17.R2", [(L, "let w = match self.should_gzip && self.gzip_level > 0 {", "let w = match self.should_gzip {")])
# (not a violation of C17 as stated: the property fixes whether the body is gzip, not the compression level - kept as a benign case)
benign("gzip_level_constant", "C17 C08", [(L, "flate2::Compression::new(self.gzip_level)", "flate2::Compression::new(6)")])
mut("C17", "parts_headers_returns_default", "C17.R3", [(L, "    fn headers(&self) -> &http::HeaderMap {\n        &self.headers\n    }", "    fn headers(&self) -> &http::HeaderMap {\n        static EMPTY: std::sync::OnceLock<http::HeaderMap> = std::sync::OnceLock::new();\n        let _ = &self.headers;\n        EMPTY.get_or_init(http::HeaderMap::new)\n    }")])
# ---------------- C18
mut("C18", "no_is_file_check", "C18.R1", [(FI, "        if !metadata.is_file() {\n            return Err(io::Error::new(io::ErrorKind::Other, \"expected a file\"));\n        }\n", "")])
mut("C18", "next_offset_chunk_size", "C18.R2", [(FI, "(left.start + bytes_read as u64..left.end, inner),", "(left.start + chunk_size as u64..left.end, inner),")])
mut("C18", "zero_read_ok", "C18.R2", [(P_, "        if bytes_read == 0 {\n            return Err(std::io::Error::new(\n                std::io::ErrorKind::UnexpectedEof,\n                format!(\"no bytes beyond position {}\", offset),\n            ));\n        }\n", "")])
mut("C18", "etag_without_nanos", "C18.R4", [(FI, '"\\"{:x}:{:x}:{:x}:{:x}\\"",\n                self.inner.inode,\n                self.inner.len,\n                dur.as_secs(),\n                dur.subsec_nanos()', '"\\"{:x}:{:x}:{:x}:{:x}\\"",\n                self.inner.inode,\n                self.inner.len,\n                dur.as_secs(),\n                0u32')])
mut("C18", "reintroduce_F7", "C18.R4", [(FI, "        Some(match self.inner.mtime.duration_since(time::UNIX_EPOCH) {\n            Ok(dur) => unsafe_fmt_ascii_val!(", "        Some(match Ok::<_, time::SystemTimeError>(self.inner.mtime.duration_since(time::UNIX_EPOCH).expect(\"after epoch\")) {\n            Ok(dur) => unsafe_fmt_ascii_val!(")])
mut("C18", "read_offset_zero", "C18.R2", [(FI, "match inner.f.read_at(chunk_size, left.start) {", "match inner.f.read_at(chunk_size, left.start - left.start) {")])
mut("C18", "empty_range_reads", "C18.R2", [(FI, "                if left.start == left.end {\n                    return None;\n                }\n", "                if left.start > left.end {\n                    return None;\n                }\n")])
# ---------------- C19
mut("C19", "dotdot_starts_with", "C19.R3", [(D, 'if seg == b".." {', 'if seg.starts_with(b"..") {')])
mut("C19", "no_leading_slash_check", "C19.R3", [(D, "    if path.as_bytes().first() == Some(&b'/') {\n        return Err(\"path is absolute\");\n    }\n", "")])
mut("C19", "gz_dirs_not_skipped", "C19.R4", [(D, "                        if !metadata.is_dir() {\n                            return Ok(Node {", "                        if !metadata.is_dir() || path_len > 0 {\n                            return Ok(Node {")])
mut("C19", "vary_only_when_gzipped", "C19.R5", [(D, "        if self.auto_gzip {\n            hdrs.insert(header::VARY", "        if self.is_gzipped {\n            hdrs.insert(header::VARY")])
mut("C19", "validate_after_first_slash_only", "C19.R3", [(D, "            Some(n) => left = &left[n + 1..],", "            Some(n) => left = &left[(n + 2).min(left.len())..],")])
mut("C19", "gz_without_auto", "C19.R4", [(D, "let should_gzip = self.auto_gzip && super::should_gzip(req_hdrs);", "let should_gzip = super::should_gzip(req_hdrs);")])
mut("C19", "nul_check_removed", "C19.R3", [(D, "    if memchr::memchr(0, path.as_bytes()).is_some() {\n        return Err(\"path contains NUL byte\");\n    }\n    if path.as_bytes().first()", "    if path.as_bytes().first()")])
mut("C19", "any_error_falls_back", "C19.R4", [(D, "                    Err(ref e) if e.kind() == ErrorKind::NotFound => {}\n                    Err(e) => return Err(e),", "                    Err(_) => {}")])
mut("C19", "sweep_builder_setter_noop", "C19.R5", [(D, "        self.auto_gzip = auto_gzip;\n", "")])
# ---------------- C20
mut("C20", "reader_restores_ok_on_end", "C20.R1", [(C, "                Poll::Ready(None)\n            }\n            SharedState::Err(e) =>", "                l.state = SharedState::Ok {\n                    ready,\n                    ready_bytes,\n                    writer_dropped,\n                };\n                Poll::Ready(None)\n            }\n            SharedState::Err(e) =>")], also="C10")
mut("C20", "multipart_error_state_not_end", "C20.R4", [(S, "                        this.state = this.ranges.len() << 1 | 1;\n                        return Poll::Ready(Some(Err(e)));", "                        return Poll::Ready(Some(Err(e)));")], also="C07")
mut("C20", "once_not_taken", "C20.R2", [(B_, "BodyStreamProj::Once(c) => Poll::Ready(c.take()),", "BodyStreamProj::Once(c) => Poll::Ready(c.as_mut().map(|_| Err(E::from(\"x\".into())))),")])

# ---------------- benign rewrites (must stay silent)
benign("f1_checked_add_unwrap_or", "C03 C02 C13", [(R, ".saturating_add(1),", ".checked_add(1)\n                    .unwrap_or(u64::MAX),")])
benign("strong_eq_reordered", "C04 C05 C14", [(E, 'a == b && !a.starts_with(b"W/")', '!b.starts_with(b"W/") && a == b')])
benign("is_end_stream_exactlen_false", "C12 C01", [(B_, "BodyStream::ExactLen(l) => l.remaining == 0,", "BodyStream::ExactLen(_l) => false,")])
benign("estimate_constant_100", "C03", [(S, "acc.checked_add(80)", "acc.checked_add(100)")])
benign("wake_by_ref", "C10 C11", [(C, "        if let Some(w) = waker {\n            w.wake();\n        }\n        Ok(())", "        if let Some(w) = waker {\n            w.wake_by_ref();\n        }\n        Ok(())")])
benign("abort_keeps_queue", "C11 C10", [(C, "            _ready = std::mem::take(ready); // drop might be slow; release lock first.\n", "            _ready = std::collections::VecDeque::<Vec<u8>>::new();\n            let _ = &ready;\n")])
benign("rename_serve_inner", "C01 C05 C13 C15", [(S, "match serve_inner(&entity, req.method(), req.headers()) {", "match serve_dyn(&entity, req.method(), req.headers()) {"), (S, "fn serve_inner<", "fn serve_dyn<")])
benign("allow_header_uppercase", "C13", [(S, 'HeaderValue::from_static("get, head")', 'HeaderValue::from_static("GET, HEAD")')])
benign("any_match_match_rewrite", "C04", [(E, "    if m == b\"*\" {\n        // The absent header and \"If-Match: *\" cases differ only when there is no entity to serve.\n        // We always have an entity to serve, so consider them identical.\n        return Ok(true);\n    }", "    match m {\n        b\"*\" => return Ok(true),\n        _ => {}\n    }")])
benign("flush_helper_locals_renamed", "C08 C10 C11 C12", [(C, "                let full_buf = mem::take(&mut self.buf);\n                *ready_bytes += full_buf.len();\n                ready.push_back(full_buf);", "                let chunk = mem::take(&mut self.buf);\n                let n = chunk.len();\n                ready.push_back(chunk);\n                *ready_bytes += n;")])
benign("log_call_in_serve", "C01 C13 C14 C15", [(S, "    let last_modified = ent.last_modified();\n    let etag = ent.etag();\n", "    let last_modified = ent.last_modified();\n    let etag = ent.etag();\n    let _ = std::hint::black_box(0u8);\n")])
benign("range_suffix_saturating_sub", "C02 C03", [(R, "ranges.push((len - last)..len);", "ranges.push(len.saturating_sub(last)..len);")])
benign("qvalue_match_order", "C16", [(L, '"0" | "0." => return Ok(0),', '"0." | "0" => return Ok(0),')])
benign("dir_seg_ne", "C19", [(D, 'if seg == b".." {', 'if b".." == seg {')])
benign("build_condition_let", "C17 C15", [(L, "        if self.should_gzip && self.gzip_level > 0 {\n            resp.headers_mut()", "        let gz = self.should_gzip && self.gzip_level > 0;\n        if gz {\n            resp.headers_mut()")])


def apply(edits):
    files = {}
    for f, old, new in edits:
        p = os.path.join(REPO, f)
        if f not in files:
            files[f] = open(p).read()
        t = files[f]
        if t.count(old) != 1:
            return None, "edit does not match exactly once in %s (%d): %r" % (f, t.count(old), old[:60])
        files[f] = t.replace(old, new)
    return files, None


def make_patch(files):
    out = []
    for f, new in files.items():
        old = open(os.path.join(REPO, f)).read()
        d = difflib.unified_diff(old.splitlines(True), new.splitlines(True), "a/" + f, "b/" + f)
        out.append("".join(d))
    return "".join(out)


def main():
    bad = 0
    import glob
    for f in glob.glob(os.path.join(HERE, "mutants", "*", "*.patch")) + glob.glob(os.path.join(HERE, "benign", "*.patch")):
        os.remove(f)
    for prop, name, rule, edits, also in M:
        files, err = apply(edits)
        if err:
            print("SKIP mutant %s/%s: %s" % (prop, name, err))
            bad += 1
            continue
        d = os.path.join(HERE, "mutants", prop)
        os.makedirs(d, exist_ok=True)
        with open(os.path.join(d, name + ".patch"), "w") as f:
            f.write("# rule: %s\n" % rule)
            if also:
                f.write("# also: %s\n" % also)
            f.write(make_patch(files))
    for name, props, edits in B:
        files, err = apply(edits)
        if err:
            print("SKIP benign %s: %s" % (name, err))
            bad += 1
            continue
        d = os.path.join(HERE, "benign")
        os.makedirs(d, exist_ok=True)
        with open(os.path.join(d, name + ".patch"), "w") as f:
            f.write("# check: %s\n" % props)
            f.write(make_patch(files))
    print("mutants: %d, benign: %d, skipped: %d" % (len(M), len(B), bad))


if __name__ == "__main__":
    main()
