#!/usr/bin/env python3
"""Systematic mutation sweep of the *checkers* (not a test of http-serve): generic syntactic mutation operators are
applied to every non-test line of /repo/src/*.rs, one at a time; each mutant that still type-checks is analysed with the
checks of the properties that live in that file.  Output: which mutants are flagged, which survive (to be triaged as
equivalent / outside every property / checker gap).  Nothing here runs http-serve code.

  selftest/auto_mutate.py [--files range.rs,etag.rs] [--jobs 8] [--out selftest/auto_sweep.json] [--limit N]
"""
import argparse
import concurrent.futures
import json
import os
import re
import shutil
import subprocess
import sys
import tempfile

HERE = os.path.dirname(os.path.dirname(os.path.abspath(__file__)))
REPO = os.environ.get("HSV_REPO", "/repo")
if os.environ.get("HSV_SWEEP_FROM_HEAD"):
    # work from a pristine export of HEAD (so that a concurrent, temporary edit of the working tree cannot leak in)
    _exp = tempfile.mkdtemp(prefix="hsv-sweep-head-", dir="/tmp")
    subprocess.run("git -C /repo archive HEAD | tar -x -C %s" % _exp, shell=True, check=True)
    REPO = _exp

FILE_PROPS = {
    "serving.rs": ["C01", "C02", "C03", "C04", "C05", "C06", "C07", "C12", "C13", "C14", "C15", "C20"],
    "range.rs": ["C02", "C03", "C13"],
    "etag.rs": ["C04", "C05", "C14"],
    "body.rs": ["C01", "C07", "C12", "C20", "C13"],
    "chunker.rs": ["C08", "C10", "C11", "C12", "C20"],
    "gzip.rs": ["C08", "C11", "C17"],
    "lib.rs": ["C15", "C16", "C17", "C13"],
    "file.rs": ["C18"],
    "platform.rs": ["C18"],
    "dir.rs": ["C19"],
}

OPS = [
    (r" <= ", " < "), (r" < ", " <= "), (r" >= ", " > "), (r" > ", " >= "),
    (r" == ", " != "), (r" != ", " == "), (r" && ", " || "), (r" \|\| ", " && "),
    (r"\btrue\b", "false"), (r"\bfalse\b", "true"),
    (r" \+ 1\b", " + 0"), (r" - 1\b", " - 0"), (r" \+ 1\b", " + 2"),
    (r"\b0u64\b", "1u64"), (r"\(0\)", "(1)"), (r"\b80\b", "81"),
    (r"if !", "if "), (r"\.is_none\(\)", ".is_some()"), (r"\.is_some\(\)", ".is_none()"),
    (r"\.is_empty\(\)", ".is_empty() == false"), (r"\bmin\(", "max("),
    (r"Some\(true\)", "Some(false)"), (r"Some\(false\)", "Some(true)"),
    (r"Ok\(true\)", "Ok(false)"), (r"<< 1 \| 1", "<< 1"), (r"\.checked_add\(", ".wrapping_add("),
    (r"\.saturating_add\(", ".wrapping_add("), (r"pop_front", "pop_back"), (r"push_back", "push_front"),
    (r"\.take\(\)", ".clone()"),
]


def code_lines(path):
    """(index, line) of lines outside #[cfg(test)] modules, comments and attribute lines"""
    lines = open(path).read().split("\n")
    out = []
    in_test = False
    for i, l in enumerate(lines):
        s = l.strip()
        if s.startswith("#[cfg(test)]"):
            in_test = True
        if in_test:
            continue
        if not s or s.startswith("//") or s.startswith("#[") or s.startswith("#!["):
            continue
        if "//" in l:
            code = l.split("//")[0]
        else:
            code = l
        out.append((i, code))
    return lines, out


def gen_mutants(files):
    muts = []
    for f in files:
        path = os.path.join(REPO, "src", f)
        lines, cl = code_lines(path)
        for i, code in cl:
            for pat, rep in OPS:
                for m in re.finditer(pat, code):
                    new = lines[i][:m.start()] + rep + lines[i][m.end():]
                    if new != lines[i]:
                        muts.append({"file": f, "line": i + 1, "op": "%s -> %s" % (pat, rep), "old": lines[i].strip(), "new": new.strip(),
                                     "text": "\n".join(lines[:i] + [new] + lines[i + 1:])})
            # statement deletion: plain assignments / expression statements (not let, not return)
            s = lines[i].strip()
            if s.endswith(";") and not s.startswith(("let ", "return", "use ", "pub ", "const ", "static ", "type ", "}", "assert", "debug_assert")) \
                    and ("=" in s or "(" in s) and not s.startswith(("*", "&")) or (s.startswith("*") and s.endswith(";") and " = " in s):
                muts.append({"file": f, "line": i + 1, "op": "delete statement", "old": s, "new": "",
                             "text": "\n".join(lines[:i] + ["" ] + lines[i + 1:])})
    return muts


def run_mutant(m):
    tmp = tempfile.mkdtemp(prefix="hsv-sweep-", dir="/tmp")
    res = {k: m[k] for k in ("file", "line", "op", "old", "new")}
    try:
        work = os.path.join(tmp, "repo")
        os.makedirs(work)
        for name in ("src", "Cargo.toml", "Cargo.lock"):
            p = os.path.join(REPO, name)
            if os.path.isdir(p):
                shutil.copytree(p, os.path.join(work, name))
            else:
                shutil.copy(p, os.path.join(work, name))
        for d in ("tests", "benches", "examples"):
            if os.path.isdir(os.path.join(REPO, d)):
                shutil.copytree(os.path.join(REPO, d), os.path.join(work, d))
        with open(os.path.join(work, "src", m["file"]), "w") as f:
            f.write(m["text"])
        facts = os.path.join(tmp, "facts.json")
        r = subprocess.run([os.path.join(HERE, "bin", "mkfacts"), work, facts, "--features", "dir"], capture_output=True, text=True)
        if r.returncode != 0:
            res["status"] = "does-not-compile"
            return res
        flagged = []
        for prop in FILE_PROPS[m["file"]]:
            r = subprocess.run([sys.executable, "-m", "hsv.check", prop, "--facts", facts, "--evidence-dir", os.path.join(tmp, "ev"), "--quiet"],
                               cwd=HERE, capture_output=True, text=True)
            if r.returncode != 0:
                v = [l for l in r.stdout.splitlines() if l.startswith("VIOLATION-DETAIL")]
                flagged.append({"prop": prop, "first": (v[0][:200] if v else "")})
                break   # one flag is enough for the sweep
        res["status"] = "flagged" if flagged else "survived"
        res["flagged_by"] = flagged
        return res
    finally:
        shutil.rmtree(tmp, ignore_errors=True)


def main():
    ap = argparse.ArgumentParser()
    ap.add_argument("--files", default=",".join(FILE_PROPS))
    ap.add_argument("--jobs", type=int, default=8)
    ap.add_argument("--out", default=os.path.join(HERE, "selftest", "auto_sweep.json"))
    ap.add_argument("--limit", type=int, default=0)
    a = ap.parse_args()
    files = [f for f in a.files.split(",") if f in FILE_PROPS]
    muts = gen_mutants(files)
    if a.limit:
        muts = muts[:a.limit]
    print("mutants generated: %d" % len(muts), flush=True)
    results = []
    with concurrent.futures.ThreadPoolExecutor(max_workers=a.jobs) as ex:
        for r in ex.map(run_mutant, muts):
            results.append(r)
            if r["status"] == "survived":
                print("SURVIVED %s:%d  %s   [%s]  ->  [%s]" % (r["file"], r["line"], r["op"], r["old"][:90], r["new"][:90]), flush=True)
    summ = {}
    for r in results:
        k = (r["file"], r["status"])
        summ["%s %s" % k] = summ.get("%s %s" % k, 0) + 1
    tot = {}
    for r in results:
        tot[r["status"]] = tot.get(r["status"], 0) + 1
    print("SUMMARY", json.dumps(tot), flush=True)
    with open(a.out, "w") as f:
        json.dump({"total": tot, "by_file": summ, "results": results}, f, indent=1)


if __name__ == "__main__":
    main()
