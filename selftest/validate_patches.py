#!/usr/bin/env python3
"""For each selftest patch: does the patched crate still compile and pass the pinned 35-test suite?
(mutants that the suite kills are dropped from the catalogue).  Writes selftest/validity.json.
Scratch copies and build output live under /tmp and are removed."""
import concurrent.futures, glob, json, os, shutil, subprocess, sys, tempfile, threading
HERE = os.path.dirname(os.path.abspath(__file__))
REPO = "/repo"
patches = sorted(glob.glob(os.path.join(HERE, "mutants", "*", "*.patch")) + glob.glob(os.path.join(HERE, "benign", "*.patch")))
if len(sys.argv) > 1:
    patches = [p for p in patches if any(a in p for a in sys.argv[1:])]
NW = 4
local = threading.local()
counter = [0]
lock = threading.Lock()

def worker_dir():
    if not hasattr(local, "d"):
        with lock:
            counter[0] += 1
            local.d = "/tmp/hsv-validate-target-%d" % counter[0]
    return local.d

def run(p):
    tmp = tempfile.mkdtemp(prefix="hsv-validate-", dir="/tmp")
    try:
        work = os.path.join(tmp, "repo")
        os.makedirs(work)
        for name in ("src", "Cargo.toml", "Cargo.lock", "tests", "benches", "examples"):
            s = os.path.join(REPO, name)
            if os.path.isdir(s): shutil.copytree(s, os.path.join(work, name), copy_function=shutil.copy)  # fresh mtimes: cargo must rebuild
            elif os.path.exists(s): shutil.copy(s, os.path.join(work, name))
        r = subprocess.run(["patch", "-p1", "-s", "--no-backup-if-mismatch", "-i", p], cwd=work, capture_output=True, text=True)
        if r.returncode != 0:
            return p, {"status": "patch-failed"}
        env = dict(os.environ, CARGO_TARGET_DIR=worker_dir(), CARGO_NET_OFFLINE="true")
        subprocess.run(["cargo", "test", "--offline", "--workspace", "--no-run"], cwd=work, capture_output=True, text=True, env=env)
        r = subprocess.run(["timeout", "-k", "5", "90", "cargo", "test", "--offline", "--workspace", "--no-fail-fast", "--", "--test-threads", "4"],
                           cwd=work, capture_output=True, text=True, env=env)
        if r.returncode in (124, 137):
            return p, {"status": "tests-hang"}
        out = r.stdout + r.stderr
        failed = [l for l in out.splitlines() if l.startswith("test ") and l.endswith("FAILED")]
        if "error[" in out or "error: could not compile" in out:
            return p, {"status": "compile-error", "detail": [l for l in out.splitlines() if l.startswith("error")][:3]}
        # with dir feature too (the analysis config)
        return p, {"status": "ok" if r.returncode == 0 else "tests-fail", "failed": failed[:5]}
    finally:
        shutil.rmtree(tmp, ignore_errors=True)

res = {}
with concurrent.futures.ThreadPoolExecutor(max_workers=NW) as ex:
    for p, r in ex.map(run, patches):
        res[os.path.relpath(p, HERE)] = r
        print(r["status"], os.path.relpath(p, HERE), r.get("failed") or r.get("detail") or "", flush=True)
for i in range(1, counter[0] + 1):
    shutil.rmtree("/tmp/hsv-validate-target-%d" % i, ignore_errors=True)
old = {}
vp = os.path.join(HERE, "validity.json")
if os.path.exists(vp) and len(sys.argv) > 1:
    old = json.load(open(vp))
old.update(res)
json.dump(old, open(vp, "w"), indent=1, sort_keys=True)
