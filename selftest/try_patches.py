#!/usr/bin/env python3
"""Run every registered check on a scratch copy of /repo with one patch applied (static analysis only; nothing is executed).

  selftest/try_patches.py [--jobs N] [--props C01,C02] patch...

Prints, per patch, the checks that report a violation (with the first reports).  Used to try candidate benign refactorings
(must be silent) and candidate breaking changes (must be flagged) before they are filed in the catalogue."""
import argparse
import concurrent.futures
import json
import os
import shutil
import subprocess
import sys
import tempfile

HERE = os.path.dirname(os.path.dirname(os.path.abspath(__file__)))
REPO = os.environ.get("HSV_REPO", "/repo")
ALL = ["C%02d" % i for i in range(1, 21) if i != 9]


def run(args):
    patch, props = args
    tmp = tempfile.mkdtemp(prefix="hsv-try-", dir="/tmp")
    res = {"patch": patch}
    try:
        work = os.path.join(tmp, "repo")
        os.makedirs(work)
        subprocess.run("git -C %s archive HEAD | tar -x -C %s" % (REPO, work), shell=True, check=True)
        r = subprocess.run(["git", "apply", "--unsafe-paths", "--directory=" + work, patch], cwd="/", capture_output=True, text=True)
        if r.returncode != 0:
            r = subprocess.run(["patch", "-p1", "-s", "--no-backup-if-mismatch", "-i", patch], cwd=work, capture_output=True, text=True)
            if r.returncode != 0:
                res["status"] = "PATCH-FAILED"
                return res
        facts = os.path.join(tmp, "facts.json")
        r = subprocess.run([os.path.join(HERE, "bin", "mkfacts"), work, facts, "--features", "dir"], capture_output=True, text=True)
        if r.returncode != 0:
            res["status"] = "BUILD-FAILED"
            res["detail"] = r.stderr[-500:]
            return res
        flagged = {}
        for p in props:
            r = subprocess.run([sys.executable, "-m", "hsv.check", p, "--facts", facts, "--evidence-dir", os.path.join(tmp, "ev"), "--quiet"],
                               cwd=HERE, capture_output=True, text=True)
            if r.returncode != 0:
                v = [l[:400] for l in r.stdout.splitlines() if l.startswith("VIOLATION-DETAIL")]
                flagged[p] = v[:4] or [(r.stdout + r.stderr)[-400:]]
        res["status"] = "FLAGGED" if flagged else "SILENT"
        res["flagged"] = flagged
        return res
    finally:
        shutil.rmtree(tmp, ignore_errors=True)


def main():
    ap = argparse.ArgumentParser()
    ap.add_argument("--jobs", type=int, default=6)
    ap.add_argument("--props", default=",".join(ALL))
    ap.add_argument("--json", default=None)
    ap.add_argument("patches", nargs="+")
    a = ap.parse_args()
    props = a.props.split(",")
    out = []
    with concurrent.futures.ThreadPoolExecutor(max_workers=a.jobs) as ex:
        for r in ex.map(run, [(os.path.abspath(p), props) for p in a.patches]):
            out.append(r)
            print("%-12s %s" % (r["status"], r["patch"]), flush=True)
            for p, v in (r.get("flagged") or {}).items():
                for l in v:
                    print("      %s %s" % (p, l), flush=True)
            if r.get("detail"):
                print("      " + r["detail"].replace("\n", "\n      "), flush=True)
    if a.json:
        json.dump(out, open(a.json, "w"), indent=1)


if __name__ == "__main__":
    main()
