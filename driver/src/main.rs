// hsfacts: rustc_private driver that dumps type-checked, resolved MIR facts of the
// crate `http_serve` as one JSON document (path from env HSFACTS_OUT).
// Injected with RUSTC_WORKSPACE_WRAPPER under `cargo +nightly check`.
#![feature(rustc_private)]
#![allow(clippy::all)]

extern crate rustc_abi;
extern crate rustc_driver;
extern crate rustc_hir;
extern crate rustc_interface;
extern crate rustc_middle;
extern crate rustc_span;

use rustc_driver::Compilation;
use rustc_hir::def::DefKind;
use rustc_hir::def_id::{DefId, LOCAL_CRATE};
use rustc_middle::mir::{self, *};
use rustc_middle::ty::{self, Instance, Ty, TyCtxt, TypingEnv};
use rustc_span::{Span, DUMMY_SP};
use std::collections::BTreeMap;
use std::fmt::Write as _;

mod json;
use json::J;

struct Cb;

impl rustc_driver::Callbacks for Cb {
    fn after_analysis<'tcx>(
        &mut self,
        _c: &rustc_interface::interface::Compiler,
        tcx: TyCtxt<'tcx>,
    ) -> Compilation {
        if tcx.crate_name(LOCAL_CRATE).as_str() == "http_serve" {
            if let Ok(out) = std::env::var("HSFACTS_OUT") {
                let doc = dump_crate(tcx);
                let mut s = String::new();
                doc.write(&mut s);
                std::fs::write(&out, s).expect("write facts");
            }
        }
        Compilation::Continue
    }
}

fn main() {
    let mut args: Vec<String> = std::env::args().collect();
    // RUSTC_WORKSPACE_WRAPPER passes the real rustc as argv[1].
    if args.len() > 1 && (args[1].ends_with("rustc") || args[1].contains("/rustc")) {
        args.remove(1);
    }
    let mut feats = vec![];
    for w in args.windows(2) {
        if w[0] == "--cfg" && w[1].starts_with("feature=") {
            feats.push(w[1]["feature=".len()..].trim_matches('"').to_string());
        }
    }
    std::env::set_var("HSFACTS_FEATURES", feats.join(","));
    let mut cb = Cb;
    rustc_driver::run_compiler(&args, &mut cb);
}

fn s<T: Into<String>>(x: T) -> J {
    J::Str(x.into())
}
fn n(x: impl TryInto<i128>) -> J {
    J::Num(x.try_into().ok().unwrap_or(-1))
}
fn obj(v: Vec<(&str, J)>) -> J {
    J::Obj(v.into_iter().map(|(k, v)| (k.to_string(), v)).collect())
}

struct Cx<'tcx> {
    tcx: TyCtxt<'tcx>,
    adts: BTreeMap<String, J>,
}

fn span_j(tcx: TyCtxt<'_>, sp: Span) -> J {
    let sm = tcx.sess.source_map();
    let mut macros = vec![];
    for e in sp.macro_backtrace() {
        if let rustc_span::ExpnKind::Macro(_, name) = e.kind {
            macros.push(s(name.as_str()));
        } else {
            macros.push(s(format!("{:?}", e.kind)));
        }
    }
    // location of the outermost call site in real source
    let root = sp.source_callsite();
    let lo = sm.lookup_char_pos(root.lo());
    let file = match &lo.file.name {
        rustc_span::FileName::Real(r) => r
            .local_path()
            .map(|p| p.display().to_string())
            .unwrap_or_else(|| format!("{:?}", lo.file.name)),
        o => format!("{:?}", o),
    };
    let mut v = vec![("file", s(file)), ("line", n(lo.line)), ("col", n(lo.col.0 + 1))];
    if sp.from_expansion() {
        v.push(("exp", J::Bool(true)));
        v.push(("macros", J::Arr(macros)));
    }
    obj(v)
}

fn ty_j<'tcx>(cx: &mut Cx<'tcx>, t: Ty<'tcx>) -> J {
    let tcx = cx.tcx;
    let mut v: Vec<(&str, J)> = vec![("s", s(format!("{}", t)))];
    match t.kind() {
        ty::Bool => v.push(("k", s("bool"))),
        ty::Char => v.push(("k", s("char"))),
        ty::Int(i) => {
            v.push(("k", s("int")));
            v.push(("signed", J::Bool(true)));
            v.push(("bits", n(i.bit_width().unwrap_or(64))));
        }
        ty::Uint(u) => {
            v.push(("k", s("int")));
            v.push(("signed", J::Bool(false)));
            v.push(("bits", n(u.bit_width().unwrap_or(64))));
        }
        ty::Float(_) => v.push(("k", s("float"))),
        ty::Adt(def, args) => {
            v.push(("k", s("adt")));
            let p = tcx.def_path_str(def.did());
            note_adt(cx, *def);
            v.push(("adt", s(p)));
            let mut a = vec![];
            for ga in args.iter() {
                if let Some(t2) = ga.as_type() {
                    a.push(ty_shallow(cx, t2));
                }
            }
            v.push(("args", J::Arr(a)));
        }
        ty::Ref(_, inner, m) => {
            v.push(("k", s("ref")));
            v.push(("mut", J::Bool(m.is_mut())));
            v.push(("inner", ty_shallow(cx, *inner)));
        }
        ty::RawPtr(inner, m) => {
            v.push(("k", s("ptr")));
            v.push(("mut", J::Bool(m.is_mut())));
            v.push(("inner", ty_shallow(cx, *inner)));
        }
        ty::Tuple(ts) => {
            v.push(("k", s("tuple")));
            let a = ts.iter().map(|t2| ty_shallow(cx, t2)).collect();
            v.push(("elems", J::Arr(a)));
        }
        ty::Slice(inner) => {
            v.push(("k", s("slice")));
            v.push(("inner", ty_shallow(cx, *inner)));
        }
        ty::Array(inner, _) => {
            v.push(("k", s("array")));
            v.push(("inner", ty_shallow(cx, *inner)));
        }
        ty::Str => v.push(("k", s("str"))),
        ty::Never => v.push(("k", s("never"))),
        ty::Param(_) => v.push(("k", s("param"))),
        ty::Dynamic(..) => v.push(("k", s("dyn"))),
        ty::FnDef(d, _) => {
            v.push(("k", s("fndef")));
            v.push(("def", s(tcx.def_path_str(*d))));
        }
        ty::FnPtr(..) => v.push(("k", s("fnptr"))),
        ty::Closure(d, _) => {
            v.push(("k", s("closure")));
            v.push(("def", s(tcx.def_path_str(*d))));
        }
        ty::Coroutine(d, _) => {
            v.push(("k", s("coroutine")));
            v.push(("def", s(tcx.def_path_str(*d))));
        }
        ty::Alias(..) => v.push(("k", s("alias"))),
        _ => v.push(("k", s("other"))),
    }
    obj(v)
}

// one level only (string + kind + adt path) to keep the dump small
fn ty_shallow<'tcx>(cx: &mut Cx<'tcx>, t: Ty<'tcx>) -> J {
    let tcx = cx.tcx;
    let mut v: Vec<(&str, J)> = vec![("s", s(format!("{}", t)))];
    match t.kind() {
        ty::Adt(def, _) => {
            note_adt(cx, *def);
            v.push(("k", s("adt")));
            v.push(("adt", s(tcx.def_path_str(def.did()))));
        }
        ty::Int(i) => {
            v.push(("k", s("int")));
            v.push(("signed", J::Bool(true)));
            v.push(("bits", n(i.bit_width().unwrap_or(64))));
        }
        ty::Uint(u) => {
            v.push(("k", s("int")));
            v.push(("signed", J::Bool(false)));
            v.push(("bits", n(u.bit_width().unwrap_or(64))));
        }
        ty::Ref(_, inner, m) => {
            v.push(("k", s("ref")));
            v.push(("mut", J::Bool(m.is_mut())));
            v.push(("inner_s", s(format!("{}", inner))));
        }
        ty::Param(_) => v.push(("k", s("param"))),
        ty::Dynamic(..) => v.push(("k", s("dyn"))),
        ty::Str => v.push(("k", s("str"))),
        ty::Slice(_) => v.push(("k", s("slice"))),
        ty::Bool => v.push(("k", s("bool"))),
        ty::Tuple(_) => v.push(("k", s("tuple"))),
        _ => v.push(("k", s("other"))),
    }
    obj(v)
}

fn note_adt<'tcx>(cx: &mut Cx<'tcx>, def: ty::AdtDef<'tcx>) {
    let tcx = cx.tcx;
    let p = tcx.def_path_str(def.did());
    if cx.adts.contains_key(&p) {
        return;
    }
    cx.adts.insert(p.clone(), J::Null); // reserve (recursion guard)
    let kind = if def.is_enum() {
        "enum"
    } else if def.is_union() {
        "union"
    } else {
        "struct"
    };
    let mut variants = vec![];
    let discrs: Vec<(rustc_abi::VariantIdx, u128)> = if def.is_enum() {
        def.discriminants(tcx).map(|(i, d)| (i, d.val)).collect()
    } else {
        vec![]
    };
    for (vi, var) in def.variants().iter_enumerated() {
        let mut fields = vec![];
        for f in var.fields.iter() {
            let fty = tcx.type_of(f.did).instantiate_identity().skip_norm_wip();
            fields.push(obj(vec![
                ("name", s(f.name.as_str())),
                ("ty", s(format!("{}", fty))),
                ("vis", s(format!("{:?}", f.vis))),
            ]));
        }
        let d = discrs.iter().find(|(i, _)| *i == vi).map(|(_, d)| *d);
        variants.push(obj(vec![
            ("name", s(var.name.as_str())),
            ("idx", n(vi.as_u32())),
            ("discr", d.map(|d| n(d as i128)).unwrap_or(J::Null)),
            ("fields", J::Arr(fields)),
        ]));
    }
    let local = def.did().is_local();
    let destructor = tcx
        .adt_destructor(def.did())
        .map(|d| s(tcx.def_path_str(d.did)))
        .unwrap_or(J::Null);
    let j = obj(vec![
        ("path", s(p.clone())),
        ("kind", s(kind)),
        ("local", J::Bool(local)),
        ("vis", if local { s(format!("{:?}", tcx.visibility(def.did()))) } else { J::Null }),
        ("drop", destructor),
        ("variants", J::Arr(variants)),
    ]);
    cx.adts.insert(p, j);
}

fn field_name<'tcx>(cx: &mut Cx<'tcx>, pty: mir::PlaceTy<'tcx>, f: rustc_abi::FieldIdx) -> String {
    let tcx = cx.tcx;
    match pty.ty.kind() {
        ty::Adt(def, _) => {
            note_adt(cx, *def);
            let vi = pty.variant_index.unwrap_or(rustc_abi::FIRST_VARIANT);
            let var = def.variant(vi);
            var.fields
                .get(f)
                .map(|fd| fd.name.as_str().to_string())
                .unwrap_or_else(|| format!("{}", f.as_u32()))
        }
        ty::Closure(did, _) | ty::Coroutine(did, _) => {
            // captured variable names, when available
            if let Some(ld) = did.as_local() {
                let names = tcx.closure_saved_names_of_captured_variables(ld.to_def_id());
                if let Some(nm) = names.get(f) {
                    return nm.as_str().to_string();
                }
            }
            format!("{}", f.as_u32())
        }
        _ => format!("{}", f.as_u32()),
    }
}

fn place_j<'tcx>(cx: &mut Cx<'tcx>, body: &Body<'tcx>, p: &Place<'tcx>) -> J {
    let tcx = cx.tcx;
    let mut pty = mir::PlaceTy::from_ty(body.local_decls[p.local].ty);
    let mut proj = vec![];
    for elem in p.projection.iter() {
        let e = match elem {
            ProjectionElem::Deref => obj(vec![("k", s("deref"))]),
            ProjectionElem::Field(f, _) => {
                let name = field_name(cx, pty, f);
                obj(vec![("k", s("field")), ("i", n(f.as_u32())), ("name", s(name))])
            }
            ProjectionElem::Index(l) => obj(vec![("k", s("index")), ("local", n(l.as_u32()))]),
            ProjectionElem::ConstantIndex { offset, min_length, from_end } => obj(vec![
                ("k", s("constindex")),
                ("offset", n(offset)),
                ("min_length", n(min_length)),
                ("from_end", J::Bool(from_end)),
            ]),
            ProjectionElem::Subslice { from, to, from_end } => obj(vec![
                ("k", s("subslice")),
                ("from", n(from)),
                ("to", n(to)),
                ("from_end", J::Bool(from_end)),
            ]),
            ProjectionElem::Downcast(name, vi) => {
                let nm = match (name, pty.ty.kind()) {
                    (Some(sy), _) => sy.as_str().to_string(),
                    (None, ty::Adt(def, _)) => def.variant(vi).name.as_str().to_string(),
                    _ => format!("{}", vi.as_u32()),
                };
                obj(vec![("k", s("downcast")), ("variant", s(nm)), ("idx", n(vi.as_u32()))])
            }
            ProjectionElem::OpaqueCast(_) => obj(vec![("k", s("opaquecast"))]),
            ProjectionElem::UnwrapUnsafeBinder(_) => obj(vec![("k", s("unwrapbinder"))]),
        };
        proj.push(e);
        pty = pty.projection_ty(tcx, elem);
    }
    let tyj = ty_shallow(cx, pty.ty);
    obj(vec![("local", n(p.local.as_u32())), ("proj", J::Arr(proj)), ("ty", tyj)])
}

fn bytes_j(b: &[u8]) -> J {
    // lossless: latin-1 style escaping into a JSON string + a flag whether it is utf8
    let mut st = String::new();
    for &c in b {
        st.push(c as char);
    }
    J::Str(st)
}

fn read_alloc_bytes<'tcx>(tcx: TyCtxt<'tcx>, id: mir::interpret::AllocId, off: u64, len: u64) -> Option<Vec<u8>> {
    match tcx.try_get_global_alloc(id)? {
        mir::interpret::GlobalAlloc::Memory(a) => {
            let a = a.inner();
            let end = off.checked_add(len)?;
            if end as usize > a.len() {
                return None;
            }
            Some(a.inspect_with_uninit_and_ptr_outside_interpreter(off as usize..end as usize).to_vec())
        }
        mir::interpret::GlobalAlloc::Static(did) => {
            let a = tcx.eval_static_initializer(did).ok()?;
            let a = a.inner();
            let end = off.checked_add(len)?;
            if end as usize > a.len() {
                return None;
            }
            Some(a.inspect_with_uninit_and_ptr_outside_interpreter(off as usize..end as usize).to_vec())
        }
        _ => None,
    }
}

fn constval_j<'tcx>(cx: &mut Cx<'tcx>, val: mir::ConstValue, t: Ty<'tcx>) -> Vec<(&'static str, J)> {
    let tcx = cx.tcx;
    let mut v = vec![];
    match val {
        mir::ConstValue::Scalar(mir::interpret::Scalar::Int(si)) => {
            let size = si.size();
            let bits = si.to_bits(size);
            match t.kind() {
                ty::Bool => v.push(("bool", J::Bool(bits != 0))),
                ty::Char => {
                    v.push(("char", n(bits as i128)));
                }
                ty::Int(_) => {
                    let sv = size.sign_extend(bits) as i128;
                    v.push(("int", J::Num(sv)));
                }
                _ => {
                    if bits <= i128::MAX as u128 {
                        v.push(("int", J::Num(bits as i128)));
                    } else {
                        v.push(("int_s", s(format!("{}", bits))));
                    }
                }
            }
        }
        mir::ConstValue::Scalar(mir::interpret::Scalar::Ptr(p, _)) => {
            let (prov, off) = p.into_raw_parts();
            let id = prov.alloc_id();
            // &[u8; N] or &T: try to read N bytes if the pointee is a byte array
            if let ty::Ref(_, inner, _) = t.kind() {
                if let ty::Array(et, len) = inner.kind() {
                    if *et == tcx.types.u8 {
                        if let Some(l) = len.try_to_target_usize(tcx) {
                            if let Some(b) = read_alloc_bytes(tcx, id, off.bytes(), l) {
                                v.push(("bytes", bytes_j(&b)));
                            }
                        }
                    }
                }
            }
            match tcx.try_get_global_alloc(id) {
                Some(mir::interpret::GlobalAlloc::Static(did)) => {
                    v.push(("static", s(tcx.def_path_str(did))));
                }
                Some(mir::interpret::GlobalAlloc::Function { instance }) => {
                    v.push(("fnptr", s(tcx.def_path_str(instance.def_id()))));
                }
                _ => {}
            }
            v.push(("ptr", J::Bool(true)));
        }
        mir::ConstValue::Slice { alloc_id, meta } => {
            if let Some(b) = read_alloc_bytes(tcx, alloc_id, 0, meta) {
                let is_str = matches!(t.kind(), ty::Ref(_, i, _) if i.is_str());
                v.push((if is_str { "str" } else { "bytes" }, bytes_j(&b)));
            }
        }
        mir::ConstValue::ZeroSized => {
            v.push(("zst", J::Bool(true)));
        }
        mir::ConstValue::Indirect { alloc_id, offset } => {
            v.push(("indirect", J::Bool(true)));
            // a small array of scalars (`const OWS: [char; 2] = [' ', '\t']`): its elements
            if let ty::Array(et, len) = t.kind() {
                let esz: usize = match et.kind() {
                    ty::Char => 4,
                    ty::Bool => 1,
                    ty::Uint(u) => u.bit_width().map(|b| (b / 8) as usize).unwrap_or(8),
                    _ => 0,
                };
                if esz > 0 {
                    if let Some(l) = len.try_to_target_usize(tcx) {
                        if l <= 64 {
                            if let Some(b) = read_alloc_bytes(tcx, alloc_id, offset.bytes(), l * esz as u64) {
                                let mut items = vec![];
                                for i in 0..(l as usize) {
                                    let mut x: u128 = 0;
                                    for k in 0..esz {
                                        x |= (b[i * esz + k] as u128) << (8 * k);
                                    }
                                    if x <= i128::MAX as u128 {
                                        items.push(J::Num(x as i128));
                                    }
                                }
                                if items.len() == l as usize {
                                    v.push(("array_ints", J::Arr(items)));
                                }
                            }
                        }
                    }
                }
            }
            // a fat pointer (&[u8] / &str) stored in memory: follow the provenance of the data pointer
            if let ty::Ref(_, inner, _) = t.kind() {
                let is_str = inner.is_str();
                let is_bytes = matches!(inner.kind(), ty::Slice(e) if *e == tcx.types.u8);
                if is_str || is_bytes {
                    if let Some(mir::interpret::GlobalAlloc::Memory(a)) = tcx.try_get_global_alloc(alloc_id) {
                        let a = a.inner();
                        let off = offset.bytes() as usize;
                        if a.len() >= off + 16 {
                            let raw = a.inspect_with_uninit_and_ptr_outside_interpreter(off..off + 16);
                            let mut len: u64 = 0;
                            for i in 0..8 {
                                len |= (raw[8 + i] as u64) << (8 * i);
                            }
                            let mut poff: u64 = 0;
                            for i in 0..8 {
                                poff |= (raw[i] as u64) << (8 * i);
                            }
                            for (o, prov) in a.provenance().ptrs().iter() {
                                if o.bytes() as usize == off {
                                    if let Some(b) = read_alloc_bytes(tcx, prov.alloc_id(), poff, len) {
                                        v.push((if is_str { "str" } else { "bytes" }, bytes_j(&b)));
                                    }
                                }
                            }
                        }
                    }
                }
            }
        }
    }
    v
}

fn const_j<'tcx>(cx: &mut Cx<'tcx>, owner: DefId, c: &ConstOperand<'tcx>) -> J {
    let tcx = cx.tcx;
    let t = c.const_.ty();
    let mut v: Vec<(&str, J)> = vec![("k", s("const")), ("ty", ty_shallow(cx, t))];
    if let ty::FnDef(d, args) = t.kind() {
        v.push(("fn", s(tcx.def_path_str(*d))));
        v.push(("fn_full", s(tcx.def_path_str_with_args(*d, args))));
        return obj(v);
    }
    match c.const_ {
        Const::Unevaluated(u, _) => {
            if let Some(p) = u.promoted {
                v.push(("promoted", n(p.as_u32())));
                v.push(("promoted_of", s(tcx.def_path_str(u.def))));
            } else {
                v.push(("named", s(tcx.def_path_str(u.def))));
                v.push(("named_full", s(tcx.def_path_str_with_args(u.def, u.args))));
            }
        }
        _ => {}
    }
    let env = TypingEnv::post_analysis(tcx, owner);
    if let Ok(val) = c.const_.eval(tcx, env, DUMMY_SP) {
        v.extend(constval_j(cx, val, t));
    }
    obj(v)
}

fn operand_j<'tcx>(cx: &mut Cx<'tcx>, owner: DefId, body: &Body<'tcx>, o: &Operand<'tcx>) -> J {
    match o {
        Operand::Copy(p) => obj(vec![("k", s("copy")), ("place", place_j(cx, body, p))]),
        Operand::Move(p) => obj(vec![("k", s("move")), ("place", place_j(cx, body, p))]),
        Operand::Constant(c) => const_j(cx, owner, c),
        #[allow(unreachable_patterns)]
        other => obj(vec![("k", s("runtimechecks")), ("dbg", s(format!("{:?}", other)))]),
    }
}

fn rvalue_j<'tcx>(cx: &mut Cx<'tcx>, owner: DefId, body: &Body<'tcx>, rv: &Rvalue<'tcx>) -> J {
    let tcx = cx.tcx;
    match rv {
        Rvalue::Use(o, _) => obj(vec![("k", s("use")), ("op", operand_j(cx, owner, body, o))]),
        Rvalue::Repeat(o, c) => obj(vec![
            ("k", s("repeat")),
            ("op", operand_j(cx, owner, body, o)),
            ("count", s(format!("{:?}", c))),
        ]),
        Rvalue::Ref(_, bk, p) => obj(vec![
            ("k", s("ref")),
            ("mut", J::Bool(matches!(bk, BorrowKind::Mut { .. }))),
            ("place", place_j(cx, body, p)),
        ]),
        Rvalue::RawPtr(k, p) => obj(vec![
            ("k", s("rawptr")),
            ("mut", J::Bool(matches!(k, RawPtrKind::Mut))),
            ("place", place_j(cx, body, p)),
        ]),
        Rvalue::ThreadLocalRef(d) => obj(vec![("k", s("tlref")), ("def", s(tcx.def_path_str(*d)))]),
        Rvalue::Cast(ck, o, t) => obj(vec![
            ("k", s("cast")),
            ("kind", s(format!("{:?}", ck))),
            ("op", operand_j(cx, owner, body, o)),
            ("ty", ty_shallow(cx, *t)),
        ]),
        Rvalue::BinaryOp(op, ab) => obj(vec![
            ("k", s("binop")),
            ("op", s(format!("{:?}", op))),
            ("a", operand_j(cx, owner, body, &ab.0)),
            ("b", operand_j(cx, owner, body, &ab.1)),
        ]),
        Rvalue::UnaryOp(op, o) => obj(vec![
            ("k", s("unop")),
            ("op", s(format!("{:?}", op))),
            ("a", operand_j(cx, owner, body, o)),
        ]),
        Rvalue::Discriminant(p) => {
            let pt = p.ty(body, tcx).ty;
            let mut v = vec![("k", s("discr")), ("place", place_j(cx, body, p))];
            if let ty::Adt(def, _) = pt.kind() {
                note_adt(cx, *def);
                v.push(("adt", s(tcx.def_path_str(def.did()))));
            }
            obj(v)
        }
        Rvalue::Aggregate(kind, ops) => {
            let mut v = vec![("k", s("aggregate"))];
            match &**kind {
                AggregateKind::Array(_) => v.push(("agg", s("array"))),
                AggregateKind::Tuple => v.push(("agg", s("tuple"))),
                AggregateKind::Adt(did, vi, _, _, active) => {
                    let def = tcx.adt_def(*did);
                    note_adt(cx, def);
                    v.push(("agg", s("adt")));
                    v.push(("adt", s(tcx.def_path_str(*did))));
                    let var = def.variant(*vi);
                    v.push(("variant", s(var.name.as_str())));
                    v.push(("variant_idx", n(vi.as_u32())));
                    let names: Vec<J> = if let Some(a) = active {
                        vec![s(var.fields[*a].name.as_str())]
                    } else {
                        var.fields.iter().map(|f| s(f.name.as_str())).collect()
                    };
                    v.push(("fields", J::Arr(names)));
                }
                AggregateKind::Closure(did, _) => {
                    v.push(("agg", s("closure")));
                    v.push(("def", s(tcx.def_path_str(*did))));
                    let names = tcx.closure_saved_names_of_captured_variables(*did);
                    v.push(("fields", J::Arr(names.iter().map(|x| s(x.as_str())).collect())));
                }
                AggregateKind::Coroutine(did, _) => {
                    v.push(("agg", s("coroutine")));
                    v.push(("def", s(tcx.def_path_str(*did))));
                    let names = tcx.closure_saved_names_of_captured_variables(*did);
                    v.push(("fields", J::Arr(names.iter().map(|x| s(x.as_str())).collect())));
                }
                AggregateKind::CoroutineClosure(did, _) => {
                    v.push(("agg", s("coroutineclosure")));
                    v.push(("def", s(tcx.def_path_str(*did))));
                }
                AggregateKind::RawPtr(..) => v.push(("agg", s("rawptr"))),
            }
            let o: Vec<J> = ops.iter().map(|o| operand_j(cx, owner, body, o)).collect();
            v.push(("ops", J::Arr(o)));
            obj(v)
        }
        Rvalue::CopyForDeref(p) => obj(vec![
            ("k", s("use")),
            ("op", obj(vec![("k", s("copy")), ("place", place_j(cx, body, p))])),
        ]),
        Rvalue::WrapUnsafeBinder(o, _) => obj(vec![("k", s("use")), ("op", operand_j(cx, owner, body, o))]),
        #[allow(unreachable_patterns)]
        other => obj(vec![("k", s("other")), ("dbg", s(format!("{:?}", other)))]),
    }
}

fn callee_j<'tcx>(cx: &mut Cx<'tcx>, owner: DefId, body: &Body<'tcx>, func: &Operand<'tcx>) -> J {
    let tcx = cx.tcx;
    if let Operand::Constant(c) = func {
        if let ty::FnDef(def, args) = c.const_.ty().kind() {
            let mut v = vec![
                ("path", s(tcx.def_path_str(*def))),
                ("full", s(tcx.def_path_str_with_args(*def, args))),
                ("local", J::Bool(def.is_local())),
            ];
            let targs: Vec<J> = args.iter().filter_map(|a| a.as_type()).map(|t| ty_shallow(cx, t)).collect();
            v.push(("targs", J::Arr(targs)));
            if let Some(tr) = tcx.trait_of_assoc(*def) {
                v.push(("trait", s(tcx.def_path_str(tr))));
            }
            let env = TypingEnv::post_analysis(tcx, owner);
            match Instance::try_resolve(tcx, env, *def, args) {
                Ok(Some(inst)) => {
                    let rd = inst.def_id();
                    let kind = match inst.def {
                        ty::InstanceKind::Item(_) => "item",
                        ty::InstanceKind::Virtual(..) => "virtual",
                        ty::InstanceKind::Intrinsic(_) => "intrinsic",
                        ty::InstanceKind::ClosureOnceShim { .. } => "closure_once_shim",
                        ty::InstanceKind::FnPtrShim(..) => "fnptr_shim",
                        ty::InstanceKind::DropGlue(..) => "drop_glue",
                        ty::InstanceKind::CloneShim(..) => "clone_shim",
                        _ => "other",
                    };
                    v.push(("res_kind", s(kind)));
                    v.push(("res_path", s(tcx.def_path_str(rd))));
                    v.push(("res_full", s(tcx.def_path_str_with_args(rd, inst.args))));
                    v.push(("res_local", J::Bool(rd.is_local())));
                }
                _ => {
                    v.push(("res_kind", s("unresolved")));
                }
            }
            return obj(v);
        }
    }
    obj(vec![("indirect", operand_j(cx, owner, body, func))])
}

fn unwind_j(u: &UnwindAction) -> J {
    match u {
        UnwindAction::Cleanup(bb) => n(bb.as_u32()),
        _ => J::Null,
    }
}

fn term_j<'tcx>(cx: &mut Cx<'tcx>, owner: DefId, body: &Body<'tcx>, t: &Terminator<'tcx>) -> J {
    let tcx = cx.tcx;
    let sp = span_j(tcx, t.source_info.span);
    let mut v: Vec<(&str, J)> = vec![];
    match &t.kind {
        TerminatorKind::Goto { target } => {
            v.push(("k", s("goto")));
            v.push(("target", n(target.as_u32())));
        }
        TerminatorKind::SwitchInt { discr, targets } => {
            v.push(("k", s("switch")));
            v.push(("discr", operand_j(cx, owner, body, discr)));
            let mut ts = vec![];
            for (val, bb) in targets.iter() {
                let vj = if val <= i128::MAX as u128 { n(val as i128) } else { s(format!("{}", val)) };
                ts.push(J::Arr(vec![vj, n(bb.as_u32())]));
            }
            v.push(("targets", J::Arr(ts)));
            v.push(("otherwise", n(targets.otherwise().as_u32())));
        }
        TerminatorKind::UnwindResume => v.push(("k", s("resume"))),
        TerminatorKind::UnwindTerminate(_) => v.push(("k", s("terminate"))),
        TerminatorKind::Return => v.push(("k", s("return"))),
        TerminatorKind::Unreachable => v.push(("k", s("unreachable"))),
        TerminatorKind::Drop { place, target, unwind, .. } => {
            v.push(("k", s("drop")));
            v.push(("place", place_j(cx, body, place)));
            v.push(("target", n(target.as_u32())));
            v.push(("unwind", unwind_j(unwind)));
        }
        TerminatorKind::Call { func, args, destination, target, unwind, fn_span, .. } => {
            v.push(("k", s("call")));
            v.push(("callee", callee_j(cx, owner, body, func)));
            let a: Vec<J> = args.iter().map(|a| operand_j(cx, owner, body, &a.node)).collect();
            v.push(("args", J::Arr(a)));
            v.push(("dest", place_j(cx, body, destination)));
            v.push(("target", target.map(|b| n(b.as_u32())).unwrap_or(J::Null)));
            v.push(("unwind", unwind_j(unwind)));
            v.push(("fn_span", span_j(tcx, *fn_span)));
        }
        TerminatorKind::TailCall { func, args, .. } => {
            v.push(("k", s("tailcall")));
            v.push(("callee", callee_j(cx, owner, body, func)));
            let a: Vec<J> = args.iter().map(|a| operand_j(cx, owner, body, &a.node)).collect();
            v.push(("args", J::Arr(a)));
        }
        TerminatorKind::Assert { cond, expected, msg, target, unwind } => {
            v.push(("k", s("assert")));
            v.push(("cond", operand_j(cx, owner, body, cond)));
            v.push(("expected", J::Bool(*expected)));
            let (mk, ops): (String, Vec<J>) = match &**msg {
                AssertKind::BoundsCheck { len, index } => (
                    "BoundsCheck".into(),
                    vec![operand_j(cx, owner, body, len), operand_j(cx, owner, body, index)],
                ),
                AssertKind::Overflow(op, a, b) => (
                    format!("Overflow({:?})", op),
                    vec![operand_j(cx, owner, body, a), operand_j(cx, owner, body, b)],
                ),
                AssertKind::OverflowNeg(a) => ("OverflowNeg".into(), vec![operand_j(cx, owner, body, a)]),
                AssertKind::DivisionByZero(a) => ("DivisionByZero".into(), vec![operand_j(cx, owner, body, a)]),
                AssertKind::RemainderByZero(a) => ("RemainderByZero".into(), vec![operand_j(cx, owner, body, a)]),
                other => (format!("{:?}", other).split('(').next().unwrap_or("other").to_string(), vec![]),
            };
            v.push(("msg", s(mk)));
            v.push(("ops", J::Arr(ops)));
            v.push(("target", n(target.as_u32())));
            v.push(("unwind", unwind_j(unwind)));
        }
        TerminatorKind::Yield { value, resume, resume_arg, drop } => {
            v.push(("k", s("yield")));
            v.push(("value", operand_j(cx, owner, body, value)));
            v.push(("resume", n(resume.as_u32())));
            v.push(("resume_arg", place_j(cx, body, resume_arg)));
            v.push(("drop", drop.map(|b| n(b.as_u32())).unwrap_or(J::Null)));
        }
        TerminatorKind::CoroutineDrop => v.push(("k", s("coroutine_drop"))),
        TerminatorKind::FalseEdge { real_target, .. } => {
            v.push(("k", s("goto")));
            v.push(("target", n(real_target.as_u32())));
        }
        TerminatorKind::FalseUnwind { real_target, .. } => {
            v.push(("k", s("goto")));
            v.push(("target", n(real_target.as_u32())));
        }
        TerminatorKind::InlineAsm { .. } => v.push(("k", s("asm"))),
    }
    v.push(("span", sp));
    obj(v)
}

fn body_j<'tcx>(cx: &mut Cx<'tcx>, owner: DefId, body: &Body<'tcx>, name: String, kind: &str) -> J {
    let tcx = cx.tcx;
    let mut locals = vec![];
    for (l, d) in body.local_decls.iter_enumerated() {
        let _ = l;
        let _ = d.mutability;
        let tj = ty_j(cx, d.ty);
        locals.push(tj);
    }
    let mut dbg = vec![];
    for vdi in &body.var_debug_info {
        if let VarDebugInfoContents::Place(p) = &vdi.value {
            dbg.push(obj(vec![("name", s(vdi.name.as_str())), ("place", place_j(cx, body, p))]));
        }
    }
    let mut blocks = vec![];
    for (_bb, data) in body.basic_blocks.iter_enumerated() {
        let mut stmts = vec![];
        for st in &data.statements {
            match &st.kind {
                StatementKind::Assign(b) => {
                    let (p, rv) = &**b;
                    stmts.push(obj(vec![
                        ("k", s("assign")),
                        ("place", place_j(cx, body, p)),
                        ("rv", rvalue_j(cx, owner, body, rv)),
                        ("span", span_j(tcx, st.source_info.span)),
                    ]));
                }
                StatementKind::SetDiscriminant { place, variant_index } => {
                    let pt = place.ty(body, tcx).ty;
                    let vn = match pt.kind() {
                        ty::Adt(def, _) => def.variant(*variant_index).name.as_str().to_string(),
                        _ => format!("{}", variant_index.as_u32()),
                    };
                    stmts.push(obj(vec![
                        ("k", s("setdiscr")),
                        ("place", place_j(cx, body, place)),
                        ("variant", s(vn)),
                        ("span", span_j(tcx, st.source_info.span)),
                    ]));
                }
                StatementKind::Intrinsic(i) => {
                    stmts.push(obj(vec![("k", s("intrinsic")), ("dbg", s(format!("{:?}", i)))]));
                }
                _ => {}
            }
        }
        let term = data.terminator.as_ref().map(|t| term_j(cx, owner, body, t)).unwrap_or(J::Null);
        blocks.push(obj(vec![
            ("cleanup", J::Bool(data.is_cleanup)),
            ("stmts", J::Arr(stmts)),
            ("term", term),
        ]));
    }
    obj(vec![
        ("name", s(name)),
        ("kind", s(kind)),
        ("arg_count", n(body.arg_count)),
        ("span", span_j(tcx, body.span)),
        ("locals", J::Arr(locals)),
        ("debug", J::Arr(dbg)),
        ("blocks", J::Arr(blocks)),
    ])
}

fn dump_crate<'tcx>(tcx: TyCtxt<'tcx>) -> J {
    let mut cx = Cx { tcx, adts: BTreeMap::new() };
    let mut bodies = vec![];
    let mut fns = vec![];
    for ldid in tcx.mir_keys(()) {
        let did = ldid.to_def_id();
        let dk = tcx.def_kind(did);
        let kind = match dk {
            DefKind::Fn => "fn",
            DefKind::AssocFn => "assocfn",
            DefKind::Closure => "closure",
            DefKind::Const { .. } | DefKind::AssocConst { .. } => "const",
            _ => continue,
        };
        let name = tcx.def_path_str(did);
        if kind == "const" {
            // the initializer of a named constant whose value is not a scalar / string / array the constant evaluator below
            // can decode (`const GZIP: HeaderValue = HeaderValue::from_static("gzip")`): its MIR, filed like a promoted
            // body under the constant's path, so that the interpreter can read the value off it
            if tcx.generics_of(did).is_empty() {
                let body = tcx.mir_for_ctfe(did);
                bodies.push(body_j(&mut cx, did, body, name.clone(), "promoted"));
            }
            continue;
        }
        let body = tcx.optimized_mir(did);
        bodies.push(body_j(&mut cx, did, body, name.clone(), kind));
        // promoted consts of this body
        let proms = tcx.promoted_mir(did);
        for (pi, pb) in proms.iter_enumerated() {
            bodies.push(body_j(&mut cx, did, pb, format!("{}::promoted[{}]", name, pi.as_u32()), "promoted"));
        }
        // item facts
        let mut v = vec![("path", s(name)), ("kind", s(kind))];
        if matches!(dk, DefKind::Fn | DefKind::AssocFn) {
            v.push(("vis", s(format!("{:?}", tcx.visibility(did)))));
            let sig = tcx.fn_sig(did).instantiate_identity().skip_norm_wip();
            v.push(("sig", s(format!("{:?}", sig))));
            if let Some(imp) = tcx.impl_of_assoc(did) {
                v.push(("impl_self", s(format!("{}", tcx.type_of(imp).instantiate_identity().skip_norm_wip()))));
                if let Some(tr) = tcx.impl_opt_trait_ref(imp) {
                    let tr = tr.instantiate_identity().skip_norm_wip();
                    v.push(("impl_trait", s(tcx.def_path_str(tr.def_id))));
                    v.push(("impl_trait_full", s(format!("{}", tr))));
                }
            }
            if let Some(tr) = tcx.trait_of_assoc(did) {
                v.push(("trait_default", s(tcx.def_path_str(tr))));
            }
        } else {
            let parent = tcx.parent(did);
            v.push(("parent", s(tcx.def_path_str(parent))));
        }
        v.push(("span", span_j(tcx, tcx.def_span(did))));
        fns.push(obj(v));
    }

    // impls, consts, statics, adts of the local crate
    let mut impls = vec![];
    let mut consts = vec![];
    let items = tcx.hir_crate_items(());
    for id in items.definitions() {
        let did = id.to_def_id();
        match tcx.def_kind(did) {
            DefKind::Impl { of_trait } => {
                let self_ty = tcx.type_of(did).instantiate_identity().skip_norm_wip();
                let mut v = vec![("self", s(format!("{}", self_ty)))];
                if let ty::Adt(def, _) = self_ty.kind() {
                    note_adt(&mut cx, *def);
                    v.push(("self_adt", s(tcx.def_path_str(def.did()))));
                }
                if of_trait {
                    if let Some(tr) = tcx.impl_opt_trait_ref(did) {
                        let tr = tr.instantiate_identity().skip_norm_wip();
                        v.push(("trait", s(tcx.def_path_str(tr.def_id))));
                        v.push(("trait_full", s(format!("{}", tr))));
                    }
                }
                let assoc: Vec<J> = tcx
                    .associated_items(did)
                    .in_definition_order()
                    .map(|a| s(a.name().as_str()))
                    .collect();
                v.push(("items", J::Arr(assoc)));
                v.push(("span", span_j(tcx, tcx.def_span(did))));
                impls.push(obj(v));
            }
            DefKind::Const { .. } | DefKind::AssocConst { .. } => {
                let mut v = vec![("path", s(tcx.def_path_str(did)))];
                let t = tcx.type_of(did).instantiate_identity().skip_norm_wip();
                v.push(("ty", s(format!("{}", t))));
                if tcx.generics_of(did).is_empty() {
                    if let Ok(val) = tcx.const_eval_poly(did) {
                        v.extend(constval_j(&mut cx, val, t));
                    }
                }
                consts.push(obj(v));
            }
            DefKind::Static { .. } => {
                let mut v = vec![("path", s(tcx.def_path_str(did))), ("static", J::Bool(true))];
                let t = tcx.type_of(did).instantiate_identity().skip_norm_wip();
                v.push(("ty", s(format!("{}", t))));
                if let Ok(a) = tcx.eval_static_initializer(did) {
                    let a = a.inner();
                    if a.len() <= 16 {
                        let b = a.inspect_with_uninit_and_ptr_outside_interpreter(0..a.len());
                        let mut x: u128 = 0;
                        for (i, by) in b.iter().enumerate() {
                            x |= (*by as u128) << (8 * i);
                        }
                        if x <= i128::MAX as u128 {
                            v.push(("int", J::Num(x as i128)));
                        }
                    }
                }
                consts.push(obj(v));
            }
            DefKind::Struct | DefKind::Enum | DefKind::Union => {
                let def = tcx.adt_def(did);
                note_adt(&mut cx, def);
            }
            _ => {}
        }
    }

    // unsafe blocks (HIR)
    let mut unsafes = vec![];
    for id in items.definitions() {
        let did = id.to_def_id();
        if !matches!(tcx.def_kind(did), DefKind::Fn | DefKind::AssocFn | DefKind::Closure) {
            continue;
        }
        if let Some(body) = tcx.hir_maybe_body_owned_by(id) {
            let mut vis = UnsafeFinder { spans: vec![] };
            rustc_hir::intravisit::Visitor::visit_body(&mut vis, body);
            for sp in vis.spans {
                unsafes.push(obj(vec![("fn", s(tcx.def_path_str(did))), ("span", span_j(tcx, sp))]));
            }
        }
    }

    let adts: Vec<J> = cx.adts.into_values().filter(|j| !matches!(j, J::Null)).collect();
    let mut ver = String::new();
    let _ = write!(ver, "{}", tcx.sess.cfg_version);
    let cfgs: Vec<J> = std::env::var("HSFACTS_FEATURES")
        .unwrap_or_default()
        .split(',')
        .filter(|x| !x.is_empty())
        .map(|x| s(x))
        .collect();
    obj(vec![
        ("crate", s("http_serve")),
        ("rustc", s(ver)),
        ("features", J::Arr(cfgs)),
        ("fns", J::Arr(fns)),
        ("bodies", J::Arr(bodies)),
        ("impls", J::Arr(impls)),
        ("consts", J::Arr(consts)),
        ("adts", J::Arr(adts)),
        ("unsafe_blocks", J::Arr(unsafes)),
    ])
}

struct UnsafeFinder {
    spans: Vec<Span>,
}
impl<'v> rustc_hir::intravisit::Visitor<'v> for UnsafeFinder {
    fn visit_block(&mut self, b: &'v rustc_hir::Block<'v>) {
        if let rustc_hir::BlockCheckMode::UnsafeBlock(_) = b.rules {
            self.spans.push(b.span);
        }
        rustc_hir::intravisit::walk_block(self, b);
    }
}
